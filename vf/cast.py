"""cast -- symbolic interpreter over clang's JSON AST for the C sources (engine E2).

The translation unit is parsed by the real clang from the repository's current .c
file with the real include paths, except Python.h / numpy/arrayobject.h which are
shadowed by declaration-only stubs (vf/cstubs) so that C-API macros become plain
CallExprs; those calls are intrinsics here.  Values are Python numbers or symx
SInt/SReal/SBool, so a C `if` on a symbolic condition forks exactly like a Python
`if` under vf.symx.  double is Real (IEEE when every operand is concrete).
"""
import hashlib
import json
import math
import os
import pickle
import subprocess
import tempfile

from . import symx, symnp
from .symx import Sym, SInt, SReal, SBool, Unsupported, is_sym

STUBS = os.path.join(os.path.dirname(os.path.abspath(__file__)), "cstubs")
UNWIND = 400

_TU_CACHE = {}


def repo():
    return os.environ.get("VERIF_REPO", "/repo")


def parse_tu(relpath, cxx=False, extra_inc=(), keep=None):
    """clang JSON AST of a repository source file -> dict(functions, records, globals)"""
    path = os.path.join(repo(), relpath)
    src = open(path, "rb").read()
    key = (path, hashlib.sha1(src).hexdigest(), cxx)
    if key in _TU_CACHE:
        return _TU_CACHE[key]
    cmd = ["clang++" if cxx else "clang"]
    if cxx:
        cmd += ["-std=c++11"]
    cmd += ["-Xclang", "-ast-dump=json", "-fsyntax-only", "-w", "-I", STUBS,
            "-I", os.path.dirname(path)]
    for i in extra_inc:
        cmd += ["-I", i]
    cmd += [path]
    with tempfile.TemporaryFile() as out:
        p = subprocess.run(cmd, stdout=out, stderr=subprocess.PIPE)
        out.seek(0)
        data = out.read()
    if not data:
        raise RuntimeError("clang produced no AST for %s: %s" % (relpath, p.stderr.decode()[-500:]))
    tree = json.loads(data)
    tu = TU(relpath, hashlib.sha1(src).hexdigest(), p.stderr.decode(errors="replace"))
    tu.collect(tree, keep)
    del tree
    _TU_CACHE[key] = tu
    return tu


class TU(object):
    def __init__(self, relpath, sha, diagnostics):
        self.relpath = relpath
        self.sha = sha
        self.diagnostics = diagnostics
        self.functions = {}     # name -> FunctionDecl node (with body)
        self.records = {}       # struct name -> [(field, qualType)]
        self.enums = {}
        self.globals = {}       # name -> VarDecl node
        self.by_id = {}

    def collect(self, node, keep=None, depth=0, scope=""):
        for n in node.get("inner", []):
            k = n.get("kind")
            if k in ("FunctionDecl", "CXXMethodDecl", "CXXConstructorDecl"):
                if any(c.get("kind") == "CompoundStmt" for c in n.get("inner", [])):
                    name = n.get("name")
                    if k != "FunctionDecl" and scope:
                        name = scope + "::" + name
                    if keep is None or keep(name):
                        self.functions[name] = n
            elif k in ("RecordDecl", "CXXRecordDecl"):
                if n.get("completeDefinition"):
                    self.records[n.get("name")] = [
                        (f["name"], f["type"]["qualType"]) for f in n.get("inner", [])
                        if f.get("kind") == "FieldDecl"]
                    if k == "CXXRecordDecl":
                        self.collect(n, keep, depth + 1, n.get("name"))
            elif k == "EnumDecl":
                val = 0
                for c in n.get("inner", []):
                    if c.get("kind") == "EnumConstantDecl":
                        self.enums[c["name"]] = val
                        val += 1
            elif k == "VarDecl" and depth == 0:
                self.globals[n.get("name")] = n
            elif k in ("NamespaceDecl", "LinkageSpecDecl") and depth < 3:
                self.collect(n, keep, depth + 1, scope)


# ----------------------------------------------------------------------------
# memory model

class Var(object):
    __slots__ = ("v", "name")

    def __init__(self, v=None, name=""):
        self.v = v
        self.name = name

    def get(self):
        return self.v

    def set(self, v):
        self.v = v


class ListRegion(object):
    """a C array (local, struct member or malloc'ed)"""

    def __init__(self, cells, name=""):
        self.cells = cells
        self.name = name

    def size(self):
        return len(self.cells)

    def load(self, i):
        return self.cells[i]

    def store(self, i, v):
        self.cells[i] = v


class NpRegion(object):
    """the data buffer of a symnp array seen from C (contiguous by contract)"""

    def __init__(self, arr, interp):
        self.arr = arr
        self.interp = interp
        self.name = "ndarray"

    def size(self):
        return self.arr.a.size

    def load(self, i):
        return self.arr.a.flat[i]

    def store(self, i, v):
        self.interp.writes.append((self.arr, i))
        self.arr._check_writable()
        self.arr.a.flat[i] = symnp.cast_cell(v, self.arr.dt)


class VarRegion(object):
    def __init__(self, var):
        self.var = var
        self.name = "&" + var.name

    def size(self):
        return 1

    def load(self, i):
        return self.var.get()

    def store(self, i, v):
        self.var.set(v)


class Ptr(object):
    __slots__ = ("region", "off")

    def __init__(self, region, off=0):
        self.region = region
        self.off = off

    def __repr__(self):
        return "<Ptr %s+%r>" % (getattr(self.region, "name", "?"), self.off)


class Struct(object):
    def __init__(self, tname, fields):
        self.tname = tname
        self.f = fields     # name -> value | ListRegion | Struct

    def __repr__(self):
        return "<struct %s>" % self.tname


class ElemLV(object):
    def __init__(self, interp, region, idx):
        self.interp, self.region, self.idx = interp, region, idx

    def _index(self):
        i = self.idx
        if isinstance(i, Sym):
            i = int(i)      # forks over feasible values
        n = self.region.size()
        if not (0 <= i < n):
            self.interp.oob.append((self.region.name, i, n))
            raise CError("out-of-bounds access %s[%d] (size %d)" % (self.region.name, i, n))
        return i

    def get(self):
        return self.region.load(self._index())

    def set(self, v):
        self.region.store(self._index(), v)


class FieldLV(object):
    def __init__(self, st, name):
        self.st, self.name = st, name

    def get(self):
        return self.st.f[self.name]

    def set(self, v):
        self.st.f[self.name] = v


class AllocToken(object):
    def __init__(self, count, size):
        self.count, self.size = count, size


class SizeOf(object):
    def __init__(self, tname):
        self.tname = tname


class CError(Exception):
    """the C code did something a real run would crash or corrupt memory on"""


class _Return(BaseException):
    def __init__(self, v):
        self.v = v


class _Break(BaseException):
    pass


class _Continue(BaseException):
    pass


NONE = None     # Py_None


def c_trunc_div(a, b):
    if not is_sym(a) and not is_sym(b):
        if b == 0:
            raise CError("integer division by zero")
        q = abs(a) // abs(b)
        return q if (a >= 0) == (b >= 0) else -q
    cx = symx.Ctx.current
    cx.obligation(symx.term_of(b != 0), "C integer division by zero")
    aa = abs(a)
    bb = abs(b)
    q = aa // bb
    return symx.sym_ite((a >= 0) == (b >= 0) if not isinstance((a >= 0), bool) or not isinstance((b >= 0), bool) else ((a >= 0) == (b >= 0)), q, -q)


def c_rem(a, b):
    return a - b * c_trunc_div(a, b)


def truth(v):
    if v is None:
        return False
    if isinstance(v, (Ptr, Struct, symnp.SArr, list, tuple, str, bytes, AllocToken)):
        return True
    if isinstance(v, SBool):
        return bool(v)
    if isinstance(v, Sym):
        return bool(v != 0)
    if isinstance(v, bool):
        return v
    if isinstance(v, (int, float)):
        return v != 0
    return True


def as_num(v):
    if isinstance(v, SBool):
        return v._asint()
    if isinstance(v, bool):
        return int(v)
    return v


_FLOAT_T = ("double", "float", "long double", "npy_float64", "npy_float32")


def is_float_type(qt):
    qt = qt.replace("const ", "").strip()
    return qt in _FLOAT_T


def is_int_type(qt):
    qt = qt.replace("const ", "").replace("unsigned ", "").replace("signed ", "").strip()
    return qt in ("int", "long", "long long", "short", "char", "npy_intp", "npy_int64", "npy_int32",
                  "npy_int16", "npy_int8", "npy_uint8", "npy_uint16", "npy_uint32", "npy_uint64",
                  "size_t", "Py_ssize_t", "off_t", "bool", "_Bool", "npy_bool", "unsigned", "ssize_t")


class Interp(object):
    def __init__(self, tus, intrinsics=None, unwind=UNWIND):
        self.tus = list(tus)
        self.funcs = {}
        self.records = {}
        self.enums = {}
        self.globals_decl = {}
        for tu in self.tus:
            self.funcs.update(tu.functions)
            self.records.update(tu.records)
            self.enums.update(tu.enums)
            self.globals_decl.update(tu.globals)
        self.intr = dict(DEFAULT_INTRINSICS)
        if intrinsics:
            self.intr.update(intrinsics)
        self.unwind = unwind
        self.writes = []       # (SArr, index) stores into numpy buffers
        self.oob = []
        self.globals = {}
        self.calls = []
        self.depth = 0

    # -- public ---------------------------------------------------------------
    def call(self, fname, *args):
        fn = self.funcs.get(fname)
        if fn is None:
            raise Unsupported("C function %s has no body in the parsed sources" % fname)
        params = [c for c in fn.get("inner", []) if c.get("kind") == "ParmVarDecl"]
        body = [c for c in fn.get("inner", []) if c.get("kind") == "CompoundStmt"][0]
        if len(params) != len(args):
            raise Unsupported("arity mismatch calling %s" % fname)
        env = {}
        for p, a in zip(params, args):
            env[p["id"]] = Var(self.coerce(a, p["type"]["qualType"]), p.get("name", ""))
        self.depth += 1
        if self.depth > 60:
            raise Unsupported("C recursion depth")
        try:
            self.exec_stmt(body, env)
            return None
        except _Return as r:
            return r.v
        finally:
            self.depth -= 1

    # -- helpers ----------------------------------------------------------------
    def coerce(self, v, qt):
        if v is None:
            return v
        if is_float_type(qt):
            if isinstance(v, (SInt, SBool)):
                return symx.to_real(v)
            if isinstance(v, (int, bool)) and not isinstance(v, float):
                return float(v)
            return v
        if is_int_type(qt):
            if isinstance(v, SReal):
                return symx.to_int_trunc(v)
            if isinstance(v, float):
                if math.isnan(v) or math.isinf(v):
                    raise CError("float->int conversion of a non-finite value (undefined behaviour)")
                return int(v)
            return as_num(v)
        return v

    def zero_of(self, qt):
        qt = qt.strip()
        if qt.endswith("*"):
            return None
        if "[" in qt:
            base, dims = qt.split("[", 1)
            n = int(dims.split("]")[0])
            rest = dims.split("]", 1)[1]
            if rest.strip():
                raise Unsupported("multi-dimensional C arrays")
            return ListRegion([self.zero_of(base) for _ in range(n)], qt)
        if is_float_type(qt):
            return 0.0
        if is_int_type(qt):
            return 0
        st = qt.replace("struct ", "").strip()
        if st in self.records:
            return Struct(st, {f: self.zero_of(t) for f, t in self.records[st]})
        return None

    # -- statements -------------------------------------------------------------
    def exec_stmt(self, n, env):
        k = n.get("kind")
        if k is None:
            return
        m = getattr(self, "s_" + k, None)
        if m is not None:
            return m(n, env)
        # expression statement
        self.eval(n, env)

    def s_CompoundStmt(self, n, env):
        for c in n.get("inner", []):
            self.exec_stmt(c, env)

    def s_NullStmt(self, n, env):
        pass

    def s_DeclStmt(self, n, env):
        for d in n.get("inner", []):
            if d.get("kind") != "VarDecl":
                continue
            qt = d["type"]["qualType"]
            init = [c for c in d.get("inner", []) if "kind" in c and not c["kind"].endswith("Attr")]
            if init:
                if init[0]["kind"] == "InitListExpr":
                    v = self.init_list(init[0], qt, env)
                else:
                    v = self.coerce(self.eval(init[0], env), qt)
            else:
                v = self.zero_of(qt) if ("[" in qt or qt.replace("struct ", "").strip() in self.records) else Uninit(d.get("name"))
            env[d["id"]] = Var(v, d.get("name", ""))

    def init_list(self, n, qt, env):
        if "[" in qt:
            reg = self.zero_of(qt)
            for i, c in enumerate(n.get("inner", [])):
                reg.cells[i] = self.eval(c, env)
            return reg
        raise Unsupported("initializer list for %s" % qt)

    def s_ReturnStmt(self, n, env):
        inner = n.get("inner", [])
        raise _Return(self.eval(inner[0], env) if inner else None)

    def s_IfStmt(self, n, env):
        inner = n["inner"]
        if truth(self.eval(inner[0], env)):
            self.exec_stmt(inner[1], env)
        elif len(inner) > 2:
            self.exec_stmt(inner[2], env)

    def _loop(self, cond, body, inc, env, post_test=False):
        it = 0
        first = True
        while True:
            if not (post_test and first):
                if cond is not None and cond.get("kind") is not None:
                    c = self.eval(cond, env)
                    symbolic = isinstance(c, Sym)
                    if not truth(c):
                        break
                    if symbolic:
                        it += 1
                        if it > self.unwind:
                            raise Unsupported("unwinding bound %d exceeded on a symbolic loop condition" % self.unwind)
            first = False
            it_c = 0
            try:
                self.exec_stmt(body, env)
            except _Break:
                break
            except _Continue:
                pass
            if inc is not None and inc.get("kind") is not None:
                self.eval(inc, env)
            it_c += 1

    def s_ForStmt(self, n, env):
        init, condvar, cond, inc, body = n["inner"]
        if init.get("kind") is not None:
            self.exec_stmt(init, env)
        self._loop(cond, body, inc, env)

    def s_WhileStmt(self, n, env):
        cond, body = n["inner"][-2], n["inner"][-1]
        self._loop(cond, body, None, env)

    def s_DoStmt(self, n, env):
        body, cond = n["inner"]
        self._loop(cond, body, None, env, post_test=True)

    def s_BreakStmt(self, n, env):
        raise _Break()

    def s_ContinueStmt(self, n, env):
        raise _Continue()

    # -- expressions ------------------------------------------------------------
    def eval(self, n, env):
        k = n["kind"]
        m = getattr(self, "e_" + k, None)
        if m is None:
            raise Unsupported("C AST node %s" % k)
        return m(n, env)

    def lvalue(self, n, env):
        k = n["kind"]
        if k == "DeclRefExpr":
            rid = n["referencedDecl"]["id"]
            if rid in env:
                return env[rid]
            name = n["referencedDecl"].get("name")
            if name not in self.globals:
                gd = self.globals_decl.get(name)
                v = None
                if gd is not None:
                    init = [c for c in gd.get("inner", []) if "kind" in c and c["kind"] not in ("FullComment",)]
                    qt = gd["type"]["qualType"]
                    if init and init[0]["kind"] != "InitListExpr":
                        v = self.coerce(self.eval(init[0], {}), qt)
                    else:
                        v = self.zero_of(qt)
                self.globals[name] = Var(v, name)
            return self.globals[name]
        if k == "ParenExpr":
            return self.lvalue(n["inner"][0], env)
        if k == "ArraySubscriptExpr":
            base = self.eval(n["inner"][0], env)
            idx = as_num(self.eval(n["inner"][1], env))
            if isinstance(base, ListRegion):
                base = Ptr(base, 0)
            if not isinstance(base, Ptr):
                raise CError("subscript of a NULL/non-pointer value")
            return ElemLV(self, base.region, base.off + idx)
        if k == "UnaryOperator" and n["opcode"] == "*":
            p = self.eval(n["inner"][0], env)
            if not isinstance(p, Ptr):
                raise CError("dereference of a NULL/non-pointer value")
            return ElemLV(self, p.region, p.off)
        if k == "MemberExpr":
            base_n = n["inner"][0]
            if n.get("isArrow"):
                b = self.eval(base_n, env)
                if isinstance(b, Ptr):
                    b = b.region.load(b.off) if not isinstance(b.region, StructRegion) else b.region.st
                if not isinstance(b, Struct):
                    raise CError("-> on a NULL/non-struct pointer")
            else:
                b = self.lvalue(base_n, env).get()
            return FieldLV(b, n["name"])
        if k in ("ImplicitCastExpr", "CStyleCastExpr") and n.get("castKind") in ("NoOp", "LValueBitCast"):
            return self.lvalue(n["inner"][0], env)
        raise Unsupported("lvalue of %s" % k)

    def e_ParenExpr(self, n, env):
        return self.eval(n["inner"][0], env)

    def e_ConstantExpr(self, n, env):
        return self.eval(n["inner"][0], env)

    def e_IntegerLiteral(self, n, env):
        return int(n["value"])

    def e_FloatingLiteral(self, n, env):
        return float(n["value"])

    def e_CharacterLiteral(self, n, env):
        return int(n["value"])

    def e_StringLiteral(self, n, env):
        v = n.get("value", '""')
        try:
            return json.loads(v)
        except Exception:
            return v.strip('"')

    def e_GNUNullExpr(self, n, env):
        return None

    def e_CXXNullPtrLiteralExpr(self, n, env):
        return None

    def e_CXXBoolLiteralExpr(self, n, env):
        return bool(n["value"])

    def e_DeclRefExpr(self, n, env):
        rd = n["referencedDecl"]
        if rd["kind"] == "FunctionDecl":
            return FuncRef(rd["name"])
        if rd["kind"] == "EnumConstantDecl":
            return self.enums[rd["name"]]
        # array-typed variables evaluate to their region (decay happens in the cast)
        return self.lvalue(n, env).get()

    def e_ImplicitCastExpr(self, n, env):
        return self.cast(n, env)

    def e_CStyleCastExpr(self, n, env):
        return self.cast(n, env)

    def e_CXXStaticCastExpr(self, n, env):
        return self.cast(n, env)

    def e_CXXFunctionalCastExpr(self, n, env):
        return self.cast(n, env)

    def cast(self, n, env):
        ck = n.get("castKind")
        sub = n["inner"][0]
        qt = n["type"]["qualType"]
        if ck == "LValueToRValue":
            v = self.lvalue(sub, env).get()
            if isinstance(v, Uninit):
                raise CError("read of uninitialised variable %s" % v.name)
            return v
        if ck == "ArrayToPointerDecay":
            if sub["kind"] == "StringLiteral":
                return self.eval(sub, env)
            v = self.lvalue(sub, env).get()
            if isinstance(v, ListRegion):
                return Ptr(v, 0)
            return v
        if ck == "FunctionToPointerDecay":
            return self.eval(sub, env)
        v = self.eval(sub, env)
        if ck == "IntegralToFloating":
            v = as_num(v)
            return symx.to_real(v) if is_sym(v) else float(v)
        if ck == "FloatingToIntegral":
            return self.coerce(v, "long")
        if ck in ("IntegralCast", "NoOp", "FloatingCast", "NullToPointer", "IntegralToBoolean",
                  "PointerToBoolean", "BuiltinFnToFnPtr", "ToVoid", "UserDefinedConversion",
                  "ConstructorConversion", "DerivedToBase", "UncheckedDerivedToBase"):
            if ck == "IntegralToBoolean":
                return truth(v) if not is_sym(v) else (v != 0)
            if ck == "PointerToBoolean":
                return truth(v)
            if ck == "IntegralCast":
                return as_num(v)
            return v
        if ck == "BitCast":
            if isinstance(v, AllocToken):
                t = qt.replace("*", "").replace("struct ", "").strip()
                if t in self.records:
                    return Ptr(StructRegion(self.zero_of("struct " + t)), 0)
                if is_float_type(t) or is_int_type(t):
                    cnt = v.count
                    return Ptr(ListRegion([self.zero_of(t) for _ in range(int(cnt))], "malloc"), 0)
                raise Unsupported("allocation cast to %s" % qt)
            return v
        raise Unsupported("cast kind %s" % ck)

    def e_UnaryExprOrTypeTraitExpr(self, n, env):
        if n.get("name") == "sizeof":
            t = n.get("argType", {}).get("qualType")
            return SizeOf(t)
        raise Unsupported("type trait %s" % n.get("name"))

    def e_UnaryOperator(self, n, env):
        op = n["opcode"]
        sub = n["inner"][0]
        if op == "&":
            if sub["kind"] == "DeclRefExpr" and sub["referencedDecl"].get("name") == "_Py_NoneStruct":
                return NONE_PTR
            lv = self.lvalue(sub, env)
            if isinstance(lv, Var):
                return Ptr(VarRegion(lv), 0)
            if isinstance(lv, ElemLV):
                return Ptr(lv.region, lv.idx)
            if isinstance(lv, FieldLV):
                v = lv.get()
                if isinstance(v, (ListRegion, Struct)):
                    return Ptr(v, 0) if isinstance(v, ListRegion) else Ptr(StructRegion(v), 0)
                return Ptr(FieldRegion(lv), 0)
            raise Unsupported("address-of")
        if op == "*":
            return self.lvalue(n, env).get()
        if op in ("++", "--"):
            lv = self.lvalue(sub, env)
            old = lv.get()
            if isinstance(old, Ptr):
                new = Ptr(old.region, old.off + (1 if op == "++" else -1))
            else:
                new = old + 1 if op == "++" else old - 1
            lv.set(new)
            return old if n.get("isPostfix") else new
        v = self.eval(sub, env)
        if op == "-":
            return -as_num(v)
        if op == "+":
            return as_num(v)
        if op == "!":
            if isinstance(v, SBool):
                return ~v
            if isinstance(v, Sym):
                return v == 0
            return not truth(v)
        if op == "~":
            return ~v
        raise Unsupported("unary %s" % op)

    def e_BinaryOperator(self, n, env):
        op = n["opcode"]
        L, R = n["inner"]
        if op == "=":
            v = self.eval(R, env)
            lv = self.lvalue(L, env)
            v = self.coerce(v, L["type"]["qualType"])
            lv.set(v)
            return v
        if op == "&&":
            a = self.eval(L, env)
            if not truth(a):
                return False
            return truth(self.eval(R, env))
        if op == "||":
            a = self.eval(L, env)
            if truth(a):
                return True
            return truth(self.eval(R, env))
        if op == ",":
            self.eval(L, env)
            return self.eval(R, env)
        a = self.eval(L, env)
        b = self.eval(R, env)
        return self.binop(op, a, b, n["type"]["qualType"], L["type"]["qualType"])

    def binop(self, op, a, b, qt, lqt=""):
        if op in ("==", "!="):
            if a is None or b is None or isinstance(a, (Ptr, symnp.SArr, _NonePtr)) or isinstance(b, (Ptr, symnp.SArr, _NonePtr)):
                same = ptr_same(a, b)
                return same if op == "==" else not same
        a, b = as_num(a), as_num(b)
        if isinstance(a, Ptr) or isinstance(b, Ptr):
            if op == "+":
                p, i = (a, b) if isinstance(a, Ptr) else (b, a)
                return Ptr(p.region, p.off + i)
            if op == "-":
                if isinstance(b, Ptr):
                    if a.region is not b.region:
                        raise CError("subtraction of pointers into different objects")
                    return a.off - b.off
                return Ptr(a.region, a.off - b)
            if op in ("<", ">", "<=", ">="):
                a, b = a.off, b.off
            else:
                raise Unsupported("pointer op %s" % op)
        if op == "+":
            r = a + b
        elif op == "-":
            r = a - b
        elif op == "*":
            r = a * b
        elif op == "/":
            if is_float_type(qt):
                if not is_sym(a) and not is_sym(b):
                    if b == 0:
                        # IEEE: inf/nan.  keep going with the float the machine produces
                        r = math.copysign(math.inf, a) * math.copysign(1.0, b) if a != 0 else math.nan
                    else:
                        r = a / b
                else:
                    r = a / b
            else:
                r = c_trunc_div(a, b)
        elif op == "%":
            r = c_rem(a, b)
        elif op == "<":
            return a < b
        elif op == ">":
            return a > b
        elif op == "<=":
            return a <= b
        elif op == ">=":
            return a >= b
        elif op == "==":
            return a == b
        elif op == "!=":
            return a != b
        elif op in ("&", "|", "^", "<<", ">>") and not is_sym(a) and not is_sym(b):
            a, b = int(a), int(b)
            r = {"&": a & b, "|": a | b, "^": a ^ b, "<<": a << b, ">>": a >> b}[op]
        else:
            raise Unsupported("binary %s" % op)
        if isinstance(r, SInt) and is_int_type(qt):
            bits = 31 if qt.strip() in ("int", "npy_int32") else 63
            cx = symx.Ctx.current
            if cx is not None:
                cx.obligation(symx.term_of(symx.sym_and(r >= -(2 ** bits), r < 2 ** bits)),
                              "signed overflow in C arithmetic")
        return r

    def e_CompoundAssignOperator(self, n, env):
        op = n["opcode"][:-1]
        L, R = n["inner"]
        lv = self.lvalue(L, env)
        b = self.eval(R, env)
        a = lv.get()
        cqt = n.get("computeResultType", n["type"])["qualType"]
        if is_float_type(cqt):
            a = self.coerce(a, "double")
            b = self.coerce(b, "double")
        r = self.binop(op, a, b, cqt)
        r = self.coerce(r, L["type"]["qualType"])
        lv.set(r)
        return r

    def e_ConditionalOperator(self, n, env):
        c, a, b = n["inner"]
        return self.eval(a, env) if truth(self.eval(c, env)) else self.eval(b, env)

    def e_ArraySubscriptExpr(self, n, env):
        return self.lvalue(n, env).get()

    def e_MemberExpr(self, n, env):
        return self.lvalue(n, env).get()

    def e_CallExpr(self, n, env):
        callee = self.eval(n["inner"][0], env)
        args = [self.eval(a, env) for a in n["inner"][1:]]
        if isinstance(callee, FuncRef):
            name = callee.name
            self.calls.append(name)
            if name in self.intr:
                return self.intr[name](self, *args)
            if name in self.funcs:
                return self.call(name, *args)
            raise Unsupported("call to unknown C function %s" % name)
        raise Unsupported("indirect call")

    def e_InitListExpr(self, n, env):
        raise Unsupported("InitListExpr in expression")

    def e_ExprWithCleanups(self, n, env):
        return self.eval(n["inner"][0], env)

    def e_MaterializeTemporaryExpr(self, n, env):
        return self.eval(n["inner"][0], env)

    def e_CXXBindTemporaryExpr(self, n, env):
        return self.eval(n["inner"][0], env)


class Uninit(object):
    def __init__(self, name):
        self.name = name


class FuncRef(object):
    def __init__(self, name):
        self.name = name


class _NonePtr(object):
    def __repr__(self):
        return "<Py_None>"


NONE_PTR = _NonePtr()


def ptr_same(a, b):
    def norm(x):
        if isinstance(x, _NonePtr):
            return ("none",)
        if x is None or (isinstance(x, int) and x == 0):
            return ("null",)
        return x
    a, b = norm(a), norm(b)
    if isinstance(a, tuple) or isinstance(b, tuple):
        return isinstance(a, tuple) and isinstance(b, tuple) and a == b
    if isinstance(a, Ptr) and isinstance(b, Ptr):
        return a.region is b.region and a.off == b.off
    return a is b


class StructRegion(object):
    def __init__(self, st):
        self.st = st
        self.name = "struct " + st.tname

    def size(self):
        return 1

    def load(self, i):
        return self.st

    def store(self, i, v):
        raise Unsupported("struct assignment through pointer")


class FieldRegion(object):
    def __init__(self, lv):
        self.lv = lv
        self.name = "&field " + lv.name

    def size(self):
        return 1

    def load(self, i):
        return self.lv.get()

    def store(self, i, v):
        self.lv.set(v)


# ----------------------------------------------------------------------------
# intrinsics: the environment of the C code (listed in evidence)

def _py(v):
    """value crossing C -> Python"""
    if isinstance(v, _NonePtr):
        return None
    if isinstance(v, TupleObj):
        return tuple(_py(x) for x in v.items)
    return v


class TupleObj(object):
    def __init__(self, n):
        self.items = [None] * n


def i_PyArg_ParseTuple(I, args, fmt, *outs):
    fmt = fmt.split(":")[0].split(";")[0].replace("|", "")
    if len(fmt) != len(outs) or len(args) != len(fmt):
        raise TypeError("function takes exactly %d arguments (%d given)" % (len(fmt), len(args)))
    for ch, a, o in zip(fmt, args, outs):
        if ch == "O":
            v = NONE_PTR if a is None else a
        elif ch == "d":
            if isinstance(a, symnp.SArr):
                if a.size != 1:
                    raise TypeError("only length-1 arrays can be converted to Python scalars")
                a = a.a.ravel()[0]
            if isinstance(a, (str, bytes)) or a is None:
                raise TypeError("must be real number, not %s" % type(a).__name__)
            v = symx.to_real(a) if is_sym(a) else float(a)
        elif ch in "ilLnk":
            if isinstance(a, (SReal, float)):
                raise TypeError("'float' object cannot be interpreted as an integer")
            if isinstance(a, symnp.SArr):
                a = a.__index__()
            v = as_num(a)
            if not is_sym(v):
                v = int(v)
        elif ch in "sy":
            v = a
        else:
            raise Unsupported("PyArg_ParseTuple format %r" % ch)
        o.region.store(o.off, v)
    return 1


def _arr(o):
    if not isinstance(o, symnp.SArr):
        raise CError("numpy C-API accessor applied to a non-array object (%s)" % type(o).__name__)
    return o


def i_PyArray_DATA(I, o):
    a = _arr(o)
    if not a.a.flags.c_contiguous:
        I.noncontig = getattr(I, "noncontig", 0) + 1
        raise CError("PyArray_DATA on a non-contiguous array: the C loop would read the wrong memory")
    return Ptr(NpRegion(a, I), 0)


def i_PyArray_SIZE(I, o):
    return _arr(o).a.size


def i_PyArray_GETPTR1(I, o, i):
    a = _arr(o)
    if a.a.ndim != 1:
        raise CError("PyArray_GETPTR1 on a %d-d array" % a.a.ndim)
    return Ptr(NpRegion(a, I), as_num(i))


def i_PyArray_ZEROS(I, nd, dims, typ, fortran):
    shape = [dims.region.load(dims.off + k) for k in range(nd)]
    shape = [int(s) for s in shape]
    names = {v: k for k, v in I.enums.items()}
    tname = names.get(typ, "NPY_FLOAT64")
    dt = {"NPY_FLOAT64": "f8", "NPY_DOUBLE": "f8", "NPY_INT64": "i8", "NPY_FLOAT32": "f4",
          "NPY_INTP": "i8", "NPY_INT32": "i4"}.get(tname)
    if dt is None:
        raise Unsupported("PyArray_ZEROS of type %s" % tname)
    for s in shape:
        if s < 0:
            raise ValueError("negative dimensions are not allowed")
    return symnp.zeros(tuple(shape), dtype=dt)


def i_PyTuple_New(I, n):
    return TupleObj(n)


def i_PyTuple_SetItem(I, t, i, v):
    t.items[i] = v
    return 0


def _libm(name, f):
    npf = getattr(symnp, name, None)

    def g(I, *a):
        a = [as_num(x) for x in a]
        if any(is_sym(x) for x in a) or symnp._TRIG.get("__all__"):
            if npf is None:
                raise Unsupported("libm %s on symbolic values" % name)
            return npf(*a)
        try:
            return f(*[float(x) for x in a])
        except (ValueError, OverflowError):
            return math.nan
    return g


def i_calloc(I, n, size):
    return AllocToken(n, size)


def i_malloc(I, size):
    return AllocToken(1, size)


DEFAULT_INTRINSICS = {
    "PyArg_ParseTuple": i_PyArg_ParseTuple,
    "PyArray_DATA": i_PyArray_DATA,
    "PyArray_SIZE": i_PyArray_SIZE,
    "PyArray_Size": i_PyArray_SIZE,
    "PyArray_GETPTR1": i_PyArray_GETPTR1,
    "PyArray_ZEROS": i_PyArray_ZEROS,
    "PyTuple_New": i_PyTuple_New,
    "PyTuple_SetItem": i_PyTuple_SetItem,
    "PyFloat_FromDouble": lambda I, x: x,
    "PyLong_FromLong": lambda I, x: x,
    "PyLong_FromLongLong": lambda I, x: x,
    "PyInt_FromLong": lambda I, x: x,
    "Py_INCREF": lambda I, x: None,
    "Py_DECREF": lambda I, x: None,
    "Py_XDECREF": lambda I, x: None,
    "Py_XINCREF": lambda I, x: None,
    "free": lambda I, x: None,
    "printf": lambda I, *a: 0,
    "calloc": i_calloc,
    "malloc": i_malloc,
    "sqrt": _libm("sqrt", math.sqrt),
    "fabs": _libm("abs", math.fabs),
    "sin": _libm("sin", math.sin),
    "cos": _libm("cos", math.cos),
    "tan": _libm("tan", math.tan),
    "sinh": _libm("sinh", math.sinh),
    "asin": _libm("arcsin", math.asin),
    "acos": _libm("arccos", math.acos),
    "atan": _libm("arctan", math.atan),
    "atan2": _libm("arctan2", math.atan2),
    "log10": _libm("log10", math.log10),
    "log": _libm("log", math.log),
    "exp": _libm("exp", math.exp),
    "floor": lambda I, x: symnp.floor(x),
}


def py_result(v):
    return _py(v)
