"""symrec -- structured ("record") arrays over symbolic cells, companion of symnp.

An SRec has a *real* numpy structured dtype (field names, types, sub-array shapes,
byte orders, offsets are concrete per path: solver-chosen attributes are forked by the
harness) and one object ndarray per field holding the cells, of shape
`arr.shape + field_subshape`.  Field access returns an SArr over the same buffer, so
writes through `arr[name][i] = v` land in the record array as they do in NumPy.  Row
indexing follows NumPy: basic slices are views, fancy/boolean indexing copies.

Cells hold the raw content as read in native byte order (see symnp.SArr.la): for a
field declared in the other order the logical value is bswap(cell).
"""
import builtins
import numpy as rnp

from . import symx, symnp
from .symx import Unsupported, Sym
from .symnp import SArr, _to_index, _map, cast_cell, _py_scalar


def _zero_cell(dt):
    k = dt.kind
    if k == "S":
        return b""
    if k == "U":
        return ""
    if k == "b":
        return False
    if k == "f":
        return 0.0
    if k in "iu":
        return 0
    if k == "c":
        return 0j
    if k == "V":
        return b""
    raise Unsupported("zero of dtype %s" % dt)


def _norm_dtype(d):
    d = symnp.dtype(d)
    return d


def field_base(dt, name):
    fd = dt.fields[name][0]
    return fd.base, fd.shape


class SRec(object):
    __array_priority__ = 3000.0
    __hash__ = None

    def __init__(self, dt, shape, cols, base=None):
        self.dt = dt
        self._shape = tuple(shape)
        self.cols = cols            # name -> object ndarray
        self._base = base

    # ------------------------------------------------------------ construction
    @classmethod
    def zeros(cls, shape, dt):
        shape = symnp._shape(shape)
        for s in shape:
            if s < 0:
                raise ValueError("negative dimensions are not allowed")
            if s > 4096:
                raise Unsupported("record array of %d rows requested" % s)
        cols = {}
        for name in dt.names:
            b, sub = field_base(dt, name)
            if b.names is not None:
                raise Unsupported("nested structured field")
            a = rnp.empty(shape + tuple(sub), dtype=object)
            if a.size:
                a.reshape(-1)[:] = [_zero_cell(b)] * a.size
            cols[name] = a
        return cls(dt, shape, cols)

    @classmethod
    def from_columns(cls, dt, shape, data):
        """data: name -> nested list / object ndarray of *logical* cells"""
        r = cls.zeros(shape, dt)
        for name in dt.names:
            r[name] = data[name] if not isinstance(data[name], rnp.ndarray) else SArr(data[name], field_base(dt, name)[0].newbyteorder("="))
        return r

    # ------------------------------------------------------------ attributes
    @property
    def dtype(self):
        return self.dt

    @dtype.setter
    def dtype(self, d):
        d = symnp.dtype(d)
        if d.names is None or len(d.names) != len(self.dt.names) or d.itemsize != self.dt.itemsize:
            raise Unsupported("dtype assignment %s -> %s on a record array" % (self.dt, d))
        newcols = {}
        for n_old, n_new in zip(self.dt.names, d.names):
            bo, so = field_base(self.dt, n_old)
            bn, sn = field_base(d, n_new)
            if bo.kind != bn.kind or bo.itemsize != bn.itemsize or so != sn or \
                    self.dt.fields[n_old][1] != d.fields[n_new][1]:
                raise Unsupported("dtype assignment changing the layout of a record array")
            newcols[n_new] = self.cols[n_old]
        self.cols = newcols
        self.dt = d

    @property
    def shape(self):
        return self._shape

    @shape.setter
    def shape(self, s):
        raise Unsupported("shape assignment on a record array")

    @property
    def size(self):
        n = 1
        for s in self._shape:
            n *= s
        return n

    @property
    def ndim(self):
        return len(self._shape)

    @property
    def itemsize(self):
        return self.dt.itemsize

    @property
    def base(self):
        return self._base

    def _owner(self):
        """NumPy collapses chains of views: the base of a view of a view is the array that owns the memory"""
        return self._base if self._base is not None else self

    @property
    def flags(self):
        return next(iter(self.cols.values())).flags

    def __len__(self):
        if not self._shape:
            raise TypeError("len() of unsized object")
        return self._shape[0]

    def __repr__(self):
        return "SRec(%s, shape=%s)" % (self.dt, self._shape)

    def __iter__(self):
        if not self._shape:
            raise TypeError("iteration over a 0-d array")
        for i in range(self._shape[0]):
            yield self[i]

    def freeze(self, label=None):
        for a in self.cols.values():
            a.flags.writeable = False
        self.label = label
        return self

    # ------------------------------------------------------------ indexing
    def _field(self, name):
        if name not in self.cols:
            raise ValueError("no field of name %s" % name)
        b, _ = field_base(self.dt, name)
        r = SArr(self.cols[name], b)
        if getattr(self, "label", None):
            r.label = "%s[%r]" % (self.label, name)
        return r

    def __getitem__(self, idx):
        if isinstance(idx, (str, rnp.str_)) or getattr(idx, "is_abstract_str", False):
            return self._field(str(idx))
        if isinstance(idx, list) and idx and builtins.all(isinstance(i, (str, rnp.str_)) for i in idx):
            names = [str(i) for i in idx]
            for n in names:
                if n not in self.cols:
                    raise KeyError("Field named %r not found." % n)
            if len(set(names)) != len(names):
                raise ValueError("duplicate field of name")
            sub = rnp.dtype({"names": names,
                             "formats": [self.dt.fields[n][0] for n in names],
                             "offsets": [self.dt.fields[n][1] for n in names],
                             "itemsize": self.dt.itemsize})
            return SRec(sub, self._shape, {n: self.cols[n] for n in names}, base=self._owner())
        nd = len(self._shape)
        i = _to_index(idx, self._shape)
        probe = rnp.empty(self._shape, dtype=rnp.int8)[i]     # numpy decides shape / errors
        newcols = {n: _rows(a, i) for n, a in self.cols.items()}
        shape = probe.shape if isinstance(probe, rnp.ndarray) else ()
        return SRec(self.dt, shape, newcols, base=None if _is_fancy(i) else self._owner())

    def __setitem__(self, idx, val):
        if isinstance(idx, (str, rnp.str_)):
            f = self._field(str(idx))
            f[...] = val
            return
        if isinstance(idx, list) and idx and builtins.all(isinstance(i, (str, rnp.str_)) for i in idx):
            raise Unsupported("multi-field assignment")
        i = _to_index(idx, self._shape)
        ii = i if isinstance(i, tuple) else (i,)
        if builtins.any(x is None for x in ii) or (Ellipsis in ii and len(ii) > 1):
            raise Unsupported("newaxis/ellipsis in record assignment")
        if isinstance(val, SRec):
            if len(val.dt.names) != len(self.dt.names):
                raise ValueError("could not broadcast / mismatched number of fields")
            for (n, a), (m, b) in zip(self.cols.items(), val.cols.items()):
                SArr(a, field_base(self.dt, n)[0])[i] = SArr(b, field_base(val.dt, m)[0])
            return
        if isinstance(val, tuple) and len(val) == len(self.dt.names):
            for (n, a), v in zip(self.cols.items(), val):
                SArr(a, field_base(self.dt, n)[0])[i] = v
            return
        raise Unsupported("record assignment from %s" % type(val).__name__)

    # ------------------------------------------------------------ methods
    def copy(self, order="C"):
        return SRec(self.dt, self._shape, {n: a.copy() for n, a in self.cols.items()})

    def view(self, *args, **kw):
        t = args[0] if args else kw.get("type", kw.get("dtype"))
        if t is None or t is SArr or t is symnp.ndarray or t is SRec or t is rnp.ndarray or t is rnp.recarray:
            return SRec(self.dt, self._shape, {n: a.view() for n, a in self.cols.items()}, base=self._owner())
        d = symnp.dtype(t)
        r = SRec(self.dt, self._shape, {n: a.view() for n, a in self.cols.items()}, base=self._owner())
        r.dtype = d
        return r

    def byteswap(self, inplace=False):
        if inplace:
            for n in self.dt.names:
                self._field(n).byteswap(True)
            return self
        return SRec(self.dt, self._shape, {n: self._field(n).byteswap(False).a for n in self.dt.names})

    def newbyteorder(self, *a):
        raise AttributeError("`newbyteorder` was removed from the ndarray class in NumPy 2.0. "
                             "Use `arr.view(arr.dtype.newbyteorder(order))` instead.")

    def ravel(self, order="C"):
        return self.reshape(-1)

    def flatten(self, order="C"):
        return self.copy().reshape(-1)

    def reshape(self, *shape, **kw):
        if len(shape) == 1 and isinstance(shape[0], (tuple, list)):
            shape = tuple(shape[0])
        shape = tuple(int(s) for s in shape)
        probe = rnp.empty(self._shape, dtype=rnp.int8).reshape(shape)
        nd = len(self._shape)
        cols = {n: a.reshape(probe.shape + a.shape[nd:]) for n, a in self.cols.items()}
        return SRec(self.dt, probe.shape, cols, base=self._owner())

    def squeeze(self, axis=None):
        probe = rnp.empty(self._shape, dtype=rnp.int8).squeeze(axis)
        return self.reshape(probe.shape)

    def astype(self, dt, copy=True, **kw):
        d = symnp.dtype(dt)
        if d == self.dt and not copy:
            return self
        if d.names is None:
            raise Unsupported("astype(record -> plain)")
        if len(d.names) != len(self.dt.names):
            raise TypeError("Cannot cast array data between structured types with a different number of fields")
        out = SRec.zeros(self._shape, d)
        for n_old, n_new in zip(self.dt.names, d.names):
            out[n_new] = self[n_old]
        return out

    def fill(self, v):
        raise Unsupported("fill on a record array")

    def tolist(self):
        raise Unsupported("tolist on a record array")

    def item(self, *a):
        raise Unsupported("item on a record array")

    def __eq__(self, o):
        raise Unsupported("comparison of record arrays")

    __ne__ = __eq__

    # logical (byte-order independent) content, for oracles
    def logical(self, name):
        return self._field(name).la


def _is_fancy(i):
    ii = i if isinstance(i, tuple) else (i,)
    for x in ii:
        if isinstance(x, (list, rnp.ndarray)):
            return True
    return False


def _rows(a, i):
    """index the leading (row) axes of a column buffer; basic indices give views,
    including for a single record (NumPy's void scalars alias the array)"""
    ii = i if isinstance(i, tuple) else (i,)
    if builtins.any(x is None for x in ii):
        if builtins.all(x is None for x in ii):
            return a.reshape((1,) * len(ii) + a.shape)      # arr[None]: a new leading axis (view)
        raise Unsupported("newaxis mixed with other indices in record indexing")
    if builtins.any(x is Ellipsis for x in ii):
        if len(ii) == 1:
            return a[...]
        raise Unsupported("ellipsis in record indexing")
    if _is_fancy(i):
        r = a[i]
    else:
        new, sq = [], []
        for p, x in enumerate(ii):
            if isinstance(x, (int, rnp.integer)) and not isinstance(x, bool):
                n = a.shape[p]
                k = x + n if x < 0 else x
                if not 0 <= k < n:
                    raise IndexError("index %d is out of bounds for axis %d with size %d" % (x, p, n))
                new.append(slice(k, k + 1))
                sq.append(p)
            else:
                new.append(x)
        r = a[tuple(new)]
        if sq:
            r = r.squeeze(axis=tuple(sq))
    if not isinstance(r, rnp.ndarray) or r.dtype != object:
        t = rnp.empty((), dtype=object)
        t[()] = r
        r = t
    return r


def from_real(arr, symbolic=None):
    """SRec / SArr with the (logical) content of a real numpy array (conformance passes)"""
    if arr.dtype.names is None:
        return symnp.array(arr.tolist(), dtype=arr.dtype) if arr.dtype.isnative else _plain_from_real(arr)
    r = SRec.zeros(arr.shape, arr.dtype)
    for n in arr.dtype.names:
        col = arr[n]
        nat = rnp.array(col.tolist(), dtype=object) if col.ndim else None
        a = rnp.empty(col.shape, dtype=object)
        if a.size:
            flat = col.astype(col.dtype.newbyteorder("=")).ravel().tolist()
            a.reshape(-1)[:] = flat
        elif a.ndim == 0:
            a[()] = col.item()
        SArr(r.cols[n], field_base(arr.dtype, n)[0])[...] = SArr(a, col.dtype.base.newbyteorder("="))
    return r


def _plain_from_real(arr):
    nat = arr.astype(arr.dtype.newbyteorder("="))
    out = symnp.array(nat.tolist(), dtype=nat.dtype)
    r = SArr(_map(symx.bswap, out.a) if arr.dtype.itemsize > 1 and arr.dtype.kind not in "SUOV" else out.a, arr.dtype)
    return r
