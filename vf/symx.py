"""symx -- forking symbolic executor for Python sources (engine E1).

Values SInt / SReal / SBool wrap z3 terms.  bool(SBool) asks the path controller,
which explores all feasible decision sequences by re-execution (DFS over decision
prefixes).  Property queries are discharged by a fresh z3 solver per query over the
path condition (pc) restricted to the goal's cone of influence.

Nothing in here knows about esutil.
"""
import time
import os
import sys
import fractions
import math
import z3

# ----------------------------------------------------------------------------
# control-flow exceptions (BaseException: harness code catches only Exception)


_TRACE = bool(os.environ.get('VF_TRACE'))


class PathAbort(BaseException):
    """path is infeasible or was cut by an assumption"""


class Unsupported(BaseException):
    """the shim or the engine cannot model something: INCONCLUSIVE, never an alarm"""


class Budget(BaseException):
    """path / time budget of a configuration exhausted: INCONCLUSIVE"""


class FrozenWrite(BaseException):
    """a store into a buffer the harness froze (write monitor, C15)"""


class Swapped(object):
    """bswap(x): the value read from the bytes of multi-byte x in the opposite byte
    order.  An uninterpreted involution: Swapped(Swapped(x)) is x (see bswap()); no
    arithmetic is defined on it (garbage), equality is structural on the payload."""
    __slots__ = ("x",)

    def __init__(self, x):
        self.x = x

    def __repr__(self):
        return "bswap(%r)" % (self.x,)

    def __eq__(self, o):
        if isinstance(o, Swapped):
            return self.x == o.x
        return False

    def __ne__(self, o):
        r = self.__eq__(o)
        if isinstance(r, SBool):
            return ~r
        return not r

    def __hash__(self):
        return hash(("bswap", self.x))

    def _no(self, *a):
        raise Unsupported("arithmetic/comparison on a byte-swapped (garbage) value")

    __add__ = __radd__ = __sub__ = __rsub__ = __mul__ = __rmul__ = __truediv__ = __rtruediv__ = _no
    __lt__ = __le__ = __gt__ = __ge__ = __neg__ = __abs__ = __float__ = __int__ = __index__ = _no


def bswap(c):
    if isinstance(c, Swapped):
        return c.x
    if isinstance(c, (int, float)) and not isinstance(c, bool) and c == 0:
        return c            # all-zero bytes read the same in either order
    return Swapped(c)


# ----------------------------------------------------------------------------
# lifting

_NPINT = ()
_NPFLOAT = ()
_NPBOOL = ()
try:
    import numpy as _rnp
    _NPINT = (_rnp.integer,)
    _NPFLOAT = (_rnp.floating,)
    _NPBOOL = (_rnp.bool_,)
except Exception:  # pragma: no cover
    _rnp = None


def ratval(x):
    """exact z3 Real numeral for a Python number.  floats are taken at their
    shortest decimal repr (0.1 -> 1/10): the claim is algebraic, not about rounding"""
    if isinstance(x, bool):
        return z3.RealVal(int(x))
    if isinstance(x, int):
        return z3.RealVal(x)
    if isinstance(x, fractions.Fraction):
        return z3.RealVal(x)
    if isinstance(x, _NPINT):
        return z3.RealVal(int(x))
    if isinstance(x, (float,) + _NPFLOAT):
        x = float(x)
        if math.isnan(x) or math.isinf(x):
            raise Unsupported("non-finite float constant %r in a real-valued term" % x)
        return z3.RealVal(repr(x))
    raise Unsupported("cannot lift %r to Real" % (type(x),))


def is_sym(x):
    return isinstance(x, Sym)


def is_concrete_number(x):
    return isinstance(x, (int, float, fractions.Fraction) + _NPINT + _NPFLOAT + _NPBOOL)


def term_of(x):
    """z3 term for a Python value or Sym (natural sort)"""
    if isinstance(x, Sym):
        return x.t
    if isinstance(x, (bool,) + _NPBOOL):
        return z3.BoolVal(bool(x))
    if isinstance(x, (int,) + _NPINT):
        return z3.IntVal(int(x))
    if isinstance(x, (float, fractions.Fraction) + _NPFLOAT):
        return ratval(x)
    if z3.is_expr(x):
        return x
    raise Unsupported("cannot lift %r" % (type(x),))


def real_term(x):
    t = term_of(x)
    if z3.is_bool(t):
        return z3.If(t, z3.RealVal(1), z3.RealVal(0))
    if z3.is_int(t):
        if z3.is_int_value(t):
            return z3.RealVal(t.as_long())
        return z3.ToReal(t)
    return t


def int_term(x):
    t = term_of(x)
    if z3.is_bool(t):
        return z3.If(t, z3.IntVal(1), z3.IntVal(0))
    if z3.is_int(t):
        return t
    raise Unsupported("real used where an int term is needed")


def bool_term(x):
    t = term_of(x)
    if z3.is_bool(t):
        return t
    if z3.is_int(t):
        return t != 0
    return t != 0


def wrap(t):
    """Sym (or Python int/bool for numerals) for a z3 term"""
    if z3.is_bool(t):
        if z3.is_true(t):
            return True
        if z3.is_false(t):
            return False
        return SBool(t)
    if z3.is_int(t):
        if z3.is_int_value(t):
            return t.as_long()
        return SInt(t)
    if z3.is_real(t):
        return SReal(t)
    if z3.is_fp(t):
        return SFP(t)
    raise Unsupported("unexpected sort %s" % t.sort())


_LIN_CACHE = {}


def _is_linear(t):
    """quantifier-free linear real/integer arithmetic over uninterpreted constants (no products of variables,
    no division by a variable, no to_int, no floating point)"""
    k = t.get_id()
    hit = _LIN_CACHE.get(k)
    if hit is not None and hit[0].eq(t):
        return hit[1]
    ok = True
    stack = [t]
    seen = set()
    while stack and ok:
        e = stack.pop()
        i = e.get_id()
        if i in seen:
            continue
        seen.add(i)
        if len(seen) > 400:
            ok = False
            break
        if not z3.is_app(e):
            ok = False
            break
        kind = e.decl().kind()
        ch = e.children()
        if kind == z3.Z3_OP_MUL:
            if sum(0 if z3.is_rational_value(c) or z3.is_int_value(c) else 1 for c in ch) > 1:
                ok = False
        elif kind in (z3.Z3_OP_DIV, z3.Z3_OP_IDIV, z3.Z3_OP_MOD, z3.Z3_OP_REM):
            if not (z3.is_rational_value(ch[1]) or z3.is_int_value(ch[1])):
                ok = False
        elif kind in (z3.Z3_OP_POWER, z3.Z3_OP_TO_INT, z3.Z3_OP_IS_INT):
            ok = False
        elif kind == z3.Z3_OP_UNINTERPRETED and ch:
            ok = False
        elif z3.is_fp(e) or z3.is_bv(e):
            ok = False
        stack.extend(ch)
    if len(_LIN_CACHE) > 20000:
        _LIN_CACHE.clear()
    _LIN_CACHE[k] = (t, ok)
    return ok


def _isreal(x):
    if isinstance(x, SReal):
        return True
    if isinstance(x, (float, fractions.Fraction) + _NPFLOAT):
        return True
    return False


# ----------------------------------------------------------------------------
# values


class Sym(object):
    __slots__ = ("t",)
    __array_priority__ = 1000.0

    def __init__(self, t):
        self.t = t

    def __hash__(self):
        return hash(self.t)

    def __repr__(self):
        s = str(self.t)
        if len(s) > 60:
            s = s[:57] + "..."
        return "<%s %s>" % (type(self).__name__, s.replace("\n", " "))

    __str__ = __repr__

    def __format__(self, spec):
        return "<sym>"

    # numpy asks for these on 0-d conversions; never allow silent concretisation
    def __array__(self, *a, **k):
        raise Unsupported("numpy tried to convert a symbolic value to an array")


def _arith(a, b, fi, fr, force_real=False):
    """binary arithmetic with int/real promotion"""
    if force_real or _isreal(a) or _isreal(b):
        return SReal(fr(real_term(a), real_term(b)))
    ta, tb = term_of(a), term_of(b)
    if z3.is_bool(ta):
        ta = int_term(a)
    if z3.is_bool(tb):
        tb = int_term(b)
    return wrap(fi(ta, tb))


def _supported_operand(x):
    return isinstance(x, Sym) or is_concrete_number(x) or isinstance(x, bool)


def floor_real(t):
    return z3.ToReal(z3.ToInt(t))


def trunc_int(t):
    """C-style truncation of a real term to an int term"""
    t = z3.simplify(t)
    if z3.is_rational_value(t):
        f = fractions.Fraction(t.numerator_as_long(), t.denominator_as_long())
        return z3.IntVal(int(f))
    return z3.If(t >= 0, z3.ToInt(t), -z3.ToInt(-t))


def py_floordiv_int(a, b):
    # z3 Int div is Euclidean: floor for b > 0
    if z3.is_int_value(b):
        if b.as_long() > 0:
            return a / b
        if b.as_long() < 0:
            return (-a) / (-b)
    return z3.If(b > 0, a / b, (-a) / (-b))


class _Num(Sym):
    __slots__ = ()

    def _bin(self, other, fi, fr, swap=False, force_real=False):
        if not _supported_operand(other):
            return NotImplemented
        a, b = (other, self) if swap else (self, other)
        return _arith(a, b, fi, fr, force_real)

    def __add__(self, o):
        return self._bin(o, lambda a, b: a + b, lambda a, b: a + b)

    def __radd__(self, o):
        return self._bin(o, lambda a, b: a + b, lambda a, b: a + b, swap=True)

    def __sub__(self, o):
        return self._bin(o, lambda a, b: a - b, lambda a, b: a - b)

    def __rsub__(self, o):
        return self._bin(o, lambda a, b: a - b, lambda a, b: a - b, swap=True)

    def __mul__(self, o):
        return self._bin(o, lambda a, b: a * b, lambda a, b: a * b)

    def __rmul__(self, o):
        return self._bin(o, lambda a, b: a * b, lambda a, b: a * b, swap=True)

    def _div(self, a, b):
        cx = Ctx.current
        tb = real_term(b)
        if cx is not None:
            cx.obligation(tb != 0, "division by zero")
        return SReal(real_term(a) / tb)

    def __truediv__(self, o):
        if not _supported_operand(o):
            return NotImplemented
        return self._div(self, o)

    def __rtruediv__(self, o):
        if not _supported_operand(o):
            return NotImplemented
        return self._div(o, self)

    def _floordiv(self, a, b):
        cx = Ctx.current
        if _isreal(a) or _isreal(b):
            tb = real_term(b)
            if cx is not None:
                cx.obligation(tb != 0, "float floor division by zero")
            return SReal(floor_real(real_term(a) / tb))
        ta, tb = int_term(a), int_term(b)
        if cx is not None:
            cx.obligation(tb != 0, "integer division by zero")
        return wrap(py_floordiv_int(ta, tb))

    def __floordiv__(self, o):
        if not _supported_operand(o):
            return NotImplemented
        return self._floordiv(self, o)

    def __rfloordiv__(self, o):
        if not _supported_operand(o):
            return NotImplemented
        return self._floordiv(o, self)

    def _mod(self, a, b):
        q = self._floordiv(a, b)
        return a - b * q

    def __mod__(self, o):
        if not _supported_operand(o):
            return NotImplemented
        return self._mod(self, o)

    def __rmod__(self, o):
        if not _supported_operand(o):
            return NotImplemented
        return self._mod(o, self)

    def __divmod__(self, o):
        return (self._floordiv(self, o), self._mod(self, o))

    def __rdivmod__(self, o):
        return (self._floordiv(o, self), self._mod(o, self))

    def __pow__(self, o):
        if isinstance(o, (int,) + _NPINT) and not isinstance(o, bool):
            o = int(o)
            if o == 0:
                if isinstance(self, SFP):
                    return 1.0
                return 1 if isinstance(self, SInt) else SReal(z3.RealVal(1))
            if o > 0:
                r = self
                for _ in range(o - 1):
                    r = r * self
                return r
            return 1.0 / (self ** (-o))
        if isinstance(o, float) and o == 0.5:
            return sym_sqrt(self)
        if isinstance(o, float) and float(o).is_integer():
            return (self * 1.0) ** int(o)
        raise Unsupported("symbolic power with exponent %r" % (o,))

    def __rpow__(self, o):
        raise Unsupported("symbolic exponent")

    def __neg__(self):
        return wrap(-self.t)

    def __pos__(self):
        return self

    def __abs__(self):
        return wrap(z3.If(self.t >= 0, self.t, -self.t))

    def _cmp(self, o, f):
        if not _supported_operand(o):
            return NotImplemented
        if _isreal(self) or _isreal(o):
            return wrap(f(real_term(self), real_term(o)))
        return wrap(f(int_term(self), int_term(o)))

    def __lt__(self, o):
        return self._cmp(o, lambda a, b: a < b)

    def __le__(self, o):
        return self._cmp(o, lambda a, b: a <= b)

    def __gt__(self, o):
        return self._cmp(o, lambda a, b: a > b)

    def __ge__(self, o):
        return self._cmp(o, lambda a, b: a >= b)

    def __eq__(self, o):
        if o is None:
            return False
        r = self._cmp(o, lambda a, b: a == b)
        if r is NotImplemented:
            return False
        return r

    def __ne__(self, o):
        if o is None:
            return True
        r = self._cmp(o, lambda a, b: a != b)
        if r is NotImplemented:
            return True
        return r

    __hash__ = Sym.__hash__

    def __bool__(self):
        return bool(self != 0)


def _num_clip(self, min=None, max=None, out=None, **kw):
    a_min = kw.get("a_min", min)
    a_max = kw.get("a_max", max)
    r = self
    if a_min is not None:
        r = sym_ite(r < a_min, a_min, r)
    if a_max is not None:
        r = sym_ite(r > a_max, a_max, r)
    return r


# NumPy-scalar flavoured surface (results of full reductions are scalars there)
_Num.clip = _num_clip
_Num.shape = ()
_Num.ndim = 0
_Num.size = 1
_Num.sum = lambda self, *a, **k: self
_Num.mean = lambda self, *a, **k: self
_Num.min = lambda self, *a, **k: self
_Num.max = lambda self, *a, **k: self
_Num.copy = lambda self: self
_Num.squeeze = lambda self, *a: self


class SInt(_Num):
    __slots__ = ()

    def __index__(self):
        return Ctx.current.concretize(self.t)

    __int__ = __index__

    def __float__(self):
        raise Unsupported("float() of a symbolic int reached a C boundary")

    def __round__(self, n=None):
        return self

    def __and__(self, o):
        raise Unsupported("bitwise and on symbolic int")

    # numpy-scalar flavoured attributes
    def item(self):
        return self


class SReal(_Num):
    __slots__ = ()

    def __float__(self):
        raise Unsupported("float() of a symbolic real reached a C boundary")

    def __int__(self):
        raise Unsupported("int() of a symbolic real reached a C boundary")

    def __index__(self):
        raise TypeError("'float' object cannot be interpreted as an integer")

    def __trunc__(self):
        return wrap(trunc_int(self.t))

    def __floor__(self):
        return wrap(z3.ToInt(self.t))

    def __ceil__(self):
        return wrap(-z3.ToInt(-self.t))

    def item(self):
        return self


_F64 = z3.Float64()
_RNE = z3.RNE()


def fp_term(x, sort=None):
    """IEEE term (of the given FloatingPoint sort, default double) of an SFP or of a Python / NumPy number"""
    if isinstance(x, SFP):
        return x.t
    if isinstance(x, (bool,) + _NPBOOL):
        x = int(x)
    if isinstance(x, (int, float) + _NPFLOAT + _NPINT):
        return z3.FPVal(float(x), sort if sort is not None else _F64)
    raise Unsupported("no IEEE term for %s" % type(x).__name__)


class SFP(SReal):
    """IEEE-754 double (z3 FloatingPoint sort, round to nearest even): used for small kernels whose
    property is a statement about floating-point results (everything else runs over the reals).
    Subclass of SReal so that the NumPy shim stores it in float64 arrays."""
    __slots__ = ()

    def _op(self, o, f, swap=False):
        try:
            b = fp_term(o, self.t.sort())
        except Unsupported:
            return NotImplemented
        a = self.t
        return SFP(z3.simplify(f(b, a) if swap else f(a, b)))

    def __add__(self, o):
        return self._op(o, lambda a, b: z3.fpAdd(_RNE, a, b))

    def __radd__(self, o):
        return self._op(o, lambda a, b: z3.fpAdd(_RNE, a, b), True)

    def __sub__(self, o):
        return self._op(o, lambda a, b: z3.fpSub(_RNE, a, b))

    def __rsub__(self, o):
        return self._op(o, lambda a, b: z3.fpSub(_RNE, a, b), True)

    def __mul__(self, o):
        return self._op(o, lambda a, b: z3.fpMul(_RNE, a, b))

    def __rmul__(self, o):
        return self._op(o, lambda a, b: z3.fpMul(_RNE, a, b), True)

    def __truediv__(self, o):
        return self._op(o, lambda a, b: z3.fpDiv(_RNE, a, b))

    def __rtruediv__(self, o):
        return self._op(o, lambda a, b: z3.fpDiv(_RNE, a, b), True)

    def __neg__(self):
        return SFP(z3.fpNeg(self.t))

    def __pos__(self):
        return self

    def __abs__(self):
        return SFP(z3.fpAbs(self.t))

    def _cmp(self, o, f):
        try:
            b = fp_term(o, self.t.sort())
        except Unsupported:
            return NotImplemented
        return wrap(z3.simplify(f(self.t, b)))

    def __lt__(self, o):
        return self._cmp(o, z3.fpLT)

    def __le__(self, o):
        return self._cmp(o, z3.fpLEQ)

    def __gt__(self, o):
        return self._cmp(o, z3.fpGT)

    def __ge__(self, o):
        return self._cmp(o, z3.fpGEQ)

    def __eq__(self, o):
        if o is None:
            return False
        return self._cmp(o, z3.fpEQ)

    def __ne__(self, o):
        if o is None:
            return True
        r = self._cmp(o, z3.fpEQ)
        return NotImplemented if r is NotImplemented else sym_not(r)

    __hash__ = None

    def __floor__(self):
        raise Unsupported("floor of an IEEE term")

    __ceil__ = __floor__

    def __trunc__(self):
        # C / NumPy conversion to a 64-bit integer: round toward zero (values outside the
        # integer range are the caller's business: undefined in C)
        return wrap(z3.BV2Int(z3.fpToSBV(z3.RTZ(), self.t, z3.BitVecSort(64)), is_signed=True))

    def __repr__(self):
        return "<SFP %s>" % str(self.t)[:80]


class SBool(Sym):
    __slots__ = ()

    def __bool__(self):
        return Ctx.current.branch(self.t)

    def __and__(self, o):
        if isinstance(o, (SBool, bool) + _NPBOOL):
            return wrap(z3.simplify(z3.And(self.t, bool_term(o))))
        return NotImplemented

    __rand__ = __and__

    def __or__(self, o):
        if isinstance(o, (SBool, bool) + _NPBOOL):
            return wrap(z3.simplify(z3.Or(self.t, bool_term(o))))
        return NotImplemented

    __ror__ = __or__

    def __xor__(self, o):
        if isinstance(o, (SBool, bool) + _NPBOOL):
            return wrap(z3.Xor(self.t, bool_term(o)))
        return NotImplemented

    __rxor__ = __xor__

    def __invert__(self):
        return wrap(z3.Not(self.t))

    def __eq__(self, o):
        if isinstance(o, (SBool, bool) + _NPBOOL):
            return wrap(self.t == bool_term(o))
        if _supported_operand(o):
            return wrap(int_term(self) == term_of(o)) if not _isreal(o) else wrap(real_term(self) == real_term(o))
        return False

    def __ne__(self, o):
        r = self.__eq__(o)
        if isinstance(r, SBool):
            return ~r
        return not r

    __hash__ = Sym.__hash__

    # arithmetic on booleans (mask.sum() etc.)
    def _asint(self):
        return SInt(int_term(self))

    def __add__(self, o):
        return self._asint() + o

    def __radd__(self, o):
        return o + self._asint()

    def __sub__(self, o):
        return self._asint() - o

    def __rsub__(self, o):
        return o - self._asint()

    def __mul__(self, o):
        return self._asint() * o

    def __rmul__(self, o):
        return o * self._asint()

    def __lt__(self, o):
        return self._asint() < o

    def __gt__(self, o):
        return self._asint() > o

    def __le__(self, o):
        return self._asint() <= o

    def __ge__(self, o):
        return self._asint() >= o

    def __index__(self):
        return int(bool(self))

    __int__ = __index__


# helpers usable by shims ------------------------------------------------------

def sym_and(*xs):
    ts = [bool_term(x) for x in xs]
    return wrap(z3.simplify(z3.And(*ts))) if ts else True


def sym_or(*xs):
    ts = [bool_term(x) for x in xs]
    return wrap(z3.simplify(z3.Or(*ts))) if ts else False


def sym_not(x):
    return wrap(z3.simplify(z3.Not(bool_term(x))))


def sym_implies(a, b):
    return wrap(z3.Implies(bool_term(a), bool_term(b)))


def sym_ite(c, a, b):
    if isinstance(c, (bool,) + _NPBOOL):
        return a if c else b
    if isinstance(a, SFP) or isinstance(b, SFP):
        sort = (a if isinstance(a, SFP) else b).t.sort()
        return SFP(z3.If(bool_term(c), fp_term(a, sort), fp_term(b, sort)))
    if _isreal(a) or _isreal(b):
        return wrap(z3.If(bool_term(c), real_term(a), real_term(b)))
    ta, tb = term_of(a), term_of(b)
    if z3.is_bool(ta) and z3.is_bool(tb):
        return wrap(z3.If(bool_term(c), ta, tb))
    return wrap(z3.If(bool_term(c), int_term(a), int_term(b)))


def sym_sum(xs):
    r = 0
    for x in xs:
        r = r + x
    return r


def to_real(x):
    """float(x) in the real model"""
    if isinstance(x, SReal):
        return x
    if isinstance(x, (SInt, SBool)):
        return SReal(real_term(x))
    return float(x)


def to_int_trunc(x):
    """np.int64(x) / int(x): truncation toward zero"""
    if isinstance(x, SInt):
        return x
    if isinstance(x, SBool):
        return x._asint()
    if isinstance(x, SFP):
        return x.__trunc__()
    if isinstance(x, SReal):
        return wrap(trunc_int(x.t))
    if isinstance(x, fractions.Fraction):
        return int(x)
    return int(x)


def sym_sqrt(x):
    """sqrt as a witness r >= 0, r*r == x (memoised per path); obligation x >= 0"""
    if isinstance(x, SFP):
        return SFP(z3.fpSqrt(_RNE, x.t))        # IEEE: correctly rounded, NaN for negative arguments
    if not is_sym(x):
        if isinstance(x, fractions.Fraction):
            x = float(x)
        return math.sqrt(x)
    cx = Ctx.current
    # sum-of-monomials normal form: equal polynomials written differently share one witness
    t = z3.simplify(real_term(x), som=True)
    if z3.is_rational_value(t):
        f = fractions.Fraction(t.numerator_as_long(), t.denominator_as_long())
        if f >= 0:
            n, d = math.isqrt(f.numerator), math.isqrt(f.denominator)
            if n * n == f.numerator and d * d == f.denominator:
                return SReal(z3.RealVal(fractions.Fraction(n, d)))
    key = ("sqrt", t.sexpr())
    r = cx.memo.get(key)
    if r is None and cx.rules:
        # radicands that are equal modulo the path's relations share one witness
        from . import poly
        nf = poly.normal_form_key(t, cx.rules)
        if nf is not None:
            key2 = ("sqrt-nf", nf)
            r = cx.memo.get(key2)
            if r is None:
                cx.memo["pending-sqrt-nf"] = key2
            else:
                cx.memo[key] = r
    if r is None:
        r = z3.Real("sqrt!%d" % cx.fresh_id())
        cx.memo[key] = r
        k2 = cx.memo.pop("pending-sqrt-nf", None)
        if k2 is not None:
            cx.memo[k2] = r
        cx.axiom(z3.And(r >= 0, r * r == t), about=r)
        cx.rules.append((r, 2, t))
        cx.obligation(t >= 0, "sqrt of a negative value")
        cx.witness_defs[r.decl().name()] = ("sqrt", t)
    return SReal(r)


# ----------------------------------------------------------------------------
# path controller


class Result(object):
    """one discharged query"""
    __slots__ = ("label", "verdict", "model", "time", "path", "detail")

    def __init__(self, label, verdict, model=None, t=0.0, path=None, detail=None):
        self.label = label
        self.verdict = verdict      # 'unsat' | 'sat' | 'unknown'
        self.model = model
        self.time = t
        self.path = path
        self.detail = detail


class Stats(object):
    def __init__(self):
        self.paths = 0
        self.paths_ok = 0
        self.paths_exc = 0
        self.paths_aborted = 0
        self.paths_confirmed_sat = 0
        self.queries = {"unsat": 0, "sat": 0, "unknown": 0}
        self.feas_queries = 0
        self.feas_unknown = 0
        self.solver_s = 0.0
        self.identity = 0

    def as_dict(self):
        return dict(paths=self.paths, paths_ok=self.paths_ok, paths_exc=self.paths_exc,
                    paths_aborted=self.paths_aborted,
                    paths_confirmed_sat=self.paths_confirmed_sat,
                    queries=dict(self.queries), feas_queries=self.feas_queries,
                    feas_unknown=self.feas_unknown, identity=self.identity,
                    solver_s=round(self.solver_s, 3))

    def merge(self, d):
        for k in ("paths", "paths_ok", "paths_exc", "paths_aborted", "paths_confirmed_sat",
                  "feas_queries", "feas_unknown", "identity"):
            setattr(self, k, getattr(self, k) + d[k])
        for k in self.queries:
            self.queries[k] += d["queries"][k]
        self.solver_s += d["solver_s"]


_VARS_CACHE = {}


def term_vars(t):
    """frozenset of uninterpreted constant names in a term (memoised by AST id; the
    cache keeps the term alive so ids are not reused)"""
    i = t.get_id()
    hit = _VARS_CACHE.get(i)
    if hit is not None:
        return hit[1]
    if len(_VARS_CACHE) > 200000:
        _VARS_CACHE.clear()
    r = frozenset(_term_vars(t))
    _VARS_CACHE[i] = (t, r)
    return r


def _term_vars(t):
    acc = set()
    seen = set()
    stack = [t]
    while stack:
        e = stack.pop()
        i = e.get_id()
        if i in seen:
            continue
        seen.add(i)
        if z3.is_const(e):
            if e.decl().kind() == z3.Z3_OP_UNINTERPRETED:
                acc.add(e.decl().name())
        else:
            stack.extend(e.children())
    return acc


def _dag_size(t, cap):
    seen = set()
    stack = [t]
    while stack and len(seen) < cap:
        e = stack.pop()
        i = e.get_id()
        if i in seen:
            continue
        seen.add(i)
        stack.extend(e.children())
    return len(seen)


class Ctx(object):
    """state of the exploration of one harness configuration"""
    current = None

    def __init__(self, feas_timeout_ms=3000, query_timeout_ms=30000, max_paths=20000,
                 deadline=None, prune=True):
        self.feas_timeout_ms = feas_timeout_ms
        self.query_timeout_ms = query_timeout_ms
        self.max_paths = max_paths
        self.deadline = deadline
        self.prune = prune
        self.stats = Stats()
        self.results = []       # Result objects that are not plain unsat
        self.samples = []
        self._id = 0
        self.inputs_decl = {}
        self.reset_path([])

    # -- per path ---------------------------------------------------------
    def reset_path(self, prefix):
        self.prefix = list(prefix)
        self.pos = 0
        self.pc = []            # z3 Bool terms (decisions + assumptions)
        self.axioms = []        # (term, varset) witness definitions
        self.obligs = []        # (term, what)
        self.memo = {}
        self.witness_defs = {}
        self.inputs = {}        # name -> term   (declared symbolic inputs)
        self.rules = []         # (z3 var, power, z3 term): var^power == term, for vf.poly
        self.notes = {}
        self.pending_new = []
        self.solver = z3.Solver()
        self.solver.set("timeout", self.feas_timeout_ms)
        self._id_path = 0
        self.pc_known_sat = True
        self.checks_on_path = 0
        self.hints = []         # lists of z3 constraints: concrete sample points tried when a feasibility query is unknown

    def hint(self, *constraints):
        """a concrete sample point (or partial one) of the input space: when a satisfiability question
        about the path condition comes back unknown it is asked again with these equalities added;
        sat under a hint is sat (the converse is never used)"""
        self.hints.append([c for c in constraints])

    def _feas_hinted(self, extra, timeout_ms=None):
        for hs in self.hints:
            try:
                s = z3.Solver()
                s.set("timeout", timeout_ms or self.feas_timeout_ms)
                for h in list(self.pc) + list(self.axioms) + ([extra] if extra is not None else []) + hs:
                    s.add(h)
                if str(s.check()) == "sat":
                    return "sat"
            except z3.Z3Exception:
                pass
        return "unknown"

    def fresh_id(self):
        self._id_path += 1
        return self._id_path

    # -- declaring inputs ---------------------------------------------------
    def int(self, name, lo=None, hi=None):
        v = z3.Int(name)
        self.inputs[name] = v
        if lo is not None:
            self._assume_t(v >= lo)
        if hi is not None:
            self._assume_t(v <= hi)
        return SInt(v)

    def real(self, name, lo=None, hi=None):
        v = z3.Real(name)
        self.inputs[name] = v
        if lo is not None:
            self._assume_t(v >= ratval(lo))
        if hi is not None:
            self._assume_t(v <= ratval(hi))
        return SReal(v)

    def fp(self, name, lo=None, hi=None, sort=None):
        """an IEEE input (double unless a narrower FloatingPoint sort is given; finite; optionally within [lo, hi])"""
        _F64 = sort if sort is not None else globals()["_F64"]
        v = z3.FP(name, _F64)
        self.inputs[name] = v
        self._assume_t(z3.Not(z3.Or(z3.fpIsNaN(v), z3.fpIsInf(v))))
        if lo is not None:
            self._assume_t(z3.fpGEQ(v, z3.FPVal(float(lo), _F64)))
        if hi is not None:
            self._assume_t(z3.fpLEQ(v, z3.FPVal(float(hi), _F64)))
        return SFP(v)

    def bool(self, name):
        v = z3.Bool(name)
        self.inputs[name] = v
        return SBool(v)

    def choice(self, name, n):
        """a decision variable in range(n), forked immediately (configuration knob)"""
        v = self.int(name, 0, n - 1)
        return self.concretize(v.t)

    def flag(self, name):
        return bool(self.bool(name))

    def nondet(self, what="nd"):
        """environment nondeterminism (e.g. tie order of an unstable sort): a fresh
        unconstrained Bool, forked on"""
        self._nd = getattr(self, "_nd", 0) + 1
        v = z3.Bool("nondet!%s!%d" % (what, self.fresh_id()))
        return self.branch(v)

    # -- path condition ---------------------------------------------------------
    def _assume_t(self, t):
        self.pc.append(t)
        self.solver.add(t)

    def assume(self, cond):
        """precondition; cuts the path when it is infeasible"""
        if isinstance(cond, (bool,) + _NPBOOL):
            if not cond:
                raise PathAbort("assumption false")
            return
        t = z3.simplify(bool_term(cond))
        if z3.is_true(t):
            return
        if z3.is_false(t):
            raise PathAbort("assumption false")
        self._assume_t(t)
        r = self._feas()
        if r == "unsat":
            raise PathAbort("assumption infeasible")
        if r == "unknown":
            self.pc_known_sat = False

    def axiom(self, t, about=None):
        self.axioms.append(t)
        self.solver.add(t)

    def obligation(self, t, what):
        t = z3.simplify(t)
        if z3.is_true(t):
            return
        self.obligs.append((t, what))

    def _linear_slice_unsat(self, extra):
        """sound pruning: if the linear literals of the path condition alone contradict the new literal, the
        branch is infeasible whatever the polynomial rest says (which the solver may not decide)"""
        if extra is None or not _is_linear(extra):
            return False
        s = z3.Solver()
        s.set("timeout", 500)
        n = 0
        for h in list(self.pc) + list(self.axioms):
            if z3.is_and(h):
                for c in h.children():
                    if _is_linear(c):
                        s.add(c)
                        n += 1
            elif _is_linear(h):
                s.add(h)
                n += 1
        if not n:
            return False
        s.add(extra)
        try:
            return str(s.check()) == "unsat"
        except z3.Z3Exception:
            return False

    def _feas(self, extra=None):
        t0 = time.time()
        self.stats.feas_queries += 1
        if self.axioms and extra is not None and self._linear_slice_unsat(extra):
            self.stats.solver_s += time.time() - t0
            return "unsat"
        if self.hints and self.axioms and getattr(self, "_incr_gave_up", 0) >= 1:
            # polynomial path conditions and sample points at hand: most side questions are
            # satisfiable, and a sample point shows that at once
            if self._feas_hinted(extra, min(self.feas_timeout_ms, 400)) == "sat":
                self.stats.solver_s += time.time() - t0
                return "sat"
        if self.axioms and getattr(self, "_incr_gave_up", 0) >= 2:
            # polynomial path conditions: incremental mode keeps timing out, go straight
            # to a fresh solver
            r = self._feas_fresh(extra)
            self.stats.solver_s += time.time() - t0
            if r == "unknown":
                self.stats.feas_unknown += 1
            return r
        if extra is not None:
            self.solver.push()
            self.solver.add(extra)
        try:
            r = str(self.solver.check())
        finally:
            if extra is not None:
                self.solver.pop()
        if r == "unknown":
            self._incr_gave_up = getattr(self, "_incr_gave_up", 0) + 1
            # incremental mode gives up on polynomial constraints a fresh solver decides
            r = self._feas_fresh(extra)
        self.stats.solver_s += time.time() - t0
        if r == "unknown":
            self.stats.feas_unknown += 1
        if _TRACE and time.time() - t0 > 0.3:
            sys.stderr.write("[trace] feas %.1fs %s: %s\n" % (time.time() - t0, r, str(extra).replace("\n", " ")[:150]))
        return r

    def _feas_fresh(self, extra):
        hyps = list(self.pc) + list(self.axioms) + ([extra] if extra is not None else [])
        for mk in (lambda: z3.Solver(), lambda: z3.Tactic("qfnra-nlsat").solver()):
            try:
                s = mk()
                s.set("timeout", self.feas_timeout_ms)
                for h in hyps:
                    s.add(h)
                r = str(s.check())
            except z3.Z3Exception:
                r = "unknown"
            if r != "unknown":
                return r
        return self._feas_hinted(extra)

    def _check_budget(self):
        if self.deadline is not None and time.time() > self.deadline:
            raise Budget("time budget exhausted")

    def branch(self, cond):
        c = z3.simplify(cond)
        if z3.is_true(c):
            return True
        if z3.is_false(c):
            return False
        if self.pos < len(self.prefix):
            d = self.prefix[self.pos]
            if not isinstance(d, bool):
                raise RuntimeError("non-deterministic replay (expected bool decision)")
        else:
            self._check_budget()
            rt = self._feas(c)
            if rt == "unsat":
                d = False
            else:
                rf = self._feas(z3.Not(c))
                if rf == "unsat":
                    d = True
                else:
                    d = True
                    self.pending_new.append(self.prefix + [False])
                    if rt == "unknown" or rf == "unknown":
                        self.pc_known_sat = False
            self.prefix.append(d)
        self.pos += 1
        lit = c if d else z3.Not(c)
        self.pc.append(lit)
        self.solver.add(lit)
        return d

    def concretize(self, term):
        t = z3.simplify(term)
        if z3.is_int_value(t):
            return t.as_long()
        if self.pos < len(self.prefix) and not isinstance(self.prefix[self.pos], tuple):
            raise RuntimeError("non-deterministic replay (expected value decision)")
        if self.pos < len(self.prefix) and self.prefix[self.pos][0] == "v":
            v = self.prefix[self.pos][1]
        else:
            self._check_budget()
            excluded = []
            if self.pos < len(self.prefix):
                excluded = list(self.prefix[self.pos][1])
                del self.prefix[self.pos:]
            self.solver.push()
            for e in excluded:
                self.solver.add(t != e)
            t0 = time.time()
            self.stats.feas_queries += 1
            r = str(self.solver.check())
            self.stats.solver_s += time.time() - t0
            if r == "sat":
                v = self.solver.model().eval(t, model_completion=True).as_long()
                self.solver.pop()
            else:
                self.solver.pop()
                if r == "unknown":
                    self.stats.feas_unknown += 1
                    raise Unsupported("cannot enumerate values of a symbolic index (solver unknown)")
                raise PathAbort("no further value")
            if len(excluded) > 64:
                raise Unsupported("symbolic index with more than 64 feasible values; bound it")
            self.prefix.append(("v", v))
            # is there any other value?  (saves a re-execution that would only abort)
            self.solver.push()
            for e in excluded + [v]:
                self.solver.add(t != e)
            t0 = time.time()
            self.stats.feas_queries += 1
            r2 = str(self.solver.check())
            self.stats.solver_s += time.time() - t0
            self.solver.pop()
            if r2 != "unsat":
                self.pending_new.append(self.prefix[:-1] + [("alt", excluded + [v])])
        self.pos += 1
        lit = (t == v)
        self.pc.append(lit)
        self.solver.add(lit)
        return v

    # -- queries --------------------------------------------------------------
    def _cone(self, goal_vars):
        """hypotheses (pc + axioms) transitively sharing variables with the goal"""
        hyps = [(h, term_vars(h)) for h in self.pc + self.axioms]
        vs = set(goal_vars)
        chosen = [False] * len(hyps)
        changed = True
        while changed:
            changed = False
            for i, (h, hv) in enumerate(hyps):
                if not chosen[i] and (hv & vs or not hv):
                    chosen[i] = True
                    if not hv <= vs:
                        vs |= hv
                        changed = True
        return [h for (h, _), c in zip(hyps, chosen) if c]

    def solve(self, extra, timeout_ms=None, prune=None):
        """(verdict, model) for pc & axioms & extra with a fresh solver"""
        if prune is None:
            prune = self.prune
        timeout_ms = timeout_ms or self.query_timeout_ms
        hyps = self._cone(term_vars(extra)) if prune else (self.pc + self.axioms)
        t0 = time.time()
        s = z3.Solver()
        s.set("timeout", timeout_ms)
        for h in hyps:
            s.add(h)
        s.add(extra)
        r = str(s.check())
        m = s.model() if r == "sat" else None
        if r == "sat" and prune and len(hyps) < len(self.pc) + len(self.axioms):
            # confirm against the full path condition before believing it
            s = z3.Solver()
            s.set("timeout", timeout_ms)
            for h in self.pc + self.axioms:
                s.add(h)
            s.add(extra)
            r = str(s.check())
            m = s.model() if r == "sat" else None
        if r == "unknown":
            # second opinion: nlsat tactic on the pruned set
            try:
                s2 = z3.Tactic("qfnra-nlsat").solver()
                s2.set("timeout", timeout_ms)
                for h in hyps:
                    s2.add(h)
                s2.add(extra)
                r2 = str(s2.check())
                if r2 == "unsat":
                    r = "unsat"
            except z3.Z3Exception:
                pass
        self.stats.solver_s += time.time() - t0
        if _TRACE and time.time() - t0 > 0.3:
            sys.stderr.write("[trace] solve %.1fs %s: %s\n" % (time.time() - t0, r, str(extra).replace("\n", " ")[:150]))
        return r, m

    def model_inputs(self, m):
        out = {}
        for name, v in self.inputs.items():
            val = m.eval(v, model_completion=True)
            out[name] = model_value(val)
        return out

    def check(self, label, goal, detail=None, hyps=None):
        """assert goal on this path: unsat(pc & ~goal) or record a candidate.
        hyps: an explicit list of z3 hypotheses to use instead of the path condition (each
        must already be a fact of this path -- an axiom, a proved lemma, a definition);
        proving from fewer hypotheses is sound and keeps polynomial queries small.  If that
        query does not come back unsat the full path condition is used."""
        self.checks_on_path += 1
        if isinstance(goal, (bool,) + _NPBOOL):
            if goal:
                self.stats.identity += 1
                return True
            g = z3.BoolVal(False)
        else:
            g = z3.simplify(bool_term(goal))
            if z3.is_true(g):
                self.stats.identity += 1
                return True
        t0 = time.time()
        if hyps is not None:
            sx = z3.Solver()
            sx.set("timeout", self.query_timeout_ms)
            for h in hyps:
                sx.add(h)
            sx.add(z3.Not(g))
            rr = str(sx.check())
            self.stats.solver_s += time.time() - t0
            if rr == "unsat":
                # vacuity guard: contradictory hypotheses would prove anything
                sv = z3.Solver()
                sv.set("timeout", min(self.query_timeout_ms, 3000))
                for h in hyps:
                    sv.add(h)
                if str(sv.check()) == "unsat":
                    self.stats.queries["unknown"] += 1
                    self.results.append(Result(label, "unknown", None, time.time() - t0, list(self.prefix[:self.pos]),
                                               "the explicit hypotheses are contradictory (vacuous query)"))
                    return False
                self.stats.queries["unsat"] += 1
                return True
            if rr == "sat":
                # a model of the reduced hypothesis set: a candidate for the replay to settle
                mm = sx.model()
                part = {d.name(): model_value(mm[d]) for d in mm.decls() if d.arity() == 0}
                self.stats.queries["sat"] += 1
                self.results.append(Result(label, "sat", dict(self.model_inputs(mm), **part), time.time() - t0,
                                           list(self.prefix[:self.pos]), "model of the reduced hypothesis set"))
                return False
        r, m = self.solve(z3.Not(g))
        self.stats.queries[r] += 1
        if r == "unsat":
            return True
        res = Result(label, r, self.model_inputs(m) if m is not None else None,
                     time.time() - t0, list(self.prefix[:self.pos]), detail)
        self.results.append(res)
        return False

    def pc_about(self, names):
        """the path-condition literals and axioms that mention only the given variables"""
        names = set(names)
        return [h for h in self.pc + self.axioms if term_vars(h) and term_vars(h) <= names]

    def lemma(self, label, goal):
        """prove goal on this path and, when proved, keep it as a hypothesis for the later
        queries (a derived fact, not an assumption)"""
        ok = self.check(label, goal)
        if ok and not isinstance(goal, (bool,) + _NPBOOL):
            self.axioms.append(z3.simplify(bool_term(goal)))
        return ok

    def lemma_eq(self, label, a, b):
        ok = self.check_eq(label, a, b)
        if ok and (is_sym(a) or is_sym(b)):
            self.axioms.append(real_term(a) == real_term(b))
        return ok

    def check_eq(self, label, a, b, detail=None):
        """equality goal, term identity first"""
        if not is_sym(a) and not is_sym(b):
            return self.check(label, a == b, detail)
        if _isreal(a) or _isreal(b):
            ta, tb = real_term(a), real_term(b)
        else:
            ta, tb = term_of(a), term_of(b)
            if z3.is_bool(ta) != z3.is_bool(tb):
                ta, tb = int_term(a), int_term(b)
        if ta.eq(tb):
            self.stats.identity += 1
            self.checks_on_path += 1
            return True
        if not z3.is_bool(ta) and _dag_size(ta, 600) + _dag_size(tb, 600) < 600:
            try:
                d = z3.simplify(ta - tb, som=True)
                if (z3.is_int_value(d) and d.as_long() == 0) or (z3.is_rational_value(d) and d.numerator_as_long() == 0):
                    self.stats.identity += 1
                    self.checks_on_path += 1
                    return True
            except z3.Z3Exception:
                pass
        if not z3.is_bool(ta) and self.rules:
            from . import poly
            res = poly.difference(ta, tb, self.rules)
            if res is not None:
                d, rules = res
                if not d:
                    self.stats.identity += 1
                    self.checks_on_path += 1
                    return True
                # the normal forms differ: a small query over the relations that touch the
                # difference polynomial looks for a point where it does not vanish -- a
                # candidate counterexample (settled by the replay), found without the full
                # path condition
                t0 = time.time()
                w = poly.nonzero_witness(d, rules)
                self.stats.solver_s += time.time() - t0
                if w is not None:
                    # the normal form is not canonical for every relation: let the solver try
                    # the real goal briefly before the witness is believed
                    r2, _m2 = self.solve(z3.Not(ta == tb), timeout_ms=max(1000, self.query_timeout_ms // 2))
                    if r2 == "unsat":
                        self.stats.queries["unsat"] += 1
                        self.checks_on_path += 1
                        return True
                    self.checks_on_path += 1
                    self.stats.queries["sat"] += 1
                    part = {k: model_value(v) for k, v in w.items()}
                    if r2 == "sat" and _m2 is not None:
                        # the solver confirmed it on the full path condition: its model names every input
                        part = dict(part, **self.model_inputs(_m2))
                    self.results.append(Result(label, "sat", part, time.time() - t0, list(self.prefix[:self.pos]),
                                               "normal forms differ; witness of the reduced relations"))
                    return False
        return self.check(label, wrap(ta == tb), detail)

    def define(self, prefix, value):
        """fresh real v with v == value (a definition: expands in polynomial normal forms)"""
        v = z3.Real("%s!%d" % (prefix, self.fresh_id()))
        self.axioms.append(v == real_term(value))
        self.solver.add(v == real_term(value))
        self.rules.append((v, 1, real_term(value)))
        return SReal(v)

    def check_root(self, label, got, num, den=1, alts=()):
        """claim: got == sqrt(num)/den (den > 0).  Tried as a term identity against the
        usual ways of writing it, then decided without roots: got*den >= 0 and
        (got*den)^2 == num"""
        cands = list(alts)
        cands.append(lambda: sym_sqrt(num) / den if not (isinstance(den, int) and den == 1) else sym_sqrt(num))
        if is_sym(got):
            tg = real_term(got)
            for mk in cands:
                try:
                    alt = mk()
                except Exception:
                    continue
                if is_sym(alt) and real_term(alt).eq(tg):
                    self.stats.identity += 1
                    self.checks_on_path += 1
                    return True
        g = got * den
        ok = self.check(label + " (sign)", g >= 0, detail=None)
        return self.check_eq(label, g * g, num) and ok

    def fail(self, label, detail=None):
        """path-level failure (e.g. undeclared exception): candidate iff pc is sat"""
        return self.check(label, False, detail)

    def drop_obligations(self, reason):
        """forget the pending domain obligations of this path: they belong to code that is
        decided in another configuration (named in `reason`, recorded in the evidence)"""
        if self.obligs:
            self.notes.setdefault("dropped_obligations", set()).add(reason)
        self.obligs = []

    def assume_obligations(self, only=None):
        """turn the pending domain obligations (non-zero denominators, non-negative
        radicands) into assumptions: the harness claims nothing outside the domain on
        which the computed expressions are defined.  Listed in the evidence."""
        keep = []
        for t, what in self.obligs:
            if only is not None and not any(o in what for o in only):
                keep.append((t, what))
                continue
            self.notes.setdefault("assumed_domain", set()).add(what)
            self.assume(wrap(t))
        self.obligs = keep

    def certify_obligations(self, sos, scales=(1, fractions.Fraction(1, 4), fractions.Fraction(1, 2), 2, 4)):
        """discharge pending domain obligations of the forms t >= 0 and -1 <= u <= 1 with a
        sum-of-squares certificate: sos is a list of (label, [p_1..p_k]) with the claim
        t == scale * sum p_i^2 (resp. 1 - u^2 == ...) decided by polynomial normal form modulo
        the path's relations; the (trivial) consequence is then confirmed by the solver from
        that single equation.  Obligations without a certificate stay pending."""
        from . import poly
        keep = []
        for t, what in self.obligs:
            targets = []
            if z3.is_app_of(t, z3.Z3_OP_GE) and z3.is_rational_value(t.children()[1]) and t.children()[1].numerator_as_long() == 0:
                targets = [(t.children()[0], t)]
            elif z3.is_app_of(t, z3.Z3_OP_LE) and z3.is_rational_value(t.children()[0]) and t.children()[0].numerator_as_long() == 0:
                targets = [(t.children()[1], t)]
            elif z3.is_and(t) and len(t.children()) == 2:
                u = None
                for c in t.children():
                    if z3.is_app_of(c, z3.Z3_OP_GE) or z3.is_app_of(c, z3.Z3_OP_LE):
                        a, b = c.children()
                        u = a if not z3.is_rational_value(a) else b
                if u is not None:
                    targets = [(1 - u * u, t)]
            done = False
            for tt, goal in targets:
                for lab, ps in sos:
                    ssum = None
                    for q in ps:
                        qt = real_term(q)
                        ssum = qt * qt if ssum is None else ssum + qt * qt
                    for sc in scales:
                        if poly.equal(tt, z3.RealVal(fractions.Fraction(sc)) * ssum, self.rules):
                            fresh = [z3.Real("sos!%d" % self.fresh_id()) for _ in ps]
                            body = None
                            for f in fresh:
                                body = f * f if body is None else body + f * f
                            T = z3.Real("sosT!%d" % self.fresh_id())
                            hy = [T == z3.RealVal(fractions.Fraction(sc)) * body]
                            g = T >= 0
                            sx = z3.Solver()
                            sx.set("timeout", 5000)
                            sx.add(hy[0], z3.Not(g))
                            if str(sx.check()) == "unsat":
                                self.stats.queries["unsat"] += 1
                                self.axioms.append(z3.simplify(tt >= 0))
                                self.notes.setdefault("certified", []).append("%s by %s x %s" % (what, sc, lab))
                                done = True
                            break
                    if done:
                        break
                if done:
                    break
            if not done:
                keep.append((t, what))
        self.obligs = keep

    def discharge_obligations(self):
        ok = True
        done = set()
        for t, what in self.obligs:
            k = t.get_id()
            if k in done:
                continue
            done.add(k)
            if not self.check("obligation: " + what, wrap(t)):
                ok = False
        return ok

    def confirm_reachable(self):
        """reachability twin: is the full pc satisfiable.  Every fork and assumption of the
        path was already checked incrementally; only when one of those answers was
        `unknown` is the whole path condition solved again (under a resource limit, since
        z3 does not always honour its timeout on polynomial constraints)"""
        if self.pc_known_sat and not getattr(self, "_axioms_after_check", False):
            r = self._feas()
            if r != "unknown":
                return r
        s = z3.Solver()
        s.set("timeout", self.feas_timeout_ms * 3)
        s.set("rlimit", 20000000)
        for h in self.pc + self.axioms:
            s.add(h)
        t0 = time.time()
        r = str(s.check())
        if r == "unknown" and self.hints:
            r = self._feas_hinted(None, self.feas_timeout_ms * 3)
        self.stats.solver_s += time.time() - t0
        return r


def model_value(val):
    if z3.is_int_value(val):
        return val.as_long()
    if z3.is_rational_value(val):
        n, d = val.numerator_as_long(), val.denominator_as_long()
        return {"num": n, "den": d} if d != 1 else {"num": n, "den": 1}
    if z3.is_true(val):
        return True
    if z3.is_false(val):
        return False
    if z3.is_fp(val):
        # any width: the exact rational value, which a double holds exactly for widths up to 64
        try:
            if z3.is_true(z3.simplify(z3.fpIsNaN(val))) or z3.is_true(z3.simplify(z3.fpIsInf(val))):
                return str(val)
            r = z3.simplify(z3.fpToReal(val))
            if z3.is_rational_value(r):
                f = float(fractions.Fraction(r.numerator_as_long(), r.denominator_as_long()))
                if z3.is_true(z3.simplify(z3.fpIsNegative(val))) and f == 0.0:
                    f = -0.0
                return {"fp": f.hex()}
        except z3.Z3Exception:
            pass
        return str(val)
    if z3.is_algebraic_value(val):
        a = val.approx(20)
        return {"num": a.numerator_as_long(), "den": a.denominator_as_long(), "approx": True}
    return str(val)


def model_float(v):
    """python number for a recorded model value"""
    if isinstance(v, dict):
        if "fp" in v:
            return float.fromhex(v["fp"])
        return v["num"] / v["den"] if v["den"] != 1 else float(v["num"])
    return v


def model_fraction(v):
    if isinstance(v, dict):
        return fractions.Fraction(v["num"], v["den"])
    return fractions.Fraction(v)


# ----------------------------------------------------------------------------
# explorer


def explore(harness, cfg=None, max_paths=20000, time_budget=None, feas_timeout_ms=3000,
            query_timeout_ms=30000, legit=(), max_samples=3, on_unexpected="fail"):
    """run `harness(cx, cfg)` on every feasible path.

    The harness declares inputs on cx, runs the code under test and calls cx.check().
    An Exception escaping the harness is an undeclared exception of the code under
    test and becomes a candidate violation on that path.
    Returns a dict (picklable) with stats, candidates, inconclusives.
    """
    deadline = time.time() + time_budget if time_budget else None
    cx = Ctx(feas_timeout_ms=feas_timeout_ms, query_timeout_ms=query_timeout_ms,
             max_paths=max_paths, deadline=deadline)
    pending = [[]]
    inconclusive = []
    reach_unknown = [0]
    t_start = time.time()
    exhausted = True
    while pending:
        if cx.stats.paths >= max_paths or (deadline and time.time() > deadline):
            exhausted = False
            inconclusive.append("budget: %d prefixes unexplored" % len(pending))
            break
        prefix = pending.pop()
        cx.reset_path(prefix)
        Ctx.current = cx
        cx.stats.paths += 1
        outcome = None
        try:
            harness(cx, cfg)
            cx.discharge_obligations()
            outcome = "ok"
            cx.stats.paths_ok += 1
        except PathAbort:
            outcome = "abort"
            cx.stats.paths_aborted += 1
        except Unsupported as e:
            outcome = "unsupported"
            import traceback
            tb = traceback.extract_tb(e.__traceback__)
            where = " <- ".join("%s:%d" % (f.filename.split("/")[-1], f.lineno) for f in tb[-4:][::-1])
            msg = "unsupported: %s [%s]" % (e, where)
            if msg not in inconclusive:
                inconclusive.append(msg)
            exhausted = False
        except Budget as e:
            outcome = "budget"
            inconclusive.append("budget: %s" % (e,))
            exhausted = False
            pending.extend(cx.pending_new)
            break
        except RecursionError as e:
            outcome = "unsupported"
            inconclusive.append("recursion limit")
            exhausted = False
        except Exception as e:  # undeclared exception from the code under test
            outcome = "exc"
            cx.stats.paths_exc += 1
            import traceback
            tb = traceback.extract_tb(e.__traceback__)
            where = "%s:%d" % (tb[-1].filename.split("/")[-1], tb[-1].lineno) if tb else "?"
            cx.fail("undeclared exception %s: %s at %s" % (type(e).__name__, str(e)[:120], where))
        finally:
            Ctx.current = None
        pending.extend(cx.pending_new)
        if outcome in ("ok", "exc") and cx.checks_on_path:
            if cx.stats.paths_confirmed_sat < 3 or len(cx.samples) < max_samples:
                r = cx.confirm_reachable()
                if r == "unknown":
                    cx.notes["reach_unknown"] = True
                    reach_unknown[0] += 1
                if r == "sat":
                    cx.stats.paths_confirmed_sat += 1
                    if len(cx.samples) < max_samples:
                        cx.samples.append({
                            "cfg": repr(cfg), "decisions": len(cx.prefix),
                            "pc": [str(p).replace("\n", " ")[:160] for p in cx.pc[:12]],
                            "outcome": outcome})
    if cx.stats.paths_confirmed_sat == 0 and reach_unknown[0]:
        inconclusive.append("reachability twin undecided (solver unknown on the path condition): vacuity not excluded")
    out = {
        "cfg": repr(cfg),
        "stats": cx.stats.as_dict(),
        "exhausted": exhausted,
        "inconclusive": inconclusive,
        "candidates": [
            {"label": r.label, "model": r.model, "cfg": cfg, "detail": r.detail}
            for r in cx.results if r.verdict == "sat"],
        "unknown": [r.label for r in cx.results if r.verdict == "unknown"],
        "samples": cx.samples,
        "wall_s": round(time.time() - t_start, 3),
    }
    return out
