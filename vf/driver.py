"""driver -- runs one property's harnesses, replays candidates, writes evidence.

exit codes: 0 held (or only KNOWN-FINDINGs / inconclusive items), 1 VIOLATION,
3 harness error (never an alarm about esutil).
"""
import argparse
import importlib
import json
import multiprocessing as mp
import os
import shutil
import subprocess
import sys
import tempfile
import time
import traceback

VERIF = os.path.dirname(os.path.dirname(os.path.abspath(__file__)))
HARNESS_ERROR = 3


def repo():
    return os.environ.get("VERIF_REPO", "/repo")


# ----------------------------------------------------------------------------
def _run_cfg(args):
    modname, cfg, opts = args
    sys.setrecursionlimit(10000)
    from vf import symx
    mod = importlib.import_module(modname)
    t0 = time.time()
    try:
        kw = dict(getattr(mod, "EXPLORE_OPTS", {}))
        kw.update(opts)
        if hasattr(mod, "run_cfg"):
            out = mod.run_cfg(cfg, **kw)
        else:
            out = symx.explore(mod.harness, cfg, **kw)
        out["error"] = None
    except BaseException as e:  # machinery crash -> harness error
        out = {"cfg": repr(cfg), "error": "%s: %s\n%s" % (type(e).__name__, e, traceback.format_exc()),
               "stats": None, "candidates": [], "unknown": [], "inconclusive": [], "samples": [],
               "exhausted": False, "wall_s": time.time() - t0}
    out["cfg_obj"] = cfg
    return out


def _child(conn, job):
    try:
        out = _run_cfg(job)
    except BaseException as e:      # pragma: no cover
        out = {"cfg": repr(job[1]), "error": "worker crashed: %r" % (e,), "stats": None, "candidates": [],
               "unknown": [], "inconclusive": [], "samples": [], "exhausted": False, "wall_s": 0, "cfg_obj": job[1]}
    try:
        conn.send(out)
    finally:
        conn.close()


def run_pool(jobs, nproc, hard_timeout, verbose=False):
    """one forked process per configuration, at most nproc at a time; a configuration
    that overruns its hard wall-clock limit (a solver call that ignores its timeout) is
    killed and reported as inconclusive -- never as success and never as an alarm"""
    ctx = mp.get_context("fork")
    pending = list(jobs)[::-1]
    running = []        # (proc, conn, job, t0)
    results = []
    from vf.symx import Stats
    while pending or running:
        while pending and len(running) < nproc:
            job = pending.pop()
            pc, cc = ctx.Pipe(duplex=False)
            p = ctx.Process(target=_child, args=(cc, job))
            p.daemon = True
            p.start()
            cc.close()
            running.append((p, pc, job, time.time()))
        still = []
        progressed = False
        for p, conn, job, t0 in running:
            out = None
            if conn.poll(0):
                try:
                    out = conn.recv()
                except EOFError:
                    out = None
                p.join(5)
                if out is None:
                    out = {"cfg": repr(job[1]), "error": "worker died without a result", "stats": None, "candidates": [],
                           "unknown": [], "inconclusive": [], "samples": [], "exhausted": False, "wall_s": time.time() - t0,
                           "cfg_obj": job[1]}
            elif not p.is_alive():
                p.join(1)
                out = {"cfg": repr(job[1]), "error": "worker died (exit %s)" % p.exitcode, "stats": None, "candidates": [],
                       "unknown": [], "inconclusive": [], "samples": [], "exhausted": False, "wall_s": time.time() - t0,
                       "cfg_obj": job[1]}
            elif time.time() - t0 > hard_timeout:
                p.kill()
                p.join(5)
                out = {"cfg": repr(job[1]), "error": None, "stats": Stats().as_dict(), "candidates": [], "unknown": [],
                       "inconclusive": ["killed after %.0f s (hard limit; a solver call did not honour its timeout)" % (time.time() - t0)],
                       "samples": [], "exhausted": False, "wall_s": time.time() - t0, "cfg_obj": job[1]}
            if out is None:
                still.append((p, conn, job, t0))
            else:
                progressed = True
                conn.close()
                results.append(out)
                if verbose:
                    sys.stderr.write("cfg %s: %.1fs %s cands=%d inconc=%d\n" % (
                        out["cfg"], out["wall_s"], out["stats"], len(out["candidates"]), len(out["inconclusive"])))
        running = still
        if not progressed:
            time.sleep(0.02)
    return results


class Scratch(object):
    """scratch copy + build of the repository's working tree for replays"""

    def __init__(self, build=True):
        self.dir = None
        self.build = build

    def path(self):
        if self.dir is None:
            self.dir = tempfile.mkdtemp(prefix="esutil-replay-")
            excl = ["--exclude", ".git", "--exclude", "build", "--exclude", "__pycache__"]
            if self.build:
                excl += ["--exclude", "*.so"]      # rebuilt below from the working tree
            subprocess.check_call(["rsync", "-a"] + excl + [repo() + "/", self.dir + "/"])
            if self.build:
                p = subprocess.run(["/venv/bin/python", "setup.py", "build_ext", "--inplace", "-j", "16"],
                                   cwd=self.dir, stdout=subprocess.PIPE, stderr=subprocess.STDOUT)
                if p.returncode != 0:
                    sys.stderr.write(p.stdout.decode(errors="replace")[-3000:])
                    raise RuntimeError("scratch build of the working tree failed")
        return self.dir

    def cleanup(self):
        if self.dir:
            shutil.rmtree(self.dir, ignore_errors=True)
            self.dir = None


def replay_candidate(modname, cand, scratch_dir, timeout=120):
    """run mod.replay(cand) in a subprocess against the scratch build.
    returns dict(reproduced, what, key)"""
    with tempfile.NamedTemporaryFile("w", suffix=".json", delete=False) as f:
        json.dump(cand, f, default=_json_default)
        cpath = f.name
    # temporary files of the replay live in a directory of ours, removed even when the real library
    # kills the interpreter
    tdir = tempfile.mkdtemp(prefix="vf-replay-tmp-")
    try:
        env = dict(os.environ)
        env["TMPDIR"] = tdir
        env["PYTHONPATH"] = scratch_dir + os.pathsep + VERIF
        env["VERIF_REPLAY_TARGET"] = scratch_dir
        p = subprocess.run([sys.executable, "-m", "vf.replay_child", modname, cpath],
                           cwd=VERIF, env=env, stdout=subprocess.PIPE, stderr=subprocess.PIPE,
                           timeout=timeout)
        out = p.stdout.decode(errors="replace").strip().splitlines()
        for line in reversed(out):
            if line.startswith("REPLAY-RESULT "):
                return json.loads(line[len("REPLAY-RESULT "):])
        if p.returncode < 0:
            # the interpreter itself was killed (segmentation fault, abort): the real library
            # crashed on the replay inputs -- a reproduction, not a harness failure
            return {"reproduced": True, "key": "crash:signal%d" % (-p.returncode),
                    "what": "the real library crashed the interpreter (signal %d) on the replay of %r" % (-p.returncode, cand.get("label", "")[:120])}
        return {"reproduced": False, "what": "replay crashed: " + p.stderr.decode(errors="replace")[-400:],
                "key": None, "crashed": True}
    except subprocess.TimeoutExpired:
        return {"reproduced": False, "what": "replay timed out", "key": None, "crashed": True}
    finally:
        os.unlink(cpath)
        shutil.rmtree(tdir, ignore_errors=True)


def _json_default(o):
    try:
        import numpy as np
        if isinstance(o, np.generic):
            return o.item()
    except Exception:
        pass
    if isinstance(o, (set, tuple)):
        return list(o)
    return repr(o)


def load_known(prop):
    """known_findings.txt lines:
       known: property=<id> key=<key> <text>      (suppresses that one finding)
       fixed: property=<id> <commit> <text>       (suppresses nothing)"""
    known = {}
    p = os.path.join(VERIF, "known_findings.txt")
    if os.path.exists(p):
        for line in open(p):
            line = line.strip()
            if line.startswith("known:"):
                parts = line.split()
                d = dict(x.split("=", 1) for x in parts[1:3] if "=" in x)
                if d.get("property") == prop and "key" in d:
                    known[d["key"]] = " ".join(parts[3:])
    return known


def main(argv=None):
    ap = argparse.ArgumentParser()
    ap.add_argument("prop")
    ap.add_argument("--tier", default=os.environ.get("VERIF_TIER", "quick"))
    ap.add_argument("--replay", default=None)
    ap.add_argument("--jobs", type=int, default=int(os.environ.get("VERIF_JOBS", "16")))
    ap.add_argument("--only", default=None, help="substring filter on configuration repr (debug)")
    ap.add_argument("--no-evidence", action="store_true")
    ap.add_argument("-v", "--verbose", action="store_true")
    args = ap.parse_args(argv)
    prop = args.prop
    tier = "thorough" if args.tier.startswith("t") else "quick"
    seed = int(os.environ.get("VERIF_SEED", "0") or 0)
    modname = "props." + prop
    t_start = time.time()
    try:
        mod = importlib.import_module(modname)
    except Exception:
        traceback.print_exc()
        return HARNESS_ERROR

    if args.replay:
        cand = json.load(open(args.replay))
        sc = Scratch(build=getattr(mod, "NEEDS_BUILD", True))
        try:
            r = replay_candidate(modname, cand["candidate"] if "candidate" in cand else cand, sc.path())
        finally:
            sc.cleanup()
        print(json.dumps(r, indent=1))
        if r.get("reproduced"):
            print("VIOLATION property=%s replay=%s" % (prop, args.replay))
            return 1
        return 0

    cfgs = list(mod.configs(tier))
    if args.only:
        cfgs = [c for c in cfgs if args.only in repr(c)]
    if seed:
        import random
        random.Random(seed).shuffle(cfgs)
    opts = dict(getattr(mod, "TIER_OPTS", {}).get(tier, {}))
    jobs = [(modname, c, opts) for c in cfgs]
    budget = opts.get("time_budget", getattr(mod, "EXPLORE_OPTS", {}).get("time_budget")) or 600
    results = run_pool(jobs, min(args.jobs, max(1, len(jobs))), hard_timeout=budget * 1.5 + 60, verbose=args.verbose)

    errors = [r for r in results if r["error"]]
    if errors:
        for r in errors[:5]:
            sys.stderr.write("HARNESS-ERROR cfg=%s\n%s\n" % (r["cfg"], r["error"]))
        return HARNESS_ERROR

    from vf.symx import Stats
    total = Stats()
    inconclusive = []
    candidates = []
    samples = []
    unreached = []
    for r in results:
        total.merge(r["stats"])
        for i in r["inconclusive"]:
            inconclusive.append("%s: %s" % (r["cfg"], i))
        for u in r["unknown"]:
            inconclusive.append("%s: solver unknown on '%s'" % (r["cfg"], u))
        candidates.extend(r["candidates"])
        samples.extend(r["samples"][:1])
        if r["stats"]["paths_confirmed_sat"] == 0 and not r.get("vacuous_ok") and not r["inconclusive"]:
            unreached.append(r["cfg"])
    if unreached and not getattr(mod, "ALLOW_UNREACHED", False):
        # reachability twin failed: some configuration never reached an assertion with a
        # satisfiable path condition
        sys.stderr.write("HARNESS-ERROR vacuous configurations (no satisfiable path reached a check): %s\n"
                         % unreached[:8])
        return HARNESS_ERROR

    # ---- conformance pass (shim vs the real library on concrete inputs) ----
    conf_n = 0
    shared_scratch = Scratch(build=True)
    import atexit
    atexit.register(shared_scratch.cleanup)
    if hasattr(mod, "conformance"):
        from vf.symx import Unsupported as _Unsup
        try:
            if getattr(mod, "CONFORMANCE_BUILD", False):
                # compare the interpreters with a build of the *current* source, not with
                # whatever compiled extension happens to sit in the repository directory
                os.environ["VERIF_REAL_ESUTIL"] = shared_scratch.path()
            conf_n = mod.conformance()
        except _Unsup as e:
            # the current source uses a NumPy feature the shim lacks: not decidable
            # here, never an alarm and not a harness failure either
            inconclusive.append("conformance pass could not run: %s" % (e,))
        except (AttributeError, TypeError, NotImplementedError) as e:
            # the model lacks something the current source uses (a shim gap, not a
            # disagreement of values): inconclusive
            tb = traceback.extract_tb(e.__traceback__)
            inconclusive.append("conformance pass could not run: %s: %s at %s:%d" % (
                type(e).__name__, e, tb[-1].filename.split("/")[-1], tb[-1].lineno))
        except Exception:
            traceback.print_exc()
            sys.stderr.write("HARNESS-ERROR conformance pass failed (shim/model disagrees with the real library)\n")
            return HARNESS_ERROR

    # ---- replay candidates ----
    known = load_known(prop)
    violations = []
    known_hits = {}
    not_reproduced = []
    replayed = 0
    if candidates:
        # at most a few per (label-class) to bound time; distinct labels first
        by_label = {}
        for c in candidates:
            by_label.setdefault(c["label"].split(" [")[0], []).append(c)
        per_label = getattr(mod, "REPLAYS_PER_LABEL", 6)
        sc = shared_scratch if (shared_scratch.dir and getattr(mod, "NEEDS_BUILD", True)) else Scratch(build=getattr(mod, "NEEDS_BUILD", True))
        try:
            sdir = sc.path()
            for lab, cs in by_label.items():
                # distinct configurations first (larger ones are more likely to manifest),
                # stop at the first reproduction per distinct key
                seen_cfg, first, rest = set(), [], []
                for c in sorted(cs, key=lambda c: -len(repr(c.get("model")))):
                    k = repr(c.get("cfg"))
                    (rest if k in seen_cfg else first).append(c)
                    seen_cfg.add(k)
                got_keys = set()
                for c in (first + rest)[:per_label]:
                    r = replay_candidate(modname, c, sdir)
                    replayed += 1
                    if r.get("crashed"):
                        sys.stderr.write("HARNESS-ERROR replay of candidate %r crashed: %s\n" % (c["label"], r.get("what")))
                        return HARNESS_ERROR
                    if r.get("reproduced"):
                        key = r.get("key") or c["label"]
                        if key in known:
                            known_hits.setdefault(key, r.get("what", ""))
                        else:
                            violations.append((c, r))
                        got_keys.add(key)
                        if len(got_keys) >= 2:
                            break
                    else:
                        not_reproduced.append((c, r))
        except RuntimeError as e:
            sys.stderr.write("HARNESS-ERROR %s\n" % e)
            return HARNESS_ERROR
        finally:
            sc.cleanup()
    for c, r in not_reproduced:
        inconclusive.append("candidate not reproduced on the real build (abstraction gap): %s cfg=%r: %s"
                            % (c["label"], c.get("cfg"), r.get("what", "")[:200]))

    for key, what in known_hits.items():
        print("KNOWN-FINDING: property=%s %s (%s)" % (prop, known[key], key))

    rc = 0
    replay_paths = []
    if violations:
        os.makedirs(os.path.join(VERIF, "replays"), exist_ok=True)
        seen_keys = set()
        n = 0
        for c, r in violations:
            k = r.get("key") or c["label"]
            if k in seen_keys:
                continue
            seen_keys.add(k)
            n += 1
            path = os.path.join(VERIF, "replays", "%s-%d.json" % (prop, n))
            json.dump({"property": prop, "candidate": c, "replay": r}, open(path, "w"), indent=1,
                      default=_json_default)
            replay_paths.append(path)
            print("VIOLATION property=%s replay=%s" % (prop, path))
            print("  what: %s" % r.get("what", "")[:300])
        rc = 1

    shared_scratch.cleanup()
    for i in inconclusive[:12]:
        print("INCONCLUSIVE property=%s %s" % (prop, i[:300]))
    if len(inconclusive) > 12:
        print("INCONCLUSIVE property=%s ... %d more" % (prop, len(inconclusive) - 12))

    wall = time.time() - t_start
    st = total.as_dict()
    nq = st["queries"]["unsat"] + st["queries"]["sat"] + st["queries"]["unknown"]
    if not args.no_evidence and not args.only:
        from vf import loader
        funcs = []
        for rel, name in getattr(mod, "FUNCTIONS", []):
            try:
                sp = loader.source_span(rel, name) if rel.endswith(".py") else None
            except Exception:
                sp = None
            funcs.append(sp or {"function": "%s:%s" % (rel, name)})
        if hasattr(mod, "extra_functions"):
            funcs.extend(mod.extra_functions())
        level = getattr(mod, "LEVEL", "model_checking")
        cov = {
            "states": max(1, st["paths"]),
            "transitions": max(1, nq + st["feas_queries"]),
            "traces_validated_against_impl": conf_n + replayed,
            "samples": samples[:6] or [{"note": "no sample recorded"}],
            "exhaustive": all(r["exhausted"] for r in results) and not inconclusive,
            "configurations": len(cfgs),
            "paths": st["paths"], "paths_ending_in_checks": st["paths_ok"],
            "paths_ending_in_undeclared_exception": st["paths_exc"],
            "paths_cut_by_assumption": st["paths_aborted"],
            "property_queries": st["queries"], "term_identities": st["identity"],
            "feasibility_queries": st["feas_queries"], "feasibility_unknown": st["feas_unknown"],
            "solver_s": st["solver_s"],
            "functions_encoded": funcs,
            "bounds": getattr(mod, "BOUNDS", {}).get(tier, getattr(mod, "BOUNDS", {})),
            "engine": getattr(mod, "ENGINE", "symx (own z3-based symbolic executor over the repository's Python source)"),
            "inconclusive": inconclusive[:40],
            "candidates_found": len(candidates), "candidates_replayed": replayed,
            "candidates_not_reproduced": len(not_reproduced),
            "known_findings_hit": sorted(known_hits),
            "violations": [r.get("what", "")[:300] for _, r in violations][:10],
            "conformance_traces": conf_n,
            "explanation": getattr(mod, "EXPLANATION", ""),
        }
        if level == "translation_validation":
            cov["programs"] = max(1, len(funcs))
            cov["disagreements_checked"] = nq
        ev = {
            "property_id": prop, "tier": tier, "seed": seed, "level": level,
            "coverage": cov,
            "assumptions": getattr(mod, "ASSUMPTIONS", []),
            "wall_s": round(wall, 2),
            "violations": len(replay_paths),
        }
        os.makedirs(os.path.join(VERIF, "evidence"), exist_ok=True)
        json.dump(ev, open(os.path.join(VERIF, "evidence", prop + ".json"), "w"), indent=1,
                  default=_json_default)
    print("%s tier=%s configs=%d paths=%d queries=%s feas=%d identities=%d solver=%.1fs wall=%.1fs "
          "candidates=%d replayed=%d inconclusive=%d -> %s"
          % (prop, tier, len(cfgs), st["paths"], st["queries"], st["feas_queries"], st["identity"],
             st["solver_s"], wall, len(candidates), replayed, len(inconclusive),
             "VIOLATION" if rc else "ok"))
    return rc


if __name__ == "__main__":
    sys.exit(main())
