"""recmodel -- contract model of esutil.recfile.records.Records over a virtual file.

The Python layers of the record-file modules (recfile.Util, sfile) are executed
symbolically against this object; it *is* "index the full table": a file is a header text
plus a list of rows (cells symbolic), Write appends at the end, read_columns /
read_binary_slice deliver exactly the requested cells under the preconditions the C++
code documents (rows and column numbers sorted and unique, slice bounds inside the file,
output array of the right length) and raise otherwise, as the C++ does.  That the C++
methods implement this contract is a separate obligation (records.cpp).
"""
import numpy as rnp

from . import symx, symnp, symrec
from .symx import Unsupported


class VFile(object):
    def __init__(self):
        self.exists = False
        self.header = ""        # text before the rows
        self.dtype = None
        self.delim = None
        self.chunks = []        # list of SRec (1-d) in file order
        self.log = []           # mutating calls, for "file unchanged" claims

    @property
    def nrows(self):
        return sum(c.size for c in self.chunks)

    def table(self):
        """all rows as one SRec (native byte order for text files)"""
        if not self.chunks:
            return None
        if len(self.chunks) == 1:
            return self.chunks[0]
        dt = self.chunks[0].dtype
        n = self.nrows
        out = symrec.SRec.zeros((n,), dt)
        pos = 0
        for c in self.chunks:
            for name in dt.names:
                out[name][pos:pos + c.size] = c[name]
            pos += c.size
        return out

    def snapshot(self):
        return (self.exists, self.header, self.nrows, tuple(id(c) for c in self.chunks), self.delim)


class ContractViolation(Exception):
    """the Python layer broke the precondition of the C++ object it drives"""


class VFS(object):
    def __init__(self):
        self.files = {}

    def get(self, name):
        f = self.files.get(name)
        if f is None:
            f = self.files[name] = VFile()
        return f

    def exists(self, name):
        return name in self.files and self.files[name].exists


def make_open(vfs):
    """builtin open() over the virtual files, enough for Recfile._count_nrows"""
    class F(object):
        def __init__(self, name, *a, **k):
            self.f = vfs.get(name)
            if not self.f.exists:
                raise FileNotFoundError(2, "No such file or directory: %r" % name)
            self.pos = 0

        def __enter__(self):
            return self

        def __exit__(self, *a):
            return False

        def _size(self):
            if self.f.delim is None:
                return len(self.f.header) + sum(c.size * c.dtype.itemsize for c in self.f.chunks)
            return len(self.f.header) + 16 * self.f.nrows       # only used for the throw-away handle that reads the header

        def seek(self, off, whence=0):
            self.pos = off if whence == 0 else (self._size() + off if whence == 2 else self.pos + off)

        def tell(self):
            return self.pos

        def __iter__(self):
            # lines after the current position: the header is a whole number of lines
            hl = self.f.header[self.pos:].count("\n") if self.pos <= len(self.f.header) else 0
            for _ in range(hl + self.f.nrows):
                yield "line"

        def close(self):
            pass
    return F


def make_module(vfs):
    """a stand-in for the module esutil.recfile.records bound to a virtual file system"""

    class Records(object):
        def __init__(self, filename, mode="r", delim=None, dtype=None, nrows=-9999, offset=0,
                     bracket_arrays=0, padnull=False, ignorenull=False):
            self.filename = filename
            self.mode = mode
            self.f = vfs.get(filename)
            self.delim = delim
            self.dtype = dtype
            self.nrows = nrows
            self.offset = offset
            self.closed = False
            if mode[0] == "r":
                if not self.f.exists:
                    raise IOError("Could not open file: %s" % filename)
            elif mode[0] == "w":
                self.f.exists = True
                self.f.header = ""
                self.f.chunks = []
                self.f.dtype = None
                self.f.delim = delim
                self.f.log.append(("truncate",))
            else:
                raise ValueError("bad mode")

        # ---- writing
        def _writable(self):
            if self.closed:
                raise RuntimeError("file is closed")
            if self.mode[0] != "w" and "+" not in self.mode:
                raise RuntimeError("File is not open for writing")

        def write_header_and_update_offset(self, text):
            self._writable()
            if self.f.chunks or self.f.header:
                raise RuntimeError("header written into a file that already has contents")
            self.f.header = text
            self.offset = len(text)
            self.f.log.append(("header", text))

        def update_row_count(self, n):
            self._writable()
            line = "SIZE = %20d" % int(n) if not symx.is_sym(n) else None
            if line is None:
                raise Unsupported("symbolic row count")
            first, sep, rest = self.f.header.partition("\n")
            if not first.upper().startswith("SIZE") or len(first) != len(line):
                raise RuntimeError("no fixed-width SIZE line to update")
            self.f.header = line + sep + rest
            self.f.log.append(("size", int(n)))

        def Write(self, obj):
            self._writable()
            if not isinstance(obj, symrec.SRec):
                raise Unsupported("Write of %r" % (type(obj),))
            if self.delim is not None and any(obj.dtype.fields[nm][0].base.byteorder == ">" for nm in obj.dtype.names):
                # the text writer formats the raw bytes of each number as a native value
                raise ContractViolation("a table with non-native byte order is handed to the C++ text writer, which formats the raw bytes as native numbers")
            if not obj.flags.c_contiguous:
                # Records::Write takes PyArray_DATA and copies nrows * rowsize bytes from it: its contract
                # is a C-contiguous array (decided on the C++ side in props/recxx.h_write_binary)
                raise ContractViolation("a non-contiguous array is handed to Records::Write, which reads PyArray_DATA as a dense buffer of nrows*rowsize bytes")
            data = obj.reshape(-1) if obj.ndim != 1 else obj
            if self.f.dtype is None:
                self.f.dtype = data.dtype
            # rows are appended at the end of the file, whatever was read before
            self.f.chunks.append(data.copy())
            self.f.log.append(("rows", data.size))

        # ---- reading
        def _readable(self):
            if self.closed:
                raise RuntimeError("file is closed")
            if self.mode[0] != "r" and "+" not in self.mode:
                raise RuntimeError("File is not open for reading")

        def read_sfile_header(self):
            self._readable()
            # the C++ reader reports the position in the file: a count of bytes, not of characters
            return self.f.header, len(self.f.header.encode("utf-8"))

        def _put(self, dst, i, src, r):
            """one cell of one row: a binary file hands over the stored bytes as they are (whatever byte order the
            reader was told), a text file the parsed value"""
            if self.f.delim is None and isinstance(dst, symnp.SArr) and isinstance(src, symnp.SArr):
                dst._check_writable()
                dst.a[i] = src.a[r]
            else:
                dst[i] = src[r]

        def _table(self):
            t = self.f.table()
            if t is None:
                raise RuntimeError("Error reading: file has no rows")
            want = len(self.f.header.encode("utf-8"))
            # (offset 0 on a file with a header is how the harnesses of the low-level reader say "rows only")
            if self.f.header and not symx.is_sym(self.offset) and int(self.offset) not in (0, want):
                raise ContractViolation("rows are read from byte offset %d although the header ends at byte %d" % (int(self.offset), want))
            return t

        def read_columns(self, data, colnums, rows):
            self._readable()
            t = self._table()
            n = self.nrows
            names = list(self.dtype.names)
            if colnums is None:
                cols = list(range(len(names)))
            else:
                cols = [int(c) for c in colnums.tolist()]
            if any(b <= a for a, b in zip(cols, cols[1:])) or any(c < 0 or c >= len(names) for c in cols):
                raise RuntimeError("column numbers must be sorted, unique and in range")
            if rows is None:
                rws = list(range(n))
            else:
                rws = [int(r) for r in rows.tolist()]
            if any(b <= a for a, b in zip(rws, rws[1:])):
                raise RuntimeError("rows must be sorted and unique (the reader only moves forward)")
            if any(r < 0 or r >= n or r >= t.size for r in rws):
                raise RuntimeError("Error reading row: beyond the end of the file")
            if data.size != len(rws):
                raise RuntimeError("output array has %d rows, %d requested" % (data.size, len(rws)))
            if list(data.dtype.names) != [names[c] for c in cols]:
                raise RuntimeError("output array fields do not match the requested columns")
            for c in cols:
                nm = names[c]
                for i, r in enumerate(rws):
                    self._put(data[nm], i, t[nm], r)
            return None

        def read_binary_slice(self, data, start, stop, step):
            self._readable()
            if self.delim is not None:
                raise RuntimeError("file is not binary")
            n = self.nrows
            if start < 0:
                raise RuntimeError("Requested first row < 0")
            if stop > n:
                raise RuntimeError("Requested slice beyond declared size")
            if step <= 0:
                raise RuntimeError("Requested step must be > 0")
            rws = list(range(start, stop, step))
            if data.size != len(rws):
                raise RuntimeError("output array has %d rows, slice has %d" % (data.size, len(rws)))
            if not rws:
                return None
            t = self._table()
            for nm in self.dtype.names:
                for i, r in enumerate(rws):
                    self._put(data[nm], i, t[nm], r)
            return None

        def close(self):
            self.closed = True

    class Mod(object):
        pass
    Mod.Records = Records
    return Mod
