"""poly -- polynomial normal forms for z3 real terms.

Equalities between polynomial expressions modulo the side relations a path has collected
(s^2 + c^2 = 1 for every angle pair, r^2 = t for every square-root witness, declared unit
vectors, definitions v = expr) are decided by rewriting both sides to a normal form:
every relation is oriented as  lead^2 -> polynomial  (or  var -> polynomial  for
definitions); because the leading variables are distinct the rewriting is confluent
(the relations form a Groebner basis w.r.t. a suitable order), so equal normal forms
mean the identity holds in every model of the relations.  Used as the "term identity"
tier in front of the SMT query -- a failed comparison proves nothing and the solver is
asked.

Polynomials: dict {monomial: Fraction}, monomial = tuple of (var, exp) sorted by var.
Non-polynomial subterms (if-then-else, division by a non-constant, uninterpreted
functions, to_int) are opaque variables named by their s-expression.
"""
import fractions

import z3

Fr = fractions.Fraction
MAX_TERMS = 20000


class TooBig(Exception):
    pass


def const(c):
    c = Fr(c)
    return {(): c} if c else {}


def var(name):
    return {((name, 1),): Fr(1)}


def add(p, q, k=1):
    r = dict(p)
    for m, c in q.items():
        v = r.get(m, 0) + k * c
        if v:
            r[m] = v
        else:
            r.pop(m, None)
    return r


def _mmul(a, b):
    if not a:
        return b
    if not b:
        return a
    d = dict(a)
    for v, e in b:
        d[v] = d.get(v, 0) + e
    return tuple(sorted(d.items()))


def mul(p, q):
    if len(p) * len(q) > MAX_TERMS * 4:
        raise TooBig()
    r = {}
    for m1, c1 in p.items():
        for m2, c2 in q.items():
            m = _mmul(m1, m2)
            v = r.get(m, 0) + c1 * c2
            if v:
                r[m] = v
            else:
                r.pop(m, None)
    if len(r) > MAX_TERMS:
        raise TooBig()
    return r


def power(p, n):
    r = const(1)
    for _ in range(n):
        r = mul(r, p)
    return r


def from_term(t, opaque, defs=None, depth=0):
    """polynomial of a z3 arithmetic term; opaque: dict sexpr -> name (filled in)"""
    if z3.is_rational_value(t):
        return const(Fr(t.numerator_as_long(), t.denominator_as_long()))
    if z3.is_int_value(t):
        return const(t.as_long())
    if z3.is_algebraic_value(t):
        raise TooBig()
    k = t.decl().kind() if z3.is_app(t) else None
    ch = t.children() if z3.is_app(t) else []
    if k == z3.Z3_OP_ADD:
        r = {}
        for c in ch:
            r = add(r, from_term(c, opaque, defs, depth + 1))
        return r
    if k == z3.Z3_OP_SUB:
        r = from_term(ch[0], opaque, defs, depth + 1)
        for c in ch[1:]:
            r = add(r, from_term(c, opaque, defs, depth + 1), -1)
        return r
    if k == z3.Z3_OP_UMINUS:
        return add({}, from_term(ch[0], opaque, defs, depth + 1), -1)
    if k == z3.Z3_OP_MUL:
        r = const(1)
        for c in ch:
            r = mul(r, from_term(c, opaque, defs, depth + 1))
        return r
    if k == z3.Z3_OP_POWER:
        e = z3.simplify(ch[1])
        if z3.is_int_value(e) or (z3.is_rational_value(e) and e.denominator_as_long() == 1):
            n = e.as_long() if z3.is_int_value(e) else e.numerator_as_long()
            if 0 <= n <= 12:
                return power(from_term(ch[0], opaque, defs, depth + 1), n)
    if k == z3.Z3_OP_DIV:
        d = z3.simplify(ch[1])
        if z3.is_rational_value(d) and d.numerator_as_long() != 0:
            f = Fr(d.denominator_as_long(), d.numerator_as_long())
            return {m: c * f for m, c in from_term(ch[0], opaque, defs, depth + 1).items()}
        pb = from_term(ch[1], opaque, defs, depth + 1)
        if len(pb) == 1:
            (mb, cb), = pb.items()
            if mb and cb:
                # one atom per value: keyed by (numerator / coefficient, denominator monomial), not by spelling
                pa = from_term(ch[0], opaque, defs, depth + 1)
                num = {m: c / cb for m, c in pa.items()}
                key = "quot:" + repr((sorted(num.items()), mb))
                name = opaque.get(key)
                if name is None:
                    name = opaque[key] = "quo#%d" % len(opaque)
                    opaque.setdefault("__dyn__", []).append(((name,) + tuple(v for v, e in mb for _ in range(e)), num))
                return var(name)
    if k == z3.Z3_OP_TO_REAL:
        return from_term(ch[0], opaque, defs, depth + 1)
    if k == z3.Z3_OP_UNINTERPRETED and not ch:
        return var(t.decl().name())
    key = t.sexpr()
    name = opaque.get(key)
    if name is None:
        name = opaque[key] = "opq#%d" % len(opaque)
    return var(name)


def _rank(name):
    for part in name.split("!")[1:]:
        if part.isdigit():
            return int(part)
    return -1


def reduce(p, rules, limit=400):
    """rewrite with rules {var: (power, polynomial)}: var^power -> polynomial, and product
    rules {(v1, v2): polynomial}: v1*v2 -> polynomial"""
    prules = {k: r for k, r in rules.items() if isinstance(k, tuple)}
    den_vars = {v for k in prules if any(x.startswith("quo#") for x in k) for v in k if not v.startswith("quo#")}
    for _ in range(limit):
        changed = False
        out = {}
        for m, c in p.items():
            hit = None
            # a quotient q = a/b is eliminated through q*b -> a before b's own power rule can
            # take b away from it
            quo_first = prules and any(v.startswith("quo#") for v, _ in m)
            if not quo_first:
                later = None
                for i, (v, e) in enumerate(m):
                    r = rules.get(v)
                    if r is not None and e >= r[0]:
                        if v in den_vars:
                            # a denominator of some quotient: keep it until the quotient shows up;
                            # among those, the most recently created witness first (its radicand can
                            # only mention older ones)
                            if later is None or _rank(v) > _rank(later[1]):
                                later = (i, v, e, r)
                            continue
                        hit = (i, v, e, r)
                        break
                if hit is None:
                    hit = later
            if hit is None and prules:
                names = dict(m)
                for vs, rp in prules.items():
                    if all(v in names for v in vs):
                        rest = tuple((v, e - 1) if v in vs else (v, e) for v, e in m)
                        rest = tuple((v, e) for v, e in rest if e)
                        changed = True
                        for m2, c2 in rp.items():
                            mm = _mmul(rest, m2)
                            val = out.get(mm, 0) + c * c2
                            if val:
                                out[mm] = val
                            else:
                                out.pop(mm, None)
                        hit = "done"
                        break
                if hit == "done":
                    continue
            if hit is None and quo_first:
                for i, (v, e) in enumerate(m):
                    r = rules.get(v)
                    if r is not None and e >= r[0]:
                        hit = (i, v, e, r)
                        break
            if hit is None:
                out[m] = out.get(m, 0) + c
                if not out[m]:
                    del out[m]
                continue
            changed = True
            i, v, e, (pw, rp) = hit
            rest = m[:i] + (((v, e - pw),) if e - pw else ()) + m[i + 1:]
            for m2, c2 in rp.items():
                mm = _mmul(rest, m2)
                val = out.get(mm, 0) + c * c2
                if val:
                    out[mm] = val
                else:
                    out.pop(mm, None)
            if len(out) > MAX_TERMS:
                raise TooBig()
        p = out
        if not changed:
            return p
    raise TooBig()


_CACHE = {}


def build_rules(rules_terms, opaque):
    """rules are only ever appended on a path: cache the normalised set per list and length"""
    key = (id(rules_terms), len(rules_terms))
    hit = _CACHE.get(key)
    if hit is not None and hit[0] is rules_terms:
        opaque.update(hit[1])
        return dict(hit[2])
    rules = _build_rules(rules_terms, opaque)
    if len(_CACHE) > 64:
        _CACHE.clear()
    _CACHE[key] = (rules_terms, dict(opaque), dict(rules))
    return rules


def _build_rules(rules_terms, opaque):
    rules = {}
    for v, pw, rt in rules_terms:
        if isinstance(v, tuple):
            rules[tuple(x.decl().name() if not isinstance(x, str) else x for x in v)] = from_term(rt, opaque)
        elif z3.is_const(v) and v.decl().kind() == z3.Z3_OP_UNINTERPRETED:
            rules[v.decl().name()] = (pw, from_term(rt, opaque))
        else:
            # a non-variable term (e.g. a clipping if-then-else assumed inactive): its opaque name
            pv = from_term(v, opaque)
            if len(pv) == 1 and list(pv.values())[0] == 1 and len(list(pv)[0]) == 1:
                rules[list(pv)[0][0][0]] = (pw, from_term(rt, opaque))
    # relations may mention each other (a witness whose radicand contains pairs): normalise them first
    for _ in range(3):
        for name in list(rules):
            others = {k: r for k, r in rules.items() if k != name}
            if isinstance(name, tuple):
                rules[name] = reduce(rules[name], others)
            else:
                pw, rp = rules[name]
                rules[name] = (pw, reduce(rp, others))
    return rules


def _cheap(t, cap=250):
    """small and free of divisions by non-constants"""
    seen = set()
    stack = [t]
    while stack:
        e = stack.pop()
        i = e.get_id()
        if i in seen:
            continue
        seen.add(i)
        if len(seen) > cap:
            return False
        if z3.is_app_of(e, z3.Z3_OP_DIV) and not z3.is_rational_value(z3.simplify(e.children()[1])):
            return False
        stack.extend(e.children())
    return True


def normal_form_key(t, rules_terms):
    """a hashable normal form of t modulo the relations, or None"""
    if not _cheap(t):
        return None
    try:
        opaque = {}
        rules = build_rules(rules_terms, opaque)
        p = reduce(from_term(t, opaque), rules)
        if any(k.startswith("opq#") or k.startswith("quo#") for m in p for k, _ in m):
            return None
        return tuple(sorted((m, c.numerator, c.denominator) for m, c in p.items()))
    except (TooBig, RecursionError):
        return None


def equal(ta, tb, rules_terms):
    """True when ta - tb normalises to 0 under the relations; rules_terms: list of
    (z3 var, power, z3 term)"""
    try:
        opaque = {}
        rules = {}
        rules = build_rules(rules_terms, opaque)
        d = add(from_term(ta, opaque), from_term(tb, opaque), -1)
        for vs, rp in opaque.get("__dyn__", []):
            if len(set(vs)) == len(vs):
                rules[vs] = reduce(rp, rules)
        d = reduce(d, rules)
        return not d
    except (TooBig, RecursionError):
        return False


def difference(ta, tb, rules_terms):
    """(normal form of ta - tb, rules) or None when it cannot be computed"""
    try:
        opaque = {}
        rules = build_rules(rules_terms, opaque)
        d = add(from_term(ta, opaque), from_term(tb, opaque), -1)
        for vs, rp in opaque.get("__dyn__", []):
            if len(set(vs)) == len(vs):
                rules[vs] = reduce(rp, rules)
        return reduce(d, rules), rules
    except (TooBig, RecursionError):
        return None


def to_term(p):
    t = z3.RealVal(0)
    for m, c in p.items():
        mt = z3.RealVal(c)
        for v, e in m:
            x = z3.Real(v)
            for _ in range(e):
                mt = mt * x
        t = t + mt
    return t


def nonzero_witness(d, rules, timeout_ms=4000, max_rules=40):
    """a model of the relations touching d in which d != 0, or None"""
    names = set(v for m in d for v, _ in m)
    cons = []
    seen = set()
    frontier = set(names)
    while frontier and len(cons) < max_rules:
        v = frontier.pop()
        seen.add(v)
        for key, r in rules.items():
            if isinstance(key, tuple):
                if v in key and key not in seen:
                    seen.add(key)
                    lhs = z3.RealVal(1)
                    for k in key:
                        lhs = lhs * z3.Real(k)
                    cons.append(lhs == to_term(r))
                    frontier |= (set(key) | set(x for m in r for x, _ in m)) - seen
            elif key == v:
                pw, rp = r
                lhs = z3.RealVal(1)
                for _ in range(pw):
                    lhs = lhs * z3.Real(v)
                cons.append(lhs == to_term(rp))
                frontier |= set(x for m in rp for x, _ in m) - seen
    s = z3.Solver()
    s.set("timeout", timeout_ms)
    for c in cons:
        s.add(c)
    s.add(to_term(d) != 0)
    if str(s.check()) == "sat":
        mm = s.model()
        return {dd.name(): mm[dd] for dd in mm.decls() if dd.arity() == 0}
    return None
