"""castxx -- the C++ subset of records.cpp on top of vf.cast.

clang's JSON AST is dumped with -ast-dump-filter=<Class> (libstdc++ stays out of the dump),
methods are interpreted with `this` bound to a Struct of the data members the harness sets
up.  Library classes are modelled, not interpreted: std::string (a byte buffer),
std::stringstream (a sink: error messages are not the subject), std::vector (a list),
std::runtime_error (a thrown CError).  stdio is an abstract FILE: a list of byte cells
(symbolic or tokens) and a position, with every operation logged.
"""
import hashlib
import json
import os
import subprocess
import tempfile

from . import cast, symx, symnp
from .cast import (Interp, Ptr, ListRegion, Struct, StructRegion, ElemLV, FieldLV, Var, CError, FuncRef, TU, as_num,
                   truth, NONE_PTR)
from .symx import Unsupported, SInt, is_sym

_CACHE = {}


def parse_cxx(relpath, flt):
    path = os.path.join(cast.repo(), relpath)
    src = open(path, "rb").read()
    hdrs = b""
    for h in ("records.hpp",):
        hp = os.path.join(os.path.dirname(path), h)
        if os.path.exists(hp):
            hdrs += open(hp, "rb").read()
    key = (path, hashlib.sha1(src + hdrs).hexdigest(), flt)
    if key in _CACHE:
        return _CACHE[key]
    cmd = ["clang++", "-std=c++11", "-Xclang", "-ast-dump=json", "-Xclang", "-ast-dump-filter=" + flt,
           "-fsyntax-only", "-w", "-I", cast.STUBS, "-I", os.path.dirname(path), path]
    with tempfile.TemporaryFile() as out:
        p = subprocess.run(cmd, stdout=out, stderr=subprocess.PIPE)
        out.seek(0)
        data = out.read().decode()
    if not data.strip():
        raise RuntimeError("clang++ produced no AST for %s: %s" % (relpath, p.stderr.decode()[-400:]))
    dec = json.JSONDecoder()
    i = 0
    tu = TU(relpath, hashlib.sha1(src).hexdigest(), p.stderr.decode(errors="replace"))
    while i < len(data):
        while i < len(data) and data[i].isspace():
            i += 1
        if i >= len(data):
            break
        obj, i = dec.raw_decode(data, i)
        k = obj.get("kind")
        if k in ("CXXMethodDecl", "FunctionDecl", "CXXConstructorDecl") and any(c.get("kind") == "CompoundStmt" for c in obj.get("inner", [])):
            tu.functions[obj.get("name")] = obj
        elif k == "CXXRecordDecl":
            tu.records[obj.get("name")] = [(f["name"], f["type"]["qualType"]) for f in obj.get("inner", []) if f.get("kind") == "FieldDecl"]
            for f in obj.get("inner", []):
                if f.get("kind") == "VarDecl" and f.get("name"):
                    tu.globals[f["name"]] = f          # static const members
    _CACHE[key] = tu
    return tu


# ---- modelled library objects -------------------------------------------------

class CppString(object):
    def __init__(self, cells=None):
        self.buf = ListRegion(list(cells or []), "std::string")

    @classmethod
    def of(cls, v):
        if isinstance(v, CppString):
            return CppString(list(v.buf.cells))
        if isinstance(v, str):
            return cls([ord(c) for c in v])
        if isinstance(v, (list, tuple)):
            return cls(list(v))
        return cls([])

    def m_c_str(self):
        return Ptr(ListRegion(list(self.buf.cells) + [0], "c_str"), 0)

    def m_resize(self, n):
        n = int(as_num(n))
        c = self.buf.cells
        self.buf.cells = (c + [0] * n)[:n]

    def m_size(self):
        return len(self.buf.cells)

    m_length = m_size


class Sink(object):
    """std::stringstream used to build messages"""

    def m_str(self):
        return CppString.of("<message>")


class CFile(object):
    """abstract FILE"""

    def __init__(self, cells, pos=0):
        self.cells = list(cells)
        self.pos = pos
        self.log = []

    def size(self):
        return len(self.cells)


EOF_ = -1


def _num20(n):
    """the 20 characters of %20ld for a (possibly symbolic) number, as opaque cells"""
    return [("num20", n, i) for i in range(20)]


class CxxInterp(Interp):
    def __init__(self, tus, this_fields, intrinsics=None, unwind=400):
        Interp.__init__(self, tus, intrinsics=intrinsics, unwind=unwind)
        self.this = Struct("Records", dict(this_fields))
        self.intr.update(STDIO)

    def method(self, name, *args):
        return self.call(name, *args)

    # ---- expressions
    def e_CXXThisExpr(self, n, env):
        return Ptr(StructRegion(self.this), 0)

    def e_CXXDefaultArgExpr(self, n, env):
        inner = [c for c in n.get("inner", []) if "kind" in c]
        if inner:
            return self.eval(inner[0], env)
        raise Unsupported("default argument without expression")

    def e_CXXThrowExpr(self, n, env):
        raise CError("C++ exception thrown")

    def e_CXXConstructExpr(self, n, env):
        qt = n["type"]["qualType"]
        args = [self.eval(a, env) for a in n.get("inner", []) if "kind" in a]
        if "stringstream" in qt:
            return Sink()
        if "runtime_error" in qt:
            return ("runtime_error",)
        if "string" in qt:
            if not args:
                return CppString()
            a = args[0]
            if isinstance(a, Ptr):
                cells = []
                for c in a.region.cells[a.off:]:
                    if not is_sym(c) and not isinstance(c, tuple) and c == 0:
                        break
                    cells.append(c)
                return CppString(cells)
            return CppString.of(a)
        if len(args) == 1:
            return args[0]
        raise Unsupported("construction of %s" % qt)

    def _method_target(self, callee, env):
        """(object or None for this, method name)"""
        if callee.get("kind") != "MemberExpr":
            raise Unsupported("member call through %s" % callee.get("kind"))
        name = callee["name"]
        base = callee["inner"][0]
        b = base
        while b.get("kind") in ("ImplicitCastExpr", "ParenExpr") and b.get("inner"):
            b = b["inner"][0]
        if b.get("kind") == "CXXThisExpr":
            return None, name
        obj = self.eval(base, env)
        if isinstance(obj, Ptr) and isinstance(obj.region, StructRegion) and obj.region.st is self.this:
            return None, name
        return obj, name

    def e_CXXMemberCallExpr(self, n, env):
        callee = n["inner"][0]
        obj, name = self._method_target(callee, env)
        args = [self.eval(a, env) for a in n["inner"][1:]]
        if obj is None:
            self.calls.append(name)
            if name in self.intr:
                return self.intr[name](self, *args)
            if name in self.funcs:
                return self.call(name, *args)
            raise Unsupported("call to Records::%s (no body)" % name)
        m = getattr(obj, "m_" + name, None)
        if m is None:
            if isinstance(obj, list) and name == "size":
                return len(obj)
            if isinstance(obj, ListRegion) and name == "size":
                return len(obj.cells)
            raise Unsupported("method %s on %s" % (name, type(obj).__name__))
        return m(*args)

    def _op_parts(self, n, env):
        parts = n["inner"]
        f = parts[0]
        while f.get("kind") in ("ImplicitCastExpr",) and f.get("inner"):
            f = f["inner"][0]
        op = f.get("referencedDecl", {}).get("name", "")
        return op, parts[1:]

    def e_CXXOperatorCallExpr(self, n, env):
        op, operands = self._op_parts(n, env)
        if op == "operator[]":
            return self.lvalue(n, env).get()
        if op == "operator<<":
            a = self.eval(operands[0], env)
            self.eval(operands[1], env)
            return a
        if op == "operator+":
            a = self.eval(operands[0], env)
            b = self.eval(operands[1], env)
            return CppString.of("<message>")
        if op == "operator=":
            v = self.eval(operands[1], env)
            lv = self.lvalue(operands[0], env)
            lv.set(CppString.of(v) if isinstance(v, (CppString, str)) else v)
            return v
        if op in ("operator==", "operator!="):
            a = self.eval(operands[0], env)
            b = self.eval(operands[1], env)
            ca = a.buf.cells if isinstance(a, CppString) else [ord(c) for c in a]
            cb = b.buf.cells if isinstance(b, CppString) else [ord(c) for c in b]
            same = ca == cb
            return same if op == "operator==" else not same
        raise Unsupported("C++ operator %s" % op)

    def lvalue(self, n, env):
        k = n["kind"]
        if k == "CXXOperatorCallExpr":
            op, operands = self._op_parts(n, env)
            if op == "operator[]":
                base = self.eval(operands[0], env)
                idx = as_num(self.eval(operands[1], env))
                if isinstance(base, CppString):
                    return ElemLV(self, base.buf, idx)
                if isinstance(base, ListRegion):
                    return ElemLV(self, base, idx)
                if isinstance(base, list):
                    return ElemLV(self, ListRegion(base, "vector"), idx)
                raise Unsupported("operator[] on %s" % type(base).__name__)
        if k in ("MaterializeTemporaryExpr", "ExprWithCleanups", "CXXBindTemporaryExpr"):
            v = self.eval(n["inner"][0], env)
            return Var(v, "tmp")
        if k == "CXXThisExpr":
            return Var(self.e_CXXThisExpr(n, env), "this")
        return Interp.lvalue(self, n, env)


# ---- stdio over CFile -----------------------------------------------------------

def _fp(v):
    if not isinstance(v, CFile):
        raise CError("stdio call on a NULL / non-FILE pointer")
    return v


def i_rewind(I, fp):
    f = _fp(fp)
    f.pos = 0
    f.log.append(("seek", 0))


def i_fseek(I, fp, off, whence):
    f = _fp(fp)
    off = as_num(off)
    whence = int(as_num(whence))
    if is_sym(off):
        off = int(off)
    if whence == 0:
        p = off
    elif whence == 1:
        p = f.pos + off
    elif whence == 2:
        p = f.size() + off
    else:
        raise CError("bad whence")
    if p < 0:
        return -1
    f.pos = p
    f.log.append(("seek", p))
    return 0


def i_ftell(I, fp):
    return _fp(fp).pos


def i_fgetc(I, fp):
    f = _fp(fp)
    if f.pos >= f.size():
        return EOF_
    c = f.cells[f.pos]
    f.pos += 1
    f.log.append(("getc", f.pos - 1))
    return c


def _store_cells(I, ptr, cells):
    if not isinstance(ptr, Ptr):
        raise CError("fread into a NULL pointer")
    for i, c in enumerate(cells):
        ptr.region.store(ptr.off + i, c)


def i_fread(I, ptr, size, count, fp):
    f = _fp(fp)
    size, count = int(as_num(size)), int(as_num(count))
    avail = (f.size() - f.pos) // size if size else 0
    n = min(count, max(avail, 0))
    cells = f.cells[f.pos:f.pos + n * size]
    f.log.append(("read", f.pos, n * size))
    _store_cells(I, ptr, cells)
    f.pos += n * size
    return n


def i_fwrite(I, ptr, size, count, fp):
    f = _fp(fp)
    size, count = int(as_num(size)), int(as_num(count))
    if not isinstance(ptr, Ptr):
        raise CError("fwrite from a NULL pointer")
    cells = [ptr.region.load(ptr.off + i) for i in range(size * count)]
    _put(f, cells)
    return count


def _put(f, cells):
    f.log.append(("write", f.pos, len(cells), f.size()))
    if f.pos > f.size():
        f.cells.extend([0] * (f.pos - f.size()))
    f.cells[f.pos:f.pos + len(cells)] = cells
    f.pos += len(cells)


def i_fputc(I, c, fp):
    _put(_fp(fp), [as_num(c)])
    return c


def i_fprintf(I, fp, fmt, *args):
    """only what the record files use: %s, %%, %20ld, %ld, literal bytes.  The format may be
    a symbolic byte buffer (when the code passes data as the format)"""
    f = _fp(fp)
    if isinstance(fmt, str):
        fc = [ord(c) for c in fmt]
    elif isinstance(fmt, Ptr):
        fc = []
        for c in fmt.region.cells[fmt.off:]:
            if not is_sym(c) and not isinstance(c, tuple) and c == 0:
                break
            fc.append(c)
    else:
        raise CError("fprintf with a NULL format")
    args = list(args)
    out = []
    i = 0
    while i < len(fc):
        c = fc[i]
        is_pct = bool(c == 37) if is_sym(c) else (c == 37)
        if not is_pct:
            out.append(c)
            i += 1
            continue
        # a conversion specification
        j = i + 1
        spec = []
        while j < len(fc):
            d = fc[j]
            if is_sym(d):
                d = int(d)          # forks over the possible bytes
            spec.append(d)
            j += 1
            if chr(d) in "sdiuxXcfgeE%":
                break
        s = "".join(chr(d) for d in spec)
        if s == "%":
            out.append(37)
        elif s == "s":
            if not args:
                raise CError("fprintf: %s without an argument (undefined behaviour)")
            a = args.pop(0)
            if isinstance(a, Ptr):
                for cc in a.region.cells[a.off:]:
                    if not is_sym(cc) and not isinstance(cc, tuple) and cc == 0:
                        break
                    out.append(cc)
            elif isinstance(a, str):
                out.extend(ord(ch) for ch in a)
            else:
                raise CError("fprintf: %s with a non-string argument")
        elif s in ("20ld", "20d", "20lld"):
            if not args:
                raise CError("fprintf: conversion without an argument (undefined behaviour)")
            out.extend(_num20(as_num(args.pop(0))))
        else:
            if not args:
                raise CError("fprintf: conversion %%%s without an argument (undefined behaviour)" % s)
            out.append(("fmt", s, as_num(args.pop(0))))
        i = j
    _put(f, out)
    return len(out)


def i_strncmp(I, a, b, n):
    n = int(as_num(n))

    def cells(x):
        if isinstance(x, str):
            return [ord(c) for c in x] + [0]
        if isinstance(x, Ptr):
            return x.region.cells[x.off:]
        if isinstance(x, ListRegion):
            return x.cells
        raise CError("strncmp on a NULL pointer")
    ca, cb = cells(a), cells(b)
    eqs = []
    for i in range(n):
        x, y = ca[i], cb[i]
        eqs.append(x == y)
        if not is_sym(x) and not is_sym(y) and x == y == 0:
            break
    if all(isinstance(e, bool) for e in eqs):
        return 0 if all(eqs) else 1
    return symx.sym_ite(symx.sym_and(*eqs), 0, 1)


def i_Py_BuildValue(I, fmt, *args):
    out = []
    for ch, a in zip(fmt, args):
        if ch == "s":
            cells = []
            if isinstance(a, Ptr):
                for c in a.region.cells[a.off:]:
                    if not is_sym(c) and not isinstance(c, tuple) and c == 0:
                        break
                    cells.append(c)
            out.append(cells)
        else:
            out.append(as_num(a))
    return tuple(out)


STDIO = {
    "rewind": i_rewind, "fseek": i_fseek, "fseeko": i_fseek, "myfseeko": i_fseek, "ftell": i_ftell, "ftello": i_ftell,
    "fgetc": i_fgetc, "getc": i_fgetc, "fread": i_fread, "fwrite": i_fwrite, "fputc": i_fputc, "fprintf": i_fprintf,
    "strncmp": i_strncmp, "Py_BuildValue": i_Py_BuildValue, "fflush": lambda I, fp: 0,
}
