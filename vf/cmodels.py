"""cmodels -- Python-callable models of esutil's C extension modules, each call being a
vf.cast interpretation of the real C function body parsed from the current source."""
from . import cast, symnp, symx

_cache = {}


def _find(node, kind):
    out = []
    stack = [node]
    while stack:
        n = stack.pop()
        if n.get("kind") == kind:
            out.append(n)
        stack.extend(n.get("inner", []))
    return out


def method_table(tu, varname):
    """python name -> C function name from a PyMethodDef[] initialiser"""
    decl = tu.globals.get(varname)
    if decl is None:
        raise symx.Unsupported("no method table %s" % varname)
    table = {}
    top = [c for c in decl.get("inner", []) if c.get("kind") == "InitListExpr"]
    if not top:
        raise symx.Unsupported("method table %s has no initialiser" % varname)
    for entry in top[0].get("inner", []):
        if entry.get("kind") != "InitListExpr":
            continue
        strs = _find(entry, "StringLiteral")
        refs = [r for r in _find(entry, "DeclRefExpr") if r["referencedDecl"]["kind"] == "FunctionDecl"]
        if strs and refs:
            # the first string literal in source order is the method name
            name = None
            for c in entry.get("inner", []):
                s = _find(c, "StringLiteral")
                if s:
                    name = s[0]["value"].strip('"')
                    break
            table[name] = refs[0]["referencedDecl"]["name"]
    return table


class CModule(object):
    def __init__(self, interp_factory):
        self._mk = interp_factory


def chist_module():
    tu = cast.parse_tu("esutil/stat/chist_pywrap.c")
    table = method_table(tu, "chist_methods")

    class M(object):
        TU = tu

        @staticmethod
        def chist(*args):
            I = cast.Interp([tu])
            r = I.call(table["chist"], None, tuple(args))
            M.last = I
            return cast.py_result(r)
    return M


def cgauleg_module():
    tu = cast.parse_tu("esutil/integrate/cgauleg_pywrap.c")
    table = method_table(tu, "cgauleg_methods")

    class M(object):
        TU = tu

        @staticmethod
        def cgauleg(*args):
            I = cast.Interp([tu])
            r = I.call(table["cgauleg"], None, tuple(args))
            M.last = I
            return cast.py_result(r)
    return M


def cosmolib_module(gauleg_tables=None, extra_intrinsics=None):
    """model of esutil.cosmology._cosmolib: class cosmo whose methods are the C wrappers.
    gauleg_tables: optional {npts: (x list, w list)} to replace gauleg's output by given
    (e.g. symbolic) tables -- used to compare against reference formulas with the
    quadrature rule abstract."""
    tu_w = cast.parse_tu("esutil/cosmology/cosmolib_pywrap.c")
    tu_l = cast.parse_tu("esutil/cosmology/cosmolib.c")
    table = method_table(tu_w, "PyCosmoObject_methods")

    intr = {}
    if gauleg_tables is not None:
        def i_gauleg(I, x1, x2, npts, xp, wp):
            xs, ws = gauleg_tables[npts]
            for i in range(npts):
                xp.region.store(xp.off + i, xs[i])
                wp.region.store(wp.off + i, ws[i])
        intr["gauleg"] = i_gauleg
    if extra_intrinsics:
        intr.update(extra_intrinsics)

    class cosmo(object):
        TUS = (tu_w, tu_l)
        METHODS = table

        def __init__(self, *args):
            self._I = cast.Interp([tu_w, tu_l], intrinsics=intr)
            self._self = cast.Struct("PyCosmoObject", {"cosmo": None, "ob_base": None})
            rc = self._I.call("PyCosmoObject_init", cast.Ptr(cast.StructRegion(self._self), 0), tuple(args), None)
            if rc != 0:
                raise MemoryError("cosmo init failed")

        def __getattr__(self, name):
            if name.startswith("_") or name not in table:
                raise AttributeError(name)
            cname = table[name]
            fn = self._I.funcs[cname]
            nparams = len([c for c in fn["inner"] if c.get("kind") == "ParmVarDecl"])

            def method(*args):
                selfp = cast.Ptr(cast.StructRegion(self._self), 0)
                if nparams == 1:
                    if args:
                        raise TypeError("%s() takes no arguments" % name)
                    r = self._I.call(cname, selfp)
                else:
                    r = self._I.call(cname, selfp, tuple(args))
                return cast.py_result(r)
            return method

    class M(object):
        pass
    M.cosmo = cosmo
    return M
