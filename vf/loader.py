"""loader -- executes esutil's *current* source text under the shims.

load(relpath) reads $VERIF_REPO/<relpath> (default /repo), applies one AST rewrite
("..." % x  ->  opaque formatting, so messages never concretise symbolic values) and
exec()s the whole module in a namespace whose builtins import `numpy` as vf.symnp and
replace int/float/isinstance/... by symbol-aware versions.  Function bodies are the
repository's own.
"""
import ast
import builtins
import hashlib
import os
import sys
import types
import fractions

from . import symx, symnp
from .symx import Sym, SInt, SReal, SBool, Unsupported

REPO = os.environ.get("VERIF_REPO", "/repo")

_loaded_sources = {}     # relpath -> sha1 (for evidence)
_CODE_CACHE = {}


def repo():
    return os.environ.get("VERIF_REPO", "/repo")


def real_repo():
    """directory from which the *real* esutil is imported for conformance passes: a fresh
    scratch build when the driver made one, else the repository directory"""
    return os.environ.get("VERIF_REAL_ESUTIL") or repo()


class Opaque(str):
    """result of formatting something symbolic"""


def __fmt__(fmt, args):
    try:
        def has_sym(x):
            if isinstance(x, (Sym, symnp.SArr)):
                return True
            if isinstance(x, (tuple, list)):
                return any(has_sym(y) for y in x)
            if isinstance(x, dict):
                return any(has_sym(y) for y in x.values())
            return False
        if has_sym(args):
            return Opaque(fmt)
        return fmt % args
    except symx.Unsupported:
        return Opaque(fmt)


class _FmtRewrite(ast.NodeTransformer):
    def visit_BinOp(self, node):
        self.generic_visit(node)
        if isinstance(node.op, ast.Mod):
            left = node.left
            is_str = (isinstance(left, ast.Constant) and isinstance(left.value, str)) or \
                isinstance(left, ast.JoinedStr) or \
                (isinstance(left, ast.Name) and (left.id in ("mess", "message", "msg") or left.id.endswith("fmt")))
            if is_str:
                return ast.copy_location(
                    ast.Call(func=ast.Name(id="__fmt__", ctx=ast.Load()),
                             args=[node.left, node.right], keywords=[]), node)
        return node


# ---- symbol-aware builtins ---------------------------------------------------

def s_int(x=0, *a):
    if isinstance(x, (SInt, SReal, SBool)):
        return symx.to_int_trunc(x)
    if isinstance(x, symnp.SArr):
        return s_int(x.item())
    if isinstance(x, fractions.Fraction):
        return int(x)
    return int(x, *a)


def s_float(x=0.0):
    if isinstance(x, (SInt, SReal, SBool)):
        return symx.to_real(x)
    if isinstance(x, symnp.SArr):
        if x.size != 1:
            raise TypeError("only length-1 arrays can be converted to Python scalars")
        return s_float(x.a.ravel()[0])
    if isinstance(x, fractions.Fraction):
        return x
    return float(x)


def s_bool(x=False):
    return bool(x)


def s_isinstance(obj, cls):
    if isinstance(cls, tuple):
        return any(s_isinstance(obj, c) for c in cls)
    if cls is s_int or cls is int:
        return isinstance(obj, (int, SInt)) and not isinstance(obj, bool) or isinstance(obj, bool)
    if cls is s_float or cls is float:
        return isinstance(obj, (float, SReal, fractions.Fraction))
    if cls is bool or cls is s_bool:
        return isinstance(obj, (bool, SBool))
    if cls is str:
        return isinstance(obj, str) or getattr(obj, "is_abstract_str", False)
    if isinstance(cls, symnp._STy):
        return False
    if cls is symnp.SArr:
        from . import symrec
        return isinstance(obj, (symnp.SArr, symrec.SRec))
    return isinstance(obj, cls)


def s_abs(x):
    return abs(x)


def s_round(x, n=None):
    if isinstance(x, SReal):
        raise Unsupported("round() of a symbolic real")
    return round(x, n) if n is not None else round(x)


def s_min(*a, **k):
    return min(*a, **k)


def s_max(*a, **k):
    return max(*a, **k)


class _MathShim(object):
    """math module over symbolic values"""

    def __init__(self):
        import math
        self._m = math
        self.pi = symnp.pi if not isinstance(symnp.pi, float) else math.pi
        self.e = math.e
        self.inf = math.inf
        self.nan = math.nan

    def sqrt(self, x):
        return symnp.sqrt(x)

    def floor(self, x):
        if isinstance(x, SReal):
            return x.__floor__()
        return self._m.floor(x)

    def ceil(self, x):
        if isinstance(x, SReal):
            return x.__ceil__()
        return self._m.ceil(x)

    def fabs(self, x):
        return abs(x)

    def isnan(self, x):
        return False if isinstance(x, Sym) else self._m.isnan(x)

    def isinf(self, x):
        return False if isinstance(x, Sym) else self._m.isinf(x)

    def __getattr__(self, name):
        f = getattr(self._m, name)
        npf = symnp.__dict__.get({"asin": "arcsin", "acos": "arccos", "atan": "arctan",
                                  "atan2": "arctan2"}.get(name, name))

        def g(*a):
            if any(isinstance(v, Sym) for v in a):
                if npf is None:
                    raise Unsupported("math.%s of a symbolic value" % name)
                return npf(*a)
            return f(*a)
        return g


def make_builtins(overrides=None, importer=None):
    b = dict(vars(builtins))
    b["int"] = s_int
    b["float"] = s_float
    b["isinstance"] = s_isinstance
    b["round"] = s_round
    b["__fmt__"] = __fmt__
    if importer is not None:
        b["__import__"] = importer
    if overrides:
        b.update(overrides)
    return b


class Loader(object):
    """loads esutil modules from source under the shims; one instance per harness run"""

    def __init__(self, np=None, stubs=None, builtin_overrides=None, keep_real=()):
        self.np = np or symnp
        self.stubs = dict(stubs or {})     # dotted module name -> object
        self.mods = {}
        self.builtin_overrides = builtin_overrides or {}
        self.sources = {}
        self.keep_real = set(keep_real)

    # module name (dotted, e.g. 'esutil.stat.util') -> file path
    def _path(self, modname):
        rel = modname.replace(".", "/")
        base = repo()
        for cand in (rel + ".py", rel + "/__init__.py"):
            p = os.path.join(base, cand)
            if os.path.exists(p):
                return p, cand.endswith("__init__.py")
        return None, False

    def _importer(self, pkg):
        def imp(name, globals=None, locals=None, fromlist=(), level=0):
            if level > 0:
                parts = pkg.split(".")
                basepkg = ".".join(parts[:len(parts) - (level - 1)])
                full = basepkg + ("." + name if name else "")
                if not name:
                    # from . import a, b
                    m = types.ModuleType(basepkg)
                    for f in fromlist:
                        sub = self.get(basepkg + "." + f, optional=True)
                        if sub is None:
                            raise ImportError("cannot import name %r (not modelled)" % f)
                        setattr(m, f, sub)
                    return m
                m = self.get(full)
                for f in fromlist or ():
                    if f == "*":
                        continue
                    if not hasattr(m, f):
                        sub = self.get(full + "." + f, optional=True)
                        if sub is None:
                            raise ImportError("cannot import name %r" % f)
                        setattr(m, f, sub)
                return m
            top = name.split(".")[0]
            if not fromlist and "." in name and top in self.stubs:
                return self.stubs[top]          # `import a.b` binds a
            if name in self.stubs:
                return self.stubs[name]
            if top == "numpy":
                if name == "numpy" or not fromlist:
                    return self.np
                obj = self.np
                for part in name.split(".")[1:]:
                    obj = getattr(obj, part)
                return obj
            if top == "math":
                return _MathShim()
            if top == "esutil":
                m = self.get(name)
                if fromlist:
                    for f in fromlist:
                        if f == "*":
                            continue
                        if not hasattr(m, f):
                            sub = self.get(name + "." + f, optional=True)
                            if sub is not None:
                                setattr(m, f, sub)
                    return m
                return self.get("esutil")
            if top == "scipy":
                if name in self.stubs:
                    return self.stubs[name]
                raise ImportError("scipy is not modelled: %s" % name)
            return __import__(name, globals, locals, fromlist, level)
        return imp

    def get(self, modname, optional=False):
        if modname in self.stubs:
            return self.stubs[modname]
        if modname in self.mods:
            return self.mods[modname]
        path, is_pkg = self._path(modname)
        if path is None:
            if optional:
                return None
            raise ImportError("no source for %s under %s" % (modname, repo()))
        if modname == "esutil":
            # top-level package: empty namespace whose attributes are loaded lazily
            m = _LazyPkg(modname, self)
            self.mods[modname] = m
            return m
        src = open(path).read()
        sha = hashlib.sha1(src.encode()).hexdigest()
        self.sources[os.path.relpath(path, repo())] = sha
        code = _CODE_CACHE.get((path, sha))
        if code is None:
            tree = ast.parse(src, path)
            tree = _FmtRewrite().visit(tree)
            ast.fix_missing_locations(tree)
            code = compile(tree, path, "exec")
            _CODE_CACHE[(path, sha)] = code
        m = types.ModuleType(modname)
        pkg = modname if is_pkg else modname.rsplit(".", 1)[0]
        m.__dict__["__builtins__"] = make_builtins(self.builtin_overrides, self._importer(pkg))
        m.__dict__["__name__"] = modname
        m.__dict__["__package__"] = pkg
        m.__dict__["__file__"] = path
        self.mods[modname] = m
        exec(code, m.__dict__)
        return m


class _LazyPkg(types.ModuleType):
    def __init__(self, name, loader):
        types.ModuleType.__init__(self, name)
        self.__dict__["_loader"] = loader

    def __getattr__(self, attr):
        if attr.startswith("__"):
            raise AttributeError(attr)
        m = self._loader.get(self.__name__ + "." + attr, optional=True)
        if m is None:
            raise AttributeError("%s.%s not modelled" % (self.__name__, attr))
        self.__dict__[attr] = m
        return m


def source_span(relpath, name):
    """(first line, last line, sha1) of a top-level def/class or Class.method in the
    current source, for evidence"""
    path = os.path.join(repo(), relpath)
    src = open(path).read()
    tree = ast.parse(src)
    parts = name.split(".")
    body = tree.body
    node = None
    for p in parts:
        node = None
        for n in body:
            if isinstance(n, (ast.FunctionDef, ast.ClassDef)) and n.name == p:
                node = n
                break
        if node is None:
            return None
        body = getattr(node, "body", [])
    seg = ast.get_source_segment(src, node) or ""
    return {"function": "%s:%s" % (relpath, name), "lines": [node.lineno, node.end_lineno],
            "sha1": hashlib.sha1(seg.encode()).hexdigest()[:12]}
