/* stand-in for Python.h: declarations only, so that the macro soup of the C-API
   becomes ordinary CallExprs in clang's AST.  Used by vf/cast.py, never compiled. */
#ifndef VF_STUB_PYTHON_H
#define VF_STUB_PYTHON_H
#include <stdio.h>
#include <stdlib.h>
#include <string.h>
#include <math.h>
#define PY_MAJOR_VERSION 3
typedef long Py_ssize_t;
typedef struct _object { long ob_refcnt; struct _typeobject* ob_type; } PyObject;
typedef struct _typeobject { PyObject ob_base; const char* tp_name; void (*tp_free)(void*); int dummy[64]; } PyTypeObject;
#define PyObject_HEAD PyObject ob_base;
#define PyObject_HEAD_INIT(t) {1, t},
#define PyVarObject_HEAD_INIT(t, s) {1, t},
#define PyModuleDef_HEAD_INIT {1, 0}
typedef PyObject* (*PyCFunction)(PyObject*, PyObject*);
typedef struct { const char* ml_name; PyCFunction ml_meth; int ml_flags; const char* ml_doc; } PyMethodDef;
typedef struct PyModuleDef { PyObject b; const char* m_name; const char* m_doc; Py_ssize_t m_size; PyMethodDef* m_methods; void* a; void* b2; void* c; void* d; } PyModuleDef;
#define METH_VARARGS 1
#define METH_NOARGS 4
#define METH_KEYWORDS 2
#define PyMODINIT_FUNC PyObject*
extern PyObject _Py_NoneStruct;
#define Py_None (&_Py_NoneStruct)
#define Py_RETURN_NONE return Py_None
PyTypeObject* Py_TYPE(void*);
void Py_INCREF(void*); void Py_DECREF(void*); void Py_XDECREF(void*); void Py_XINCREF(void*);
int PyArg_ParseTuple(PyObject*, const char*, ...);
int PyArg_ParseTupleAndKeywords(PyObject*, PyObject*, const char*, char**, ...);
PyObject* Py_BuildValue(const char*, ...);
PyObject* PyTuple_New(Py_ssize_t); int PyTuple_SetItem(PyObject*, Py_ssize_t, PyObject*);
PyObject* PyFloat_FromDouble(double); PyObject* PyLong_FromLong(long); PyObject* PyLong_FromLongLong(long long);
PyObject* PyInt_FromLong(long);
PyObject* PyModule_Create(PyModuleDef*); int PyModule_AddObject(PyObject*, const char*, PyObject*);
int PyType_Ready(PyTypeObject*); PyObject* PyType_GenericNew(PyTypeObject*, PyObject*, PyObject*);
void PyErr_SetString(PyObject*, const char*); PyObject* PyErr_Format(PyObject*, const char*, ...);
extern PyObject* PyExc_MemoryError; extern PyObject* PyExc_ValueError; extern PyObject* PyExc_RuntimeError; extern PyObject* PyExc_IOError; extern PyObject* PyExc_TypeError;
int PyUnicode_Check(PyObject*); int PyBytes_Check(PyObject*); char* PyBytes_AsString(PyObject*);
PyObject* PyObject_CallMethod(PyObject*, const char*, const char*, ...);
PyObject* PyUnicode_AsASCIIString(PyObject*);
PyObject* PyObject_Type(PyObject*); PyObject* PyObject_Repr(PyObject*); PyObject* PyObject_GetAttrString(PyObject*, const char*);
long PyLong_AsLong(PyObject*); double PyFloat_AsDouble(PyObject*);
int PyList_Check(PyObject*); Py_ssize_t PyList_Size(PyObject*); PyObject* PyList_GetItem(PyObject*, Py_ssize_t);
PyObject* PyList_New(Py_ssize_t); int PyList_SetItem(PyObject*, Py_ssize_t, PyObject*);
PyObject* PyDict_New(void); int PyDict_SetItemString(PyObject*, const char*, PyObject*); PyObject* PyDict_GetItemString(PyObject*, const char*);
PyObject* PyUnicode_FromString(const char*); PyObject* PyBytes_FromString(const char*);
#define Py_TPFLAGS_DEFAULT 0
#define Py_TPFLAGS_BASETYPE 0
#endif
