/* stand-in for numpy/arrayobject.h (see Python.h next to it) */
#ifndef VF_STUB_NUMPY_H
#define VF_STUB_NUMPY_H
#include <Python.h>
typedef long npy_intp; typedef long long npy_int64; typedef unsigned long long npy_uint64;
typedef int npy_int32; typedef unsigned int npy_uint32; typedef short npy_int16; typedef unsigned short npy_uint16;
typedef signed char npy_int8; typedef unsigned char npy_uint8; typedef double npy_float64; typedef float npy_float32;
typedef unsigned char npy_bool;
typedef struct { PyObject b; char kind; char type; char byteorder; int type_num; int elsize; PyObject* names; PyObject* fields; } PyArray_Descr;
typedef struct { PyObject b; } PyArrayObject;
enum NPY_TYPES { NPY_BOOL=0, NPY_INT8, NPY_UINT8, NPY_INT16, NPY_UINT16, NPY_INT32, NPY_UINT32, NPY_LONG, NPY_ULONG,
  NPY_INT64, NPY_UINT64, NPY_FLOAT32, NPY_FLOAT64, NPY_LONGDOUBLE, NPY_CFLOAT, NPY_CDOUBLE, NPY_CLONGDOUBLE,
  NPY_OBJECT=17, NPY_STRING, NPY_UNICODE, NPY_VOID, NPY_INTP, NPY_DOUBLE=12, NPY_FLOAT=11 };
#define NPY_ABI_VERSION 0x02000000
void* PyArray_DATA(void*); npy_intp PyArray_SIZE(void*); npy_intp PyArray_Size(void*);
void* PyArray_GETPTR1(void*, npy_intp); void* PyArray_GETPTR2(void*, npy_intp, npy_intp);
PyObject* PyArray_ZEROS(int, npy_intp*, int, int); PyObject* PyArray_EMPTY(int, npy_intp*, int, int);
PyObject* PyArray_SimpleNew(int, npy_intp*, int);
int PyArray_Check(void*); PyArray_Descr* PyArray_DESCR(void*); npy_intp* PyArray_DIMS(void*); int PyArray_NDIM(void*);
npy_intp PyArray_DIM(void*, int); npy_intp PyArray_ITEMSIZE(void*); npy_intp PyArray_NBYTES(void*);
npy_intp PyArray_STRIDE(void*, int); int PyArray_TYPE(void*); int PyArray_ISCONTIGUOUS(void*);
PyObject* PyArray_FROM_OTF(PyObject*, int, int); PyObject* PyArray_Zeros(int, npy_intp*, PyArray_Descr*, int);
PyArray_Descr* PyArray_DescrFromType(int); int PyArray_DescrConverter(PyObject*, PyArray_Descr**);
PyObject* PyArray_Empty(int, npy_intp*, PyArray_Descr*, int);
#define import_array() 
#define NPY_ARRAY_IN_ARRAY 1
#define NPY_IN_ARRAY 1
#endif
