"""trig -- algebraisation of angles and trigonometric functions (used by C08, C09, C19, C10).

An angle is a first-class value SAng: a rational linear form over *atoms* (solver
variables measured in degrees) plus a rational constant, and a unit exponent k
(k=1: the number is the angle in degrees, k=0: in radians, other k: the result of
converting once too often).  Its z3 value term is the form (times (pi/180)^(1-k) with a
symbolic constant PI), so comparisons between angles of the same unit are linear.

sin / cos of an angle are not approximated: every atom a gets a pair (s_a, c_a) with
s^2 + c^2 = 1, and sin/cos of a linear form are expanded with the addition formulas
(multiplication of unit complex numbers), whole multiples of 90 degrees exactly, other
constants as constant atoms whose pair is pinned to the machine's sin/cos to 1e-15.
Inverse functions return new atoms whose pair is given by the defining identity
(arcsin u: (u, sqrt(1-u^2)), arctan2(y,x): (y,x)/sqrt(x^2+y^2) ...) together with their
range; the side conditions (|u| <= 1, rho > 0) are obligations.  Periodicity and
angle-difference identities therefore need no axioms.

Replay inputs are rebuilt from the model's (s, c) pairs with atan2, never from the
value of the angle variable, which the abstraction leaves unconstrained.
"""
import fractions
import math

import z3

from . import symx, symnp
from .symx import SReal, SInt, SBool, Sym, Unsupported, real_term, wrap, sym_ite, sym_and, sym_or, sym_not

Fr = fractions.Fraction
PI = z3.Real("PI")
_RAD2DEG = Fr(180) / Fr(math.pi)           # floats as reals: pi at double precision


class State(object):
    """per path"""

    def __init__(self, cx):
        self.cx = cx
        self.atoms = {}         # name -> z3 Real (degrees)
        self.pairs = {}         # (name, den) -> (s, c) SReal
        self.kind = {}          # name -> 'input' | 'inv' | 'const' | 'opaque' | 'int'
        self.reg = {}           # z3 term id -> SAng   (to push trig through ITEs)
        self.log = []           # arguments handed to the inverse functions (probes)
        self.n = 0
        cx.axiom(z3.And(PI > z3.RealVal("3.14159265358979"), PI < z3.RealVal("3.14159265358980")))

    def fresh(self, prefix):
        self.n += 1
        return "%s!%d" % (prefix, self.n)


def st():
    cx = symx.Ctx.current
    s = cx.memo.get("trig_state")
    if s is None:
        s = cx.memo["trig_state"] = State(cx)
    return s


def _frac(x):
    if isinstance(x, Fr):
        return x
    if isinstance(x, bool):
        return Fr(int(x))
    if isinstance(x, int):
        return Fr(x)
    if isinstance(x, float) or (symx._rnp is not None and isinstance(x, (symx._rnp.floating, symx._rnp.integer))):
        x = float(x)
        if x != x or x in (math.inf, -math.inf):
            raise Unsupported("non-finite constant in an angle")
        return Fr(repr(x)) if "e" not in repr(x) and "E" not in repr(x) else Fr(x)
    raise Unsupported("not a concrete number: %r" % (type(x),))


def _is_num(x):
    return isinstance(x, (int, float, Fr)) or (symx._rnp is not None and isinstance(x, (symx._rnp.floating, symx._rnp.integer)))


def _snap90(deg):
    """a constant (in degrees) within 1e-11 of a multiple of 90: that multiple"""
    q = deg / 90
    r = round(q)
    if abs(q - r) < Fr(1, 10 ** 13):
        return Fr(r) * 90
    return deg


class SAng(SReal):
    __slots__ = ("form", "const", "k")

    def __init__(self, form, const=Fr(0), k=1):
        self.form = {a: c for a, c in form.items() if c != 0}
        self.const = Fr(const)
        self.k = k
        SReal.__init__(self, self._term())
        try:
            st().reg[self.t.get_id()] = self
        except Exception:
            pass

    # ---- value term
    def deg_term(self):
        S = st()
        t = z3.RealVal(self.const)
        for a, c in self.form.items():
            v = S.atoms[a]
            v = z3.ToReal(v) if z3.is_int(v) else v
            t = t + z3.RealVal(c) * v
        return z3.simplify(t)

    def _term(self):
        d = self.deg_term()
        if self.k == 1:
            return d
        f = PI / 180
        e = 1 - self.k
        while e > 0:
            d = d * f
            e -= 1
        while e < 0:
            d = d / f
            e += 1
        return d

    @property
    def is_const(self):
        return not self.form

    def __repr__(self):
        return "<SAng %s%+g deg k=%d>" % ("".join("%+g*%s" % (float(c), a) for a, c in self.form.items()), float(self.const), self.k)

    __str__ = __repr__
    __hash__ = Sym.__hash__

    def _new(self, form, const, k=None):
        return SAng(form, const, self.k if k is None else k)

    def scaled(self, f):
        f = _frac(f)
        return self._new({a: c * f for a, c in self.form.items()}, self.const * f)

    def _num_in_unit(self, x):
        """a concrete number added to / compared with this angle, in degrees"""
        x = _frac(x)
        if self.k == 1:
            return x
        if self.k == 0:
            return _snap90(x * _RAD2DEG)
        raise Unsupported("number combined with a doubly converted angle")

    # ---- arithmetic
    def __neg__(self):
        return self.scaled(-1)

    def __pos__(self):
        return self

    def __add__(self, o):
        if isinstance(o, SAng):
            if o.k != self.k:
                return SReal(self.t) + SReal(o.t)
            f = dict(self.form)
            for a, c in o.form.items():
                f[a] = f.get(a, 0) + c
            return self._new(f, self.const + o.const)
        if _is_num(o):
            return self._new(self.form, self.const + self._num_in_unit(o))
        if isinstance(o, (SReal, SInt)):
            return SReal(self.t) + o
        return NotImplemented

    __radd__ = __add__

    def __sub__(self, o):
        if isinstance(o, SAng) or _is_num(o):
            return self + (-o if not _is_num(o) else -_frac(o))
        if isinstance(o, (SReal, SInt)):
            return SReal(self.t) - o
        return NotImplemented

    def __rsub__(self, o):
        return (-self) + o

    def __mul__(self, o):
        if isinstance(o, UnitInv):
            return o.__rmul__(self)
        if isinstance(o, SAng):
            # (angle in degrees) * (constant angle c deg expressed in radians) = the angle
            # c*x degrees expressed in radians: a unit conversion
            for x, cst in ((self, o), (o, self)):
                if cst.is_const and cst.k == 0 and x.k >= 1 and not (x.is_const and x.k == 0):
                    return SAng({a: c * cst.const for a, c in x.form.items()}, x.const * cst.const, x.k - 1)
            return SReal(self.t) * SReal(o.t)
        if _is_num(o):
            f = _frac(o)
            ff = float(f)
            if ff and abs(ff / (math.pi / 180) - 1) < 1e-12:
                return self._new(self.form, self.const, self.k - 1)
            if ff and abs(ff / (180 / math.pi) - 1) < 1e-12:
                return self._new(self.form, self.const, self.k + 1)
            return self.scaled(f)
        if isinstance(o, (SReal, SInt)):
            return SReal(self.t) * o
        return NotImplemented

    __rmul__ = __mul__

    def __truediv__(self, o):
        if _is_num(o):
            f = _frac(o)
            if f == 0:
                raise ZeroDivisionError("float division by zero")
            return self * (1 / f)
        if isinstance(o, SAng) and o.is_const and o.k == 0 and o.const != 0:
            return self * UnitInv(1 / o.const)
        if isinstance(o, (SReal, SInt)):
            return SReal(self.t) / (SReal(o.t) if isinstance(o, SAng) else o)
        return NotImplemented

    def __rtruediv__(self, o):
        if _is_num(o) and self.is_const and self.k == 0 and self.const != 0:
            return UnitInv(_frac(o) / self.const)
        if _is_num(o) or isinstance(o, (SReal, SInt)):
            return o / SReal(self.t)
        return NotImplemented

    def __mod__(self, o):
        if isinstance(o, SAng) and o.is_const and o.k == self.k:
            m = o.const
        elif _is_num(o):
            m = self._num_in_unit(o)
        else:
            return SReal(self.t) % o
        if m <= 0:
            raise Unsupported("angle modulo a non-positive number")
        S = st()
        name = S.fresh("q")
        q = z3.Int(name)
        S.atoms[name] = q
        S.kind[name] = "int"
        f = dict(self.form)
        f[name] = -m
        r = self._new(f, self.const)
        d = r.deg_term()
        S.cx.axiom(z3.And(d >= 0, d < z3.RealVal(m)))
        return r

    def __abs__(self):
        return sym_ite(wrap(self.deg_term() >= 0), self, -self)

    def __pow__(self, o):
        return SReal(self.t) ** o

    # ---- comparisons: same unit -> linear in the atoms
    def _cmp(self, o, f):
        if isinstance(o, SAng) and o.k == self.k:
            return wrap(f(self.deg_term(), o.deg_term()))
        if _is_num(o) and self.k in (0, 1):
            return wrap(f(self.deg_term(), z3.RealVal(self._num_in_unit(o))))
        if isinstance(o, SAng):
            o = SReal(o.t)
        return SReal._cmp(SReal(self.t), o, f)


class UnitInv(object):
    __array_priority__ = 5000.0

    """number / (constant angle in radians), e.g. R2D = 1.0/D2R: multiplying an angle in
    radians by it converts to degrees (and scales)"""

    def __init__(self, scale):
        self.scale = Fr(scale)

    def __rmul__(self, x):
        if isinstance(x, symnp.SArr):
            return symnp.SArr(symnp._map(lambda c: self.__rmul__(c), x.a), x.dt)
        if isinstance(x, SAng):
            return SAng({a: c * self.scale for a, c in x.form.items()}, x.const * self.scale, x.k + 1)
        if _is_num(x):
            return UnitInv(self.scale * _frac(x))
        if isinstance(x, (SReal, SInt)):
            return x * SReal(z3.RealVal(self.scale) * 180 / PI)
        return NotImplemented

    __mul__ = __rmul__

    def __rtruediv__(self, x):
        if _is_num(x):
            return SAng({}, _frac(x) / self.scale, 0)
        return NotImplemented

    def __truediv__(self, o):
        if _is_num(o):
            return UnitInv(self.scale / _frac(o))
        if isinstance(o, symnp.SArr):
            return symnp.SArr(symnp._map(lambda c: self.__truediv__(c), o.a), o.dt)
        if isinstance(o, (SReal, SInt)) and not isinstance(o, SAng):
            return SReal(z3.RealVal(self.scale) * 180 / PI) / o
        return NotImplemented


# ----------------------------------------------------------------------------
# atoms and pairs


def angle(name, lo=None, hi=None, unit="deg"):
    """a symbolic input angle (solver variable in degrees); unit: how the number the code
    receives is to be read ('deg' or 'rad')"""
    S = st()
    v = z3.Real(name)
    S.atoms[name] = v
    S.kind[name] = "input"
    S.cx.inputs[name] = v
    if lo is not None:
        S.cx._assume_t(v >= z3.RealVal(_frac(lo)))
    if hi is not None:
        S.cx._assume_t(v <= z3.RealVal(_frac(hi)))
    sp, cp = pair(name, 1)
    # sin/cos are functions: equal angles (also modulo a turn) have equal pairs
    for other in S.cx.memo.setdefault("trig_inputs", []):
        so, co_ = pair(other, 1)
        vo = S.atoms[other]
        same = z3.And(sp.t == so.t, cp.t == co_.t)
        S.cx.axiom(z3.And(z3.Implies(v == vo, same), z3.Implies(v == vo + 360, same), z3.Implies(v + 360 == vo, same)))
    S.cx.memo["trig_inputs"].append(name)
    return SAng({name: Fr(1)}, 0, 1 if unit == "deg" else 0)


def const_angle(deg, k=0):
    return SAng({}, _frac(deg), k)


def pair(name, den=1):
    """(s, c) of atom/den"""
    S = st()
    key = (name, den)
    p = S.pairs.get(key)
    if p is None:
        if S.kind.get(name) == "int":
            raise Unsupported("trig of a fractional multiple of an integer atom")
        s = z3.Real("%s!s%s" % (name, "" if den == 1 else "_%d" % den))
        c = z3.Real("%s!c%s" % (name, "" if den == 1 else "_%d" % den))
        S.cx.axiom(s * s + c * c == 1)
        S.cx.rules.append((s, 2, 1 - c * c))
        S.cx.inputs[s.decl().name()] = s
        S.cx.inputs[c.decl().name()] = c
        p = S.pairs[key] = (SReal(s), SReal(c))
    return p


def set_pair(name, s, c):
    st().pairs[(name, 1)] = (s, c)


def _cmul(a, b):
    """(c1 + i s1)(c2 + i s2), pairs as (s, c)"""
    (s1, c1), (s2, c2) = a, b
    return (s1 * c2 + c1 * s2, c1 * c2 - s1 * s2)


def _cpow(p, n):
    if n < 0:
        s, c = p
        p = (-s, c)
        n = -n
    r = (0, 1)
    base = p
    while n:
        if n & 1:
            r = _cmul(r, base) if r != (0, 1) else base
        n >>= 1
        if n:
            base = _cmul(base, base)
    return r


def _const_pair(deg):
    """pair of a constant angle (degrees)"""
    deg = _snap90(deg)
    q = deg / 90
    if q.denominator == 1:
        return [(0, 1), (1, 0), (0, -1), (-1, 0)][int(q) % 4]
    S = st()
    key = ("const", deg)
    p = S.pairs.get(key)
    if p is None:
        name = S.fresh("cst")
        s = z3.Real(name + "!s")
        c = z3.Real(name + "!c")
        fs, fc = math.sin(math.radians(float(deg))), math.cos(math.radians(float(deg)))
        eps = z3.RealVal("1e-15")
        S.cx.rules.append((s, 2, 1 - c * c))
        S.cx.axiom(z3.And(s * s + c * c == 1, s >= symx.ratval(fs) - eps, s <= symx.ratval(fs) + eps,
                          c >= symx.ratval(fc) - eps, c <= symx.ratval(fc) + eps))
        p = S.pairs[key] = (SReal(s), SReal(c))
    return p


def sincos(x):
    """(sin x, cos x) of an angle / real, as polynomial terms in the atom pairs"""
    S = st()
    if _is_num(x):
        return _const_pair(_frac(x) * _RAD2DEG)
    if isinstance(x, (SInt, SBool)):
        x = symx.to_real(x)
    if not isinstance(x, SAng):
        if isinstance(x, SReal):
            hit = S.reg.get(x.t.get_id())
            if hit is not None:
                x = hit
            elif z3.is_app_of(x.t, z3.Z3_OP_ITE):
                c, a, b = x.t.children()
                sa, ca = sincos(_from_term(a))
                sb, cb = sincos(_from_term(b))
                return sym_ite(wrap(c), sa, sb), sym_ite(wrap(c), ca, cb)
            else:
                x = _opaque(x)
        else:
            raise Unsupported("trig of %r" % (type(x),))
    if x.k != 0:
        # the number handed to sin/cos is not a radian measure: treat its *value* as radians
        x = _opaque(SReal(x.t))
    acc = _const_pair(x.const) if x.const != 0 else (0, 1)
    for a, c in sorted(x.form.items()):
        if S.kind.get(a) == "int":
            m = c / 360
            if m.denominator == 1:
                continue                        # whole turns
            raise Unsupported("trig of an integer atom times %s degrees" % c)
        den = c.denominator
        p = _cpow(pair(a, den), c.numerator)
        acc = _cmul(acc, p) if acc != (0, 1) else p
    s, c = acc
    return s, c


def _from_term(t):
    hit = st().reg.get(t.get_id())
    if hit is not None:
        return hit
    t2 = z3.simplify(t)
    if z3.is_rational_value(t2):
        return float(Fr(t2.numerator_as_long(), t2.denominator_as_long()))
    return SReal(t)


def _opaque(x):
    """an angle about which nothing is known but its value term (radians)"""
    S = st()
    key = ("opq", z3.simplify(x.t).sexpr())
    name = S.pairs.get(key)
    if name is None:
        name = S.fresh("opq")
        v = z3.Real(name)
        S.atoms[name] = v
        S.kind[name] = "opaque"
        S.cx.axiom(v * PI == x.t * 180)
        S.pairs[key] = name
        pair(name, 1)
    return SAng({name: Fr(1)}, 0, 0)


def sin(x):
    return sincos(x)[0]


def cos(x):
    return sincos(x)[1]


def tan(x):
    s, c = sincos(x)
    return s / c


def _new_inverse(prefix, s, c, lo, hi, extra=None):
    """a new angle atom (degrees) with the given pair and range"""
    S = st()
    name = S.fresh(prefix)
    v = z3.Real(name)
    S.atoms[name] = v
    S.kind[name] = "inv"
    S.pairs[(name, 1)] = (s, c)
    ax = []
    if lo is not None:
        ax.append(v >= lo)
    if hi is not None:
        ax.append(v <= hi)
    if extra is not None:
        ax.extend(extra(v))
    if ax:
        S.cx.axiom(z3.And(*ax))
    return SAng({name: Fr(1)}, 0, 0), v


def _as_real(u):
    if isinstance(u, SAng):
        return SReal(u.t)
    if _is_num(u):
        return u
    return symx.to_real(u)


def arcsin(u):
    u = _as_real(u)
    if _is_num(u):
        if abs(u) > 1:
            raise Unsupported("arcsin of a concrete value outside [-1,1] (nan)")
        st().log.append(("arcsin", u))
        return const_angle(Fr(math.degrees(math.asin(u))), 0) if u not in (0, 1, -1) else const_angle(90 * int(u), 0)
    cx = symx.Ctx.current
    cx.obligation(z3.And(u.t >= -1, u.t <= 1), "arcsin argument outside [-1,1]")
    c = symx.sym_sqrt(1 - u * u)
    S = st()
    S.log.append(("arcsin", u))

    def extra(v):
        ax = [z3.Implies(u.t > 0, v > 0), z3.Implies(u.t < 0, v < 0), z3.Implies(u.t == 0, v == 0),
              z3.Implies(u.t == 1, v == 90), z3.Implies(u.t == -1, v == -90)]
        # monotone with respect to the other arcsines of this path
        for (u2, v2) in S.cx.memo.setdefault("trig_asin", []):
            ax.append(z3.And(z3.Implies(u.t <= u2, v <= v2), z3.Implies(u.t >= u2, v >= v2)))
        return ax
    r, v = _new_inverse("asin", u, c, -90, 90, extra)
    S.cx.memo.setdefault("trig_asin", []).append((u.t, v))
    return r


def arccos(u):
    u = _as_real(u)
    if _is_num(u):
        if abs(u) > 1:
            raise Unsupported("arccos of a concrete value outside [-1,1] (nan)")
        return const_angle(Fr(math.degrees(math.acos(u))), 0) if u not in (0, 1, -1) else const_angle({0: 90, 1: 0, -1: 180}[int(u)], 0)
    cx = symx.Ctx.current
    cx.obligation(z3.And(u.t >= -1, u.t <= 1), "arccos argument outside [-1,1]")
    s = symx.sym_sqrt(1 - u * u)
    S = st()
    S.log.append(("arccos", u))

    def extra(v):
        ax = [z3.Implies(u.t == 1, v == 0), z3.Implies(u.t == -1, v == 180), z3.Implies(u.t > 0, v < 90), z3.Implies(u.t < 0, v > 90),
              z3.Implies(u.t == 0, v == 90)]
        for (u2, v2) in S.cx.memo.setdefault("trig_acos", []):
            ax.append(z3.And(z3.Implies(u.t <= u2, v >= v2), z3.Implies(u.t >= u2, v <= v2)))
        return ax
    r, v = _new_inverse("acos", s, u, 0, 180, extra)
    S.cx.memo.setdefault("trig_acos", []).append((u.t, v))
    return r


def arctan(u):
    u = _as_real(u)
    if _is_num(u):
        return const_angle(Fr(math.degrees(math.atan(u))), 0)
    cx = symx.Ctx.current
    mk = ("trig_atan_memo", u.t.get_id())
    hit = cx.memo.get(mk)
    if hit is not None and hit[0].eq(u.t):
        return hit[1]           # a function: the same argument gives the same angle
    n_ob = len(cx.obligs)
    rho = symx.sym_sqrt(1 + u * u)
    del cx.obligs[n_ob:]        # 1 + u^2 > 0
    r, v = _new_inverse("atan", u / rho, 1 / rho, -90, 90,
                        lambda v: [v > -90, v < 90, z3.Implies(u.t > 0, v > 0), z3.Implies(u.t < 0, v < 0), z3.Implies(u.t == 0, v == 0)])
    cx.memo[mk] = (u.t, r)
    return r


def arctan2(y, x):
    y, x = _as_real(y), _as_real(x)
    if _is_num(y) and _is_num(x):
        st().log.append(("arctan2", y, x))
        return const_angle(Fr(math.degrees(math.atan2(y, x))), 0)
    y = y if isinstance(y, SReal) else SReal(symx.ratval(y))
    x = x if isinstance(x, SReal) else SReal(symx.ratval(x))
    cx = symx.Ctx.current
    mk = ("trig_atan2_memo", y.t.get_id(), x.t.get_id())
    hit = cx.memo.get(mk)
    if hit is not None and hit[0].eq(y.t) and hit[1].eq(x.t):
        st().log.append(hit[2])
        cx.obligation(hit[2][5].t > 0, "arctan2(0, 0): direction undefined (pole)")
        return hit[2][3]        # a function: the same arguments give the same angle
    n_ob = len(cx.obligs)
    rho = symx.sym_sqrt(x * x + y * y)
    del cx.obligs[n_ob:]        # the radicand is a sum of two squares by construction
    cx.obligation(rho.t > 0, "arctan2(0, 0): direction undefined (pole)")
    S = st()
    # the pair is (y, x)/rho: kept as fresh (s, c) with s*rho = y, c*rho = x so that
    # products with rho normalise (no quotients in the polynomial tier)
    nm = S.fresh("at2p")
    sv, cv = z3.Real(nm + "!s"), z3.Real(nm + "!c")
    cx.axiom(z3.And(sv * rho.t == y.t, cv * rho.t == x.t, sv * sv + cv * cv == 1))
    cx.rules.append(((sv, rho.t), 1, y.t))
    cx.rules.append(((cv, rho.t), 1, x.t))
    cx.rules.append((sv, 2, 1 - cv * cv))
    r, v = _new_inverse("atan2", SReal(sv), SReal(cv), -180, 180,
                        lambda v: [z3.Implies(y.t > 0, z3.And(v > 0, v < 180)), z3.Implies(y.t < 0, z3.And(v < 0, v > -180)),
                                   z3.Implies(z3.And(y.t == 0, x.t > 0), v == 0), z3.Implies(z3.And(y.t == 0, x.t < 0), v == 180),
                                   z3.Implies(x.t > 0, z3.And(v > -90, v < 90)), z3.Implies(z3.And(x.t < 0, y.t >= 0), v > 90),
                                   z3.Implies(z3.And(x.t < 0, y.t < 0), v < -90),
                                   z3.Implies(z3.And(x.t == 0, y.t > 0), v == 90), z3.Implies(z3.And(x.t == 0, y.t < 0), v == -90)])
    S.log.append(("arctan2", y, x, r, (SReal(sv), SReal(cv)), rho))
    cx.memo[mk] = (y.t, x.t, S.log[-1])
    return r


def acos_monotone(theta):
    """relate every arccos result of this path to the angle theta (a SAng whose value lies in
    [0, 180] degrees): arccos is decreasing, arccos(cos theta) = theta"""
    S = st()
    ct = cos(theta if theta.k == 0 else deg2rad(theta))
    d = theta.deg_term()
    ctt = real_term(ct)
    for (u, v) in S.cx.memo.get("trig_acos", []):
        S.cx.axiom(z3.And(z3.Implies(u <= ctt, v >= d), z3.Implies(u >= ctt, v <= d)))


def deg2rad(x):
    if isinstance(x, SAng):
        return SAng(x.form, x.const, x.k - 1)
    if _is_num(x):
        return const_angle(_frac(x), 0)
    if isinstance(x, (SReal, SInt)):
        return SReal(real_term(x) * PI / 180)
    raise Unsupported("deg2rad of %r" % (type(x),))


def rad2deg(x):
    if isinstance(x, SAng):
        return SAng(x.form, x.const, x.k + 1)
    if _is_num(x):
        return const_angle(_snap90(_frac(x) * _RAD2DEG), 1)
    if isinstance(x, (SReal, SInt)):
        return SReal(real_term(x) * 180 / PI)
    raise Unsupported("rad2deg of %r" % (type(x),))


# ----------------------------------------------------------------------------

_SAVED = {}


def install():
    """route symnp's trigonometry (and np.pi) through this layer"""
    if _SAVED:
        return
    _SAVED["pi"] = symnp.pi
    _SAVED["trig"] = dict(symnp._TRIG)
    symnp._TRIG.update({
        "sin": sin, "cos": cos, "tan": tan, "arcsin": arcsin, "arccos": arccos, "arctan": arctan,
        "arctan2": arctan2, "deg2rad": deg2rad, "rad2deg": rad2deg, "__all__": True,
    })
    symnp.pi = _LazyPi()


def uninstall():
    if not _SAVED:
        return
    symnp.pi = _SAVED.pop("pi")
    symnp._TRIG.clear()
    symnp._TRIG.update(_SAVED.pop("trig"))


class _LazyPi(object):
    """np.pi / math.pi while the layer is installed: the constant angle 180 degrees in
    radians; created per use because SAng values belong to a path"""

    def _v(self):
        return const_angle(180, 0)

    def __mul__(self, o):
        return self._v() * o

    __rmul__ = __mul__

    def __truediv__(self, o):
        return self._v() / o

    def __rtruediv__(self, o):
        return o / self._v()

    def __add__(self, o):
        return self._v() + o

    __radd__ = __add__

    def __sub__(self, o):
        return self._v() - o

    def __rsub__(self, o):
        return o - self._v()

    def __neg__(self):
        return -self._v()

    def __float__(self):
        return math.pi

    def __lt__(self, o):
        return self._v() < o

    def __gt__(self, o):
        return self._v() > o

    def __le__(self, o):
        return self._v() <= o

    def __ge__(self, o):
        return self._v() >= o


# ---- replay support -----------------------------------------------------------

def model_angle(mdl, name):
    """degrees of input atom `name` rebuilt from the model's (s, c) pair"""
    s, c = mdl.get(name + "!s"), mdl.get(name + "!c")
    if s is None or c is None:
        v = mdl.get(name)
        return symx.model_float(v) if v is not None else 0.0
    return math.degrees(math.atan2(symx.model_float(s), symx.model_float(c)))
