"""runs <props module>.replay(candidate) against the scratch build on PYTHONPATH"""
import importlib
import json
import sys
import warnings


def main():
    modname, cpath = sys.argv[1], sys.argv[2]
    cand = json.load(open(cpath))
    warnings.simplefilter("ignore")
    mod = importlib.import_module(modname)
    try:
        r = mod.replay(cand)
    except Exception as e:  # replay code itself failed: not a reproduction
        import traceback
        r = {"reproduced": False, "what": "replay raised %s: %s\n%s" % (type(e).__name__, e, traceback.format_exc()[-600:]),
             "key": None, "crashed": True}
    print("REPLAY-RESULT " + json.dumps(r, default=repr))


if __name__ == "__main__":
    main()
