"""symnp -- model of the NumPy subset esutil uses, over cells that may be symbolic.

An SArr wraps a *real* numpy object array (so shapes, broadcasting, views, basic and
fancy indexing and their IndexError/ValueError behaviour are NumPy's own) plus a real
numpy dtype that says what the cells stand for.  Cells are Python scalars or
symx.SInt/SReal/SBool.  Only what the anchored esutil functions need is provided;
anything else raises symx.Unsupported (=> INCONCLUSIVE, never an alarm).
"""
import math
import fractions
import builtins
import numpy as rnp

from . import symx
from .symx import (Sym, SInt, SReal, SBool, Unsupported, sym_ite, sym_sqrt, to_real,
                   to_int_trunc, is_sym)

_py_isinstance = builtins.isinstance
_py_int = builtins.int
_py_float = builtins.float
_py_len = builtins.len
_py_abs = builtins.abs
_py_min = builtins.min
_py_max = builtins.max
_py_sum = builtins.sum
_py_round = builtins.round
_py_any = builtins.any

newaxis = None
pi = math.pi          # replaced by the trig layer when a harness wants a symbolic pi
little_endian = rnp.little_endian
inf = rnp.inf
nan = rnp.nan
e = math.e


class _STy(object):
    """np.float64 & co: callable scalar constructors that also name a dtype"""

    def __init__(self, real):
        self.real = real
        self.dtype = rnp.dtype(real)
        self.__name__ = real.__name__

    def __call__(self, x=0):
        k = self.dtype.kind
        if _py_isinstance(x, SArr):
            return x.astype(self.dtype)
        if _py_isinstance(x, (list, tuple)):
            return array(x, dtype=self.dtype)
        return cast_cell(x, self.dtype)

    def __repr__(self):
        return "<symnp.%s>" % self.real.__name__

    def __eq__(self, o):
        if _py_isinstance(o, _STy):
            return self.real is o.real
        return self.real == o

    def __hash__(self):
        return hash(self.real)


float64 = _STy(rnp.float64)
float32 = _STy(rnp.float32)
int64 = _STy(rnp.int64)
int32 = _STy(rnp.int32)
int16 = _STy(rnp.int16)
int8 = _STy(rnp.int8)
uint8 = _STy(rnp.uint8)
uint16 = _STy(rnp.uint16)
uint32 = _STy(rnp.uint32)
uint64 = _STy(rnp.uint64)
intp = _STy(rnp.intp)
bool_ = _STy(rnp.bool_)
double = float64
bytes_ = rnp.bytes_
str_ = rnp.str_
integer = rnp.integer
floating = rnp.floating
number = rnp.number
void = rnp.void


def dtype(spec, *a, **k):
    if _py_isinstance(spec, _STy):
        return spec.dtype
    if spec is _py_float or spec is float:
        return rnp.dtype("f8")
    if spec is _py_int or spec is int:
        return rnp.dtype("i8")
    if spec is bool:
        return rnp.dtype("?")
    return rnp.dtype(spec, *a, **k)


def _kind(dt):
    return dt.kind


def cast_cell(x, dt):
    """value of cell x when stored in an array of dtype dt"""
    k = dt.kind
    if k == "f":
        if _py_isinstance(x, (SInt, SBool)):
            return to_real(x)
        if _py_isinstance(x, SReal):
            return x
        if _py_isinstance(x, fractions.Fraction):
            return x
        if _py_isinstance(x, (str, bytes)):
            return _py_float(x)
        return _py_float(x)
    if k in "iu":
        if _py_isinstance(x, SInt):
            return x
        if _py_isinstance(x, SBool):
            return x._asint()
        if _py_isinstance(x, SReal):
            return to_int_trunc(x)
        if _py_isinstance(x, _py_float) and (math.isnan(x) or math.isinf(x)):
            raise Unsupported("cast of non-finite float to int")
        return _py_int(x)
    if k == "b":
        if _py_isinstance(x, SBool):
            return x
        if _py_isinstance(x, (SInt, SReal)):
            return x != 0
        return bool(x)
    if k in "SU":
        if _py_isinstance(x, Sym):
            return x            # abstract string key
        return x
    if k in "OcV":
        return x            # opaque cells (complex / void): only moved, never computed with
    raise Unsupported("cast to dtype %s" % dt)


def _cell_dtype(x):
    if _py_isinstance(x, (SBool, bool, rnp.bool_)):
        return rnp.dtype("?")
    if _py_isinstance(x, (SInt, _py_int, rnp.integer)):
        return rnp.dtype("i8")
    if _py_isinstance(x, (SReal, _py_float, fractions.Fraction, rnp.floating)):
        return rnp.dtype("f8")
    if _py_isinstance(x, bytes):
        return rnp.dtype("S%d" % _py_max(1, _py_len(x)))
    if _py_isinstance(x, str):
        return rnp.dtype("U%d" % _py_max(1, _py_len(x)))
    if _py_isinstance(x, SStrKey):
        return rnp.dtype("U8")
    raise Unsupported("cell of type %s" % type(x).__name__)


class SStrKey(object):
    """abstract string: only its order/equality key is modelled (exact for code that
    only compares).  Behaves as str for isinstance via the loader's isinstance shim."""
    __slots__ = ("k",)
    is_abstract_str = True

    def __init__(self, k):
        self.k = k

    def __lt__(self, o):
        return self.k < o.k

    def __le__(self, o):
        return self.k <= o.k

    def __gt__(self, o):
        return self.k > o.k

    def __ge__(self, o):
        return self.k >= o.k

    def __eq__(self, o):
        if not _py_isinstance(o, SStrKey):
            return False
        return self.k == o.k

    def __ne__(self, o):
        if not _py_isinstance(o, SStrKey):
            return True
        return self.k != o.k

    def __hash__(self):
        return hash(self.k)

    def __repr__(self):
        return "<str key %r>" % (self.k,)


def _int_bounds(dt):
    bits = 8 * dt.itemsize
    if dt.kind == "u":
        return 0, (1 << bits) - 1
    return -(1 << (bits - 1)), (1 << (bits - 1)) - 1


def _int_range_within(src, dst):
    a, b = _int_bounds(src)
    c, d = _int_bounds(dst)
    return c <= a and b <= d


def _wrap_int(c, dt):
    """C-style conversion of an integer cell to integer dtype dt (two's complement wrap)"""
    lo, hi = _int_bounds(dt)
    m = hi - lo + 1
    if is_sym(c):
        if _py_isinstance(c, SBool):
            return c._asint()
        return sym_ite(symx.sym_and(c >= lo, c <= hi), c, (c - lo) % m + lo)
    return (_py_int(c) - lo) % m + lo


def _py_scalar(x):
    if _py_isinstance(x, rnp.generic):
        return x.item()
    return x


def _obj_array(nested, shape=None):
    """object ndarray from nested lists without numpy trying to be clever"""
    def shp(x):
        if _py_isinstance(x, (list, tuple)):
            if _py_len(x) == 0:
                return (0,)
            s0 = shp(x[0])
            for y in x[1:]:
                if shp(y) != s0:
                    raise ValueError("setting an array element with a sequence. "
                                     "The requested array has an inhomogeneous shape")
            return (_py_len(x),) + s0
        return ()
    s = shp(nested)
    out = rnp.empty(s, dtype=object)
    if s == ():
        out[()] = nested
        return out

    def fill(o, x, depth):
        if depth == _py_len(s) - 1:
            for i, y in enumerate(x):
                o[i] = y
        else:
            for i, y in enumerate(x):
                fill(o[i], y, depth + 1)
    if 0 not in s:
        fill(out, nested, 0)
    return out


def _unnest(x):
    """SArr / real ndarray / Sym / scalars -> nested python lists of cells"""
    if _py_isinstance(x, SArr):
        return x.a.tolist()
    if _py_isinstance(x, rnp.ndarray):
        return x.tolist()
    if _py_isinstance(x, (list, tuple)):
        return [_unnest(y) for y in x]
    if _py_isinstance(x, range):
        return list(x)
    return _py_scalar(x)


def _flat_cells(nested):
    if _py_isinstance(nested, list):
        for y in nested:
            for c in _flat_cells(y):
                yield c
    else:
        yield nested


def _result_dtype(cells):
    dt = None
    for c in cells:
        d = _cell_dtype(c)
        dt = d if dt is None else rnp.promote_types(dt, d) if d.kind not in "SU" or dt.kind not in "SU" else (d if d.itemsize > dt.itemsize else dt)
    return dt if dt is not None else rnp.dtype("f8")


def isscalar(x):
    if _py_isinstance(x, Sym):
        return True
    if _py_isinstance(x, SArr):
        return False
    return rnp.isscalar(x)


def ndim(x):
    if _py_isinstance(x, SArr):
        return x.ndim
    if _py_isinstance(x, Sym):
        return 0
    return asarray(x).ndim


def _slice_bound(v, n):
    """python's clamping of a symbolic slice bound for a positive step, done
    symbolically so that only the values inside [0, n] are enumerated"""
    if v is None or not _py_isinstance(v, Sym):
        return v
    if _py_isinstance(v, SReal):
        raise TypeError("slice indices must be integers or None or have an __index__ method")
    if _py_isinstance(v, SBool):
        return _py_int(v)
    w = sym_ite(v < 0, sym_ite(v + n < 0, 0, v + n), sym_ite(v > n, n, v))
    return _py_int(w)


def _to_index(idx, shape=None):
    """convert an index expression to something numpy accepts (forking on symbolic
    cells).  """
    if _py_isinstance(idx, tuple):
        out = []
        ax = 0
        for i in idx:
            n = None
            if shape is not None and ax < _py_len(shape) and Ellipsis not in idx:
                n = (shape[ax],)
            out.append(_to_index(i, n))
            if i is not None:
                ax += 1
        return tuple(out)
    if _py_isinstance(idx, SArr):
        if idx.dt.kind == "b":
            flat = [bool(c) for c in idx.a.ravel().tolist()]
            return rnp.array(flat, dtype=bool).reshape(idx.a.shape)
        if idx.dt.kind in "iu":
            flat = [_py_int(c) for c in idx.a.ravel().tolist()]
            return rnp.array(flat, dtype=rnp.intp).reshape(idx.a.shape)
        if idx.size == 0:
            return rnp.zeros(idx.a.shape, dtype=rnp.intp)
        raise IndexError("arrays used as indices must be of integer (or boolean) type")
    if _py_isinstance(idx, slice):
        def cv(v):
            if v is None:
                return None
            if _py_isinstance(v, SReal):
                raise TypeError("slice indices must be integers or None or have an __index__ method")
            return _py_int(v) if _py_isinstance(v, Sym) else v
        step = cv(idx.step)
        if shape and (step is None or step > 0):
            return slice(_slice_bound(idx.start, shape[0]), _slice_bound(idx.stop, shape[0]), step)
        return slice(cv(idx.start), cv(idx.stop), step)
    if _py_isinstance(idx, SInt):
        return _py_int(idx)
    if _py_isinstance(idx, SBool):
        return bool(idx)
    if _py_isinstance(idx, SReal):
        raise IndexError("only integers, slices (`:`), ellipsis (`...`), numpy.newaxis (`None`) "
                         "and integer or boolean arrays are valid indices")
    if _py_isinstance(idx, list):
        if _py_len(idx) and builtins.all(_py_isinstance(i, (bool, SBool)) for i in idx):
            return [bool(i) for i in idx]
        return [_to_index(i) if _py_isinstance(i, (Sym, list)) else i for i in idx]
    return idx


class SArr(object):
    __array_priority__ = 2000.0
    __hash__ = None

    def __init__(self, a, dt):
        assert a.dtype == object
        self.a = a
        self.dt = dt

    # ---- attributes ----
    @property
    def shape(self):
        return self.a.shape

    @shape.setter
    def shape(self, s):
        self.a.shape = s

    @property
    def size(self):
        return self.a.size

    @property
    def ndim(self):
        return self.a.ndim

    @property
    def dtype(self):
        return self.dt

    @dtype.setter
    def dtype(self, d):
        # in-place reinterpretation of the same bytes: only a change of declared byte
        # order (same kind and item size) is modelled; the raw cells stay as they are
        d = dtype(d)
        if d.names is None and d.kind == self.dt.kind and d.itemsize == self.dt.itemsize and d.shape == ():
            self.dt = d
            return
        raise Unsupported("dtype assignment %s -> %s on a symbolic array" % (self.dt, d))

    # cells hold the *raw* content as read in native order; for a non-native declared
    # order the logical value is bswap(cell)
    @property
    def swapped(self):
        return (not self.dt.isnative) and self.dt.itemsize > 1 and self.dt.kind not in "SUOV"

    @property
    def la(self):
        """object ndarray of logical values"""
        if self.swapped:
            return _map(symx.bswap, self.a)
        return self.a

    def _check_writable(self):
        if not self.a.flags.writeable:
            cx = symx.Ctx.current
            if cx is not None:
                cx.notes.setdefault("frozen_writes", []).append(getattr(self, "label", None) or "array")
            raise symx.FrozenWrite("store into a frozen (caller-owned) buffer")

    @property
    def T(self):
        return SArr(self.a.T, self.dt)

    @property
    def base(self):
        return self.a.base

    @property
    def itemsize(self):
        return self.dt.itemsize

    @property
    def flat(self):
        return iter(self.a.flat)

    @property
    def real(self):
        return self

    def __len__(self):
        return _py_len(self.a)

    def __iter__(self):
        if self.a.ndim == 0:
            raise TypeError("iteration over a 0-d array")
        for i in range(self.a.shape[0]):
            yield self[i]

    def __repr__(self):
        return "SArr(%s, %s)" % (self.a.tolist(), self.dt)

    def __bool__(self):
        if self.a.size != 1:
            raise ValueError("The truth value of an array with more than one element is ambiguous. "
                             "Use a.any() or a.all()")
        return bool(self.a.ravel()[0])

    def __index__(self):
        if self.a.size != 1 or self.dt.kind not in "iu":
            raise TypeError("only integer scalar arrays can be converted to a scalar index")
        return _py_int(self.a.ravel()[0])

    def __int__(self):
        if self.a.size != 1:
            raise TypeError("only length-1 arrays can be converted to Python scalars")
        return to_int_trunc(self.a.ravel()[0])

    def __float__(self):
        if self.a.size != 1:
            raise TypeError("only length-1 arrays can be converted to Python scalars")
        if self.a.ndim > 0:
            # NumPy >= 2.x: deprecated for ndim > 0 but still works
            pass
        return self.a.ravel()[0]    # loader's float() shim handles syms

    def item(self, *args):
        if args:
            return self.a.item(*args)
        if self.a.size != 1:
            raise ValueError("can only convert an array of size 1 to a Python scalar")
        return self.a.ravel()[0]

    def tolist(self):
        return self.la.tolist()

    # ---- indexing ----
    def __getitem__(self, idx):
        if _py_isinstance(idx, str):
            raise IndexError("only integers, slices (`:`), ellipsis (`...`), numpy.newaxis (`None`) "
                             "and integer or boolean arrays are valid indices")
        r = self.a[_to_index(idx, self.a.shape)]
        if _py_isinstance(r, rnp.ndarray) and r.dtype == object:
            return SArr(r, self.dt)
        if self.swapped:
            return symx.bswap(r)
        return r

    def __setitem__(self, idx, val):
        self._check_writable()
        i = _to_index(idx, self.a.shape)
        sw = self.swapped
        cc = (lambda c: symx.bswap(cast_cell(c, self.dt))) if sw else (lambda c: cast_cell(c, self.dt))
        if _py_isinstance(val, SArr):
            v = _map(cc, val.la)
        elif _py_isinstance(val, (list, tuple, rnp.ndarray, range)):
            v = _map(cc, asarray(val).a)
        else:
            v = cc(_py_scalar(val))
            full = (_py_isinstance(i, (_py_int, rnp.integer)) and self.a.ndim == 1) or (
                _py_isinstance(i, tuple) and _py_len(i) == self.a.ndim and
                builtins.all(_py_isinstance(j, (_py_int, rnp.integer)) for j in i))
            if not full:
                # broadcasting a single object: wrap so numpy does not inspect it
                tmp = rnp.empty((), dtype=object)
                tmp[()] = v
                v = tmp
        self.a[i] = v

    # ---- conversion ----
    def astype(self, dt, copy=True, **kw):
        dt = dtype(dt)
        if not copy and dt == self.dt:
            return self
        if dt.names is not None:
            raise Unsupported("astype to a structured dtype")
        if self.dt.kind in "iu" and dt.kind in "iu" and dt != self.dt and not _int_range_within(self.dt, dt):
            r = SArr(_map(lambda c: _wrap_int(c, dt), self.la), dt)
        else:
            r = SArr(_map(lambda c: cast_cell(c, dt), self.la), dt)
        if r.swapped:
            r.a = _map(symx.bswap, r.a)
        return r

    def copy(self, order="C"):
        return SArr(self.a.copy(), self.dt)

    def view(self, *args, **kw):
        if not args and not kw:
            return SArr(self.a.view(), self.dt)
        t = args[0] if args else kw.get("type", kw.get("dtype"))
        if t is SArr or t is ndarray:
            return SArr(self.a.view(), self.dt)
        try:
            d = dtype(t)
        except Exception:
            d = None
        if d is not None and d.names is None and d.kind == self.dt.kind and d.itemsize == self.dt.itemsize:
            return SArr(self.a.view(), d)
        raise Unsupported("view(%r) on a symbolic array" % (t,))

    def reshape(self, *shape, **kw):
        if _py_len(shape) == 1 and _py_isinstance(shape[0], (tuple, list)):
            shape = tuple(shape[0])
        shape = tuple(_py_int(s) for s in shape)
        return SArr(self.a.reshape(shape), self.dt)

    def ravel(self, order="C"):
        return SArr(self.a.ravel(order), self.dt)

    def flatten(self, order="C"):
        return SArr(self.a.flatten(order), self.dt)

    def transpose(self, *axes):
        return SArr(self.a.transpose(*axes), self.dt)

    def squeeze(self, axis=None):
        return SArr(self.a.squeeze(axis), self.dt)

    def fill(self, v):
        self[...] = v

    def byteswap(self, inplace=False):
        multi = self.dt.itemsize > 1 and self.dt.kind not in "SUOV"
        if self.dt.kind == "c":
            raise Unsupported("byteswap of complex cells")
        if inplace:
            self._check_writable()
            if multi and self.a.size:
                flat = [symx.bswap(c) for c in self.a.ravel().tolist()]
                it = iter(flat)
                for ix in rnp.ndindex(*self.a.shape):
                    self.a[ix] = next(it)
            return self
        if multi:
            return SArr(_map(symx.bswap, self.a), self.dt)
        return SArr(self.a.copy(), self.dt)

    def newbyteorder(self, *a):
        raise AttributeError("`newbyteorder` was removed from the ndarray class in NumPy 2.0. "
                             "Use `arr.view(arr.dtype.newbyteorder(order))` instead.")

    # ---- arithmetic ----
    def _binop(self, other, f, rkind=None, swap=False):
        if _py_isinstance(other, (list, tuple, rnp.ndarray, range)):
            other = asarray(other)
        if _py_isinstance(other, SArr):
            oa, odt = other.a, other.dt
        elif _py_isinstance(other, (str, bytes)) and self.dt.kind in "SU" and rkind in ("eq", "ne", "cmp"):
            oa = rnp.empty((), dtype=object)
            oa[()] = other
            odt = self.dt
        elif other is None or _py_isinstance(other, (str, bytes, dict)):
            if rkind == "eq":
                return False
            if rkind == "ne":
                return True
            return NotImplemented
        else:
            other = _py_scalar(other)
            oa = rnp.empty((), dtype=object)
            oa[()] = other
            try:
                odt = _cell_dtype(other)
            except Unsupported:
                return NotImplemented
            odt = ("weak", odt)
        if _py_isinstance(other, SArr) and other.swapped:
            oa = other.la
        sa = self.la if self.swapped else self.a
        x, y = (oa, sa) if swap else (sa, oa)
        r = _map2(f, x, y)
        if rkind in ("cmp", "eq", "ne"):
            dt = rnp.dtype("?")
        else:
            if _py_isinstance(odt, tuple):
                wk = odt[1].kind
                sk = self.dt.kind
                order = "biuf"
                if sk in "SU" or wk in "SU":
                    raise TypeError("ufunc did not contain a loop with signature matching types")
                if order.index(wk if wk != "u" else "i") <= order.index(sk if sk != "u" else "i"):
                    dt = self.dt
                else:
                    dt = odt[1]
                if self.dt.kind == "b" and wk == "b":
                    dt = self.dt
            else:
                dt = rnp.promote_types(self.dt, odt)
            if rkind == "div":
                if dt.kind != "f":
                    dt = rnp.dtype("f8")
            elif rkind == "arith" and dt.kind == "b":
                dt = rnp.dtype("i8")    # bool + bool is logical-or in numpy; not used by esutil
        if r.ndim == 0 and not getattr(self, "_keep0d", False):
            # NumPy: an operation whose operands are all 0-d returns a scalar, not a 0-d array
            c = r[()]
            if _py_isinstance(c, _py_float) and not _py_isinstance(c, rnp.floating):
                c = rnp.float64(c)
            return c
        return SArr(r, dt)

    def __add__(self, o):
        return self._binop(o, lambda a, b: a + b)

    def __radd__(self, o):
        return self._binop(o, lambda a, b: a + b, swap=True)

    def __sub__(self, o):
        return self._binop(o, lambda a, b: a - b)

    def __rsub__(self, o):
        return self._binop(o, lambda a, b: a - b, swap=True)

    def __mul__(self, o):
        return self._binop(o, lambda a, b: a * b)

    def __rmul__(self, o):
        return self._binop(o, lambda a, b: a * b, swap=True)

    def __truediv__(self, o):
        return self._binop(o, _truediv, rkind="div")

    def __rtruediv__(self, o):
        return self._binop(o, _truediv, rkind="div", swap=True)

    def __floordiv__(self, o):
        return self._binop(o, lambda a, b: a // b)

    def __rfloordiv__(self, o):
        return self._binop(o, lambda a, b: a // b, swap=True)

    def __mod__(self, o):
        return self._binop(o, _mod)

    def __rmod__(self, o):
        return self._binop(o, _mod, swap=True)

    def __pow__(self, o):
        return self._binop(o, _pow)

    def __rpow__(self, o):
        return self._binop(o, _pow, swap=True)

    def __neg__(self):
        if self.dt.kind == "u":
            # unsigned negation wraps modulo 2**bits
            m = 1 << (8 * self.dt.itemsize)
            return SArr(_map(lambda c: sym_ite(c == 0, 0, m - c) if is_sym(c) else ((-c) % m), self.la), self.dt)
        if self.dt.kind == "b":
            raise TypeError("The numpy boolean negative, the `-` operator, is not supported, "
                            "use the `~` operator or the logical_not function instead.")
        return SArr(_map(lambda c: -c, self.la), self.dt)

    def __pos__(self):
        return self.copy()

    def __abs__(self):
        return SArr(_map(_py_abs, self.a), self.dt)

    def __invert__(self):
        if self.dt.kind != "b":
            raise Unsupported("~ on non-boolean array")
        return SArr(_map(lambda c: (not c) if _py_isinstance(c, bool) else ~c, self.a), self.dt)

    def __and__(self, o):
        return self._binop(o, _land, rkind="cmp")

    __rand__ = __and__

    def __or__(self, o):
        return self._binop(o, _lor, rkind="cmp")

    __ror__ = __or__

    def __xor__(self, o):
        return self._binop(o, _lxor, rkind="cmp")

    def __lt__(self, o):
        return self._binop(o, lambda a, b: a < b, rkind="cmp")

    def __le__(self, o):
        return self._binop(o, lambda a, b: a <= b, rkind="cmp")

    def __gt__(self, o):
        return self._binop(o, lambda a, b: a > b, rkind="cmp")

    def __ge__(self, o):
        return self._binop(o, lambda a, b: a >= b, rkind="cmp")

    def __eq__(self, o):
        return self._binop(o, lambda a, b: a == b, rkind="eq")

    def __ne__(self, o):
        return self._binop(o, lambda a, b: a != b, rkind="ne")

    def _inplace(self, o, f, what):
        self._keep0d = True
        try:
            r = f(self, o)
        finally:
            self._keep0d = False
        if r is NotImplemented:
            raise TypeError("unsupported in-place operand")
        if self.dt.kind in "iub" and r.dt.kind == "f":
            raise TypeError("Cannot cast ufunc '%s' output from dtype('float64') to dtype('%s') "
                            "with casting rule 'same_kind'" % (what, self.dt))
        self[...] = r
        return self

    def __iadd__(self, o):
        return self._inplace(o, lambda a, b: a + b, "add")

    def __isub__(self, o):
        return self._inplace(o, lambda a, b: a - b, "subtract")

    def __imul__(self, o):
        return self._inplace(o, lambda a, b: a * b, "multiply")

    def __itruediv__(self, o):
        return self._inplace(o, lambda a, b: a / b, "divide")

    def __imod__(self, o):
        return self._inplace(o, lambda a, b: a % b, "remainder")

    # ---- reductions ----
    def _reduce(self, f, axis, init=None, empty_err=None):
        a = self.la
        if axis is None:
            cells = a.ravel().tolist()
            if not cells:
                if empty_err:
                    raise ValueError(empty_err)
                return init
            return f(cells)
        axis = _py_int(axis)
        moved = rnp.moveaxis(a, axis, -1)
        out = rnp.empty(moved.shape[:-1], dtype=object)
        for ix in rnp.ndindex(*moved.shape[:-1]):
            cells = moved[ix].tolist()
            if not cells:
                if empty_err:
                    raise ValueError(empty_err)
                out[ix] = init
            else:
                out[ix] = f(cells)
        return out

    def _wrapred(self, r, dt):
        if _py_isinstance(r, rnp.ndarray):
            if r.ndim == 0:
                v = r[()]           # full reduction gives a scalar, as in NumPy
                if _py_isinstance(v, _py_float) and not _py_isinstance(v, rnp.floating):
                    v = rnp.float64(v)
                return v
            return SArr(r, dt)
        return r

    def sum(self, axis=None, dtype=None, **kw):
        dt = self.dt
        if dt.kind == "b":
            dt = rnp.dtype("i8")
        zero = 0.0 if dt.kind == "f" else 0

        def f(cells):
            r = cells[0]
            if _py_isinstance(r, (SBool, bool)):
                r = cast_cell(r, dt)
            for c in cells[1:]:
                r = r + c
            return r
        return self._wrapred(self._reduce(f, axis, init=zero), dt)

    def mean(self, axis=None, **kw):
        n = self.a.size if axis is None else self.a.shape[_py_int(axis)]
        s = self.sum(axis=axis)
        if n == 0:
            if axis is None:
                return nan          # NumPy: RuntimeWarning + nan, no exception
            raise Unsupported("mean over an empty axis (nan)")
        return s / n if not _py_isinstance(s, _py_int) else s / n

    def var(self, axis=None, ddof=0, **kw):
        n = self.a.size if axis is None else self.a.shape[_py_int(axis)]
        if n == 0 and axis is None:
            return nan
        m = self.mean(axis=axis)
        if axis is not None and _py_isinstance(m, SArr):
            m = expand_dims(m, _py_int(axis))
        d = self - m
        return (d * d).sum(axis=axis) / (n - ddof)

    def std(self, axis=None, ddof=0, **kw):
        return sqrt(self.var(axis=axis, ddof=ddof))

    def min(self, axis=None, **kw):
        return self._wrapred(self._reduce(_minimum_cells, axis,
                             empty_err="zero-size array to reduction operation minimum which has no identity"), self.dt)

    def max(self, axis=None, **kw):
        return self._wrapred(self._reduce(_maximum_cells, axis,
                             empty_err="zero-size array to reduction operation maximum which has no identity"), self.dt)

    def any(self, axis=None, **kw):
        return self._wrapred(self._reduce(lambda cs: symx.sym_or(*[c != 0 if not _py_isinstance(c, (bool, SBool)) else c for c in cs]), axis, init=False), rnp.dtype("?"))

    def all(self, axis=None, **kw):
        return self._wrapred(self._reduce(lambda cs: symx.sym_and(*[c != 0 if not _py_isinstance(c, (bool, SBool)) else c for c in cs]), axis, init=True), rnp.dtype("?"))

    def cumsum(self, axis=None, **kw):
        if self.a.ndim != 1:
            raise Unsupported("cumsum on nd array")
        out = []
        r = None
        for c in self.la.tolist():
            r = c if r is None else r + c
            out.append(r)
        dt = self.dt if self.dt.kind != "b" else rnp.dtype("i8")
        return SArr(_obj_array(out), dt)

    def argsort(self, axis=-1, kind=None, **kw):
        if self.a.ndim != 1:
            raise Unsupported("argsort on nd array")
        stable = kind in ("stable", "mergesort")
        cells = self.la.tolist()
        if not stable and self.dt.kind in "iuf" and not _py_any(is_sym(c) for c in cells) and _py_len(cells):
            # concrete data: the order of ties under NumPy's default sort is whatever this NumPy does
            try:
                return SArr(_obj_array([_py_int(i) for i in rnp.argsort(rnp.array([_py_float(c) if self.dt.kind == "f" else _py_int(c) for c in cells], dtype=self.dt), kind=kind)]), rnp.dtype("i8"))
            except (TypeError, ValueError):
                pass
        return SArr(_obj_array(_argsort_cells(cells, stable)), rnp.dtype("i8"))

    def sort(self, axis=-1, kind=None, **kw):
        if self.a.ndim != 1:
            raise Unsupported("sort on nd array")
        cells = self.la.tolist()
        order = _argsort_cells(cells)
        for i, j in enumerate(order):
            self.a[i] = cells[j]

    def argmax(self, axis=None):
        if self.a.ndim != 1:
            raise Unsupported("argmax nd")
        cells = self.la.tolist()
        best = 0
        for i in range(1, _py_len(cells)):
            if cells[i] > cells[best]:
                best = i
        return best

    def argmin(self, axis=None):
        if self.a.ndim != 1:
            raise Unsupported("argmin nd")
        cells = self.la.tolist()
        best = 0
        for i in range(1, _py_len(cells)):
            if cells[i] < cells[best]:
                best = i
        return best

    def searchsorted(self, v, side="left", sorter=None):
        return searchsorted(self, v, side=side, sorter=sorter)

    def clip(self, min=None, max=None, out=None, **kw):
        return clip(self, min, max, out=out)

    def nonzero(self):
        return nonzero(self)

    def dot(self, o):
        return dot(self, o)

    def round(self, decimals=0):
        raise Unsupported("round")

    def conj(self):
        return self

    def __matmul__(self, o):
        return dot(self, o)


ndarray = SArr


def _truediv(a, b):
    if not is_sym(a) and not is_sym(b):
        # numpy semantics for concrete cells: x/0 is inf/nan, not an exception
        try:
            if symx.Ctx.current is not None:
                # exact rational quotient of integral operands (1/3 stays 1/3 in the
                # real model instead of its rounded double)
                fa, fb = _as_fraction(a), _as_fraction(b)
                if fa is not None and fb is not None and fb != 0:
                    q = fa / fb
                    return _py_float(q) if _py_float(q) == q and q.denominator in (1, 2, 4, 8, 16) else q
            return a / b
        except ZeroDivisionError:
            raise Unsupported("concrete division by zero (inf/nan) in a cell")
    return a / b


def _as_fraction(v):
    if _py_isinstance(v, bool):
        return None
    if _py_isinstance(v, fractions.Fraction):
        return v
    if _py_isinstance(v, (_py_int, rnp.integer)):
        return fractions.Fraction(_py_int(v))
    if _py_isinstance(v, (_py_float, rnp.floating)) and _py_float(v).is_integer() and _py_abs(v) < 2 ** 53:
        return fractions.Fraction(_py_int(v))
    return None


def _mod(a, b):
    if not is_sym(a) and not is_sym(b):
        try:
            return a % b
        except ZeroDivisionError:
            raise Unsupported("concrete modulo by zero in a cell")
    return a % b


def _pow(a, b):
    if is_sym(a) or is_sym(b):
        if _py_isinstance(a, Sym):
            return a ** b
        raise Unsupported("symbolic exponent")
    return a ** b


def _land(a, b):
    if _py_isinstance(a, bool) and _py_isinstance(b, bool):
        return a and b
    if _py_isinstance(a, (bool, SBool)) and _py_isinstance(b, (bool, SBool)):
        return symx.sym_and(a, b)
    raise Unsupported("bitwise and on non-boolean cells")


def _lor(a, b):
    if _py_isinstance(a, bool) and _py_isinstance(b, bool):
        return a or b
    if _py_isinstance(a, (bool, SBool)) and _py_isinstance(b, (bool, SBool)):
        return symx.sym_or(a, b)
    raise Unsupported("bitwise or on non-boolean cells")


def _lxor(a, b):
    if _py_isinstance(a, (bool, SBool)) and _py_isinstance(b, (bool, SBool)):
        return a != b
    raise Unsupported("xor on non-boolean cells")


def _map(f, a):
    out = rnp.empty(a.shape, dtype=object)
    of = out.reshape(-1) if out.size else out
    for i, c in enumerate(a.ravel().tolist()):
        of[i] = f(c)
    return out


def _map2(f, x, y):
    bx, by = rnp.broadcast_arrays(x, y)
    out = rnp.empty(bx.shape, dtype=object)
    of = out.reshape(-1)
    i = 0
    for cx_, cy_ in zip(bx.ravel().tolist(), by.ravel().tolist()):
        of[i] = f(cx_, cy_)
        i += 1
    return out


def _minimum_cells(cells):
    r = cells[0]
    for c in cells[1:]:
        if is_sym(r) or is_sym(c):
            r = sym_ite(c < r, c, r)
        else:
            r = c if c < r else r
    return r


def _maximum_cells(cells):
    r = cells[0]
    for c in cells[1:]:
        if is_sym(r) or is_sym(c):
            r = sym_ite(c > r, c, r)
        else:
            r = c if c > r else r
    return r


def _argsort_cells(cells, stable=True):
    """insertion sort on symbolic comparisons (forks); returns index list.
    stable=False models NumPy's default (SIMD) quicksort: the relative order of equal
    elements is unspecified, so each tie is a nondeterministic choice (forked)."""
    order = []
    cx = symx.Ctx.current
    for i, c in enumerate(cells):
        j = _py_len(order)
        while j > 0:
            o = cells[order[j - 1]]
            if bool(c < o):
                j -= 1
                continue
            if not stable and cx is not None and bool(c == o) and cx.nondet("tie"):
                j -= 1
                continue
            break
        order.insert(j, i)
    return order


# ---------------------------------------------------------------------------
# constructors

def _c_contiguous(r):
    """NumPy: order='C' / ascontiguousarray copy an array whose memory is not C-contiguous"""
    from . import symrec
    if _py_isinstance(r, symrec.SRec):
        return r if r.flags.c_contiguous else r.copy()
    if _py_isinstance(r, SArr) and not r.a.flags.c_contiguous:
        return SArr(rnp.ascontiguousarray(r.a), r.dt)
    return r


def asarray(x, dtype=None, order=None, **kw):
    r = array(x, dtype=dtype, copy=False)
    return _c_contiguous(r) if order == "C" else r


def asanyarray(x, dtype=None, **kw):
    return array(x, dtype=dtype, copy=False)


def ascontiguousarray(x, dtype=None):
    r = _c_contiguous(array(x, dtype=dtype, copy=False))
    if _py_isinstance(r, SArr) and r.ndim == 0:
        r = r.reshape((1,))
    return r


def array(x, dtype=None, copy=True, ndmin=0, order=None, **kw):
    dt = globals()["dtype"](dtype) if dtype is not None else None
    from . import symrec
    if _py_isinstance(x, symrec.SRec):
        if dt is not None and dt != x.dt:
            r = x.astype(dt)
        else:
            r = x.copy() if copy else x
        if ndmin and r.ndim < ndmin:
            r = r.reshape((1,) * (ndmin - r.ndim) + r.shape)
        return r
    if dt is not None and dt.names is not None:
        raise Unsupported("structured dtype in plain symnp.array")
    if _py_isinstance(x, SArr):
        if dt is None or dt == x.dt:
            r = x.copy() if copy else x
        else:
            r = x.astype(dt)
    else:
        nested = _unnest(x)
        a = _obj_array(nested)
        if dt is None:
            dt = _result_dtype(_flat_cells(nested))
        r = SArr(_map(lambda c: cast_cell(c, dt), a), dt)
        if r.swapped:
            r.a = _map(symx.bswap, r.a)
    if ndmin and r.ndim < ndmin:
        r = SArr(r.a.reshape((1,) * (ndmin - r.ndim) + r.a.shape), r.dt)
    return r


def atleast_1d(*xs):
    out = []
    for x in xs:
        r = array(x, copy=False)
        if r.ndim == 0:
            r = r.reshape(1)
        out.append(r)
    return out[0] if _py_len(out) == 1 else out


def _shape(s):
    if _py_isinstance(s, (tuple, list)):
        return tuple(_py_int(v) for v in s)
    if _py_isinstance(s, SReal) or _py_isinstance(s, _py_float):
        raise TypeError("'float' object cannot be interpreted as an integer")
    return (_py_int(s),)


def _full(shape, v, dt):
    shape = _shape(shape)
    for s in shape:
        if s < 0:
            raise ValueError("negative dimensions are not allowed")
        if s > 4096:
            raise Unsupported("array of %d cells requested (unbounded symbolic size?)" % s)
    a = rnp.empty(shape, dtype=object)
    if a.size:
        a.reshape(-1)[:] = [v] * a.size
    return SArr(a, dt)


def zeros(shape, dtype=float, order="C", **kw):
    dt = globals()["dtype"](dtype)
    if dt.names is not None:
        from . import symrec
        return symrec.SRec.zeros(shape, dt)
    return _full(shape, cast_cell(0, dt) if dt.kind not in "SU" else (b"" if dt.kind == "S" else ""), dt)


def ones(shape, dtype=float, **kw):
    dt = globals()["dtype"](dtype)
    return _full(shape, cast_cell(1, dt), dt)


def empty(shape, dtype=float, **kw):
    return zeros(shape, dtype)


def full(shape, v, dtype=None):
    dt = globals()["dtype"](dtype) if dtype is not None else _cell_dtype(v)
    return _full(shape, cast_cell(v, dt), dt)


def zeros_like(x, dtype=None):
    x = asarray(x)
    return zeros(x.shape, dtype if dtype is not None else x.dt)


def ones_like(x, dtype=None):
    x = asarray(x)
    return ones(x.shape, dtype or x.dt)


def empty_like(x, dtype=None):
    return zeros_like(x, dtype)


def arange(*args, **kw):
    dt = kw.get("dtype")
    args = [_py_int(a) if _py_isinstance(a, SInt) else a for a in args]
    for a_ in args:
        if is_sym(a_):
            raise Unsupported("arange with symbolic real bounds")
    r = rnp.arange(*args)
    out = SArr(_obj_array(r.tolist()), r.dtype)
    if dt is not None:
        out = out.astype(dt)
    return out


def linspace(start, stop, num=50, endpoint=True, **kw):
    num = _py_int(num)
    if num <= 0:
        return zeros(0)
    if num == 1:
        return array([start], dtype="f8")
    div = (num - 1) if endpoint else num
    step = (stop - start) / div
    cells = [start + i * step for i in range(num)]
    if endpoint:
        cells[-1] = stop
    return array(cells, dtype="f8")


def copy(x):
    return array(x, copy=True)


def expand_dims(x, axis):
    x = asarray(x)
    return SArr(rnp.expand_dims(x.a, axis), x.dt)


def squeeze(x, axis=None):
    return asarray(x).squeeze(axis)


def ravel(x):
    return asarray(x).ravel()


def reshape(x, shape):
    return asarray(x).reshape(shape)


def transpose(x, *a):
    return asarray(x).transpose(*a)


def concatenate(xs, axis=0):
    xs = [asarray(x) for x in xs]
    dt = xs[0].dt
    for x in xs[1:]:
        dt = rnp.promote_types(dt, x.dt)
    a = rnp.concatenate([x.a for x in xs], axis=axis)
    return SArr(_map(lambda c: cast_cell(c, dt), a), dt)


def hstack(xs):
    return concatenate([atleast_1d(x) for x in xs], axis=0 if atleast_1d(xs[0]).ndim == 1 else 1)


def meshgrid(*xs, **kw):
    xs = [asarray(x) for x in xs]
    idx = kw.get("indexing", "xy")
    grids = rnp.meshgrid(*[x.a for x in xs], indexing=idx)
    return [SArr(g.copy(), x.dt) for g, x in zip(grids, xs)]


# ---------------------------------------------------------------------------
# functions

def _unary(f, to_float=True):
    def g(x, out=None, **kw):
        if _py_isinstance(x, (SArr, list, tuple, rnp.ndarray)):
            xa = asarray(x)
            dt = rnp.dtype("f8") if (to_float and xa.dt.kind != "f") else xa.dt
            r = SArr(_map(f, xa.la), dt)
            if out is not None:
                out[...] = r
                return out
            return r
        r = f(_py_scalar(x))
        if out is not None:
            out[...] = r
            return out
        if to_float and _py_isinstance(r, _py_float) and not _py_isinstance(r, rnp.floating):
            r = rnp.float64(r)      # NumPy scalar semantics (x/0 -> inf/nan + warning, not an exception)
        return r
    return g


def _sqrt_cell(c):
    if _py_isinstance(c, _py_float) and c != c:
        return c
    if is_sym(c):
        return sym_sqrt(c)
    if c < 0:
        raise Unsupported("sqrt of a negative concrete value (nan)")
    if symx.Ctx.current is not None and not _py_isinstance(c, bool):
        # exact: an irrational root of a concrete number is kept as a witness r>=0, r*r=c
        # (a rounded float would break identities such as (s/sqrt(3))**2 == s*s/3)
        r = math.sqrt(c)
        if r * r == c and float(r).is_integer():
            return _py_float(r)
        return sym_sqrt(SReal(symx.ratval(c)))
    return math.sqrt(c)


sqrt = _unary(_sqrt_cell)
abs = _unary(_py_abs, to_float=False)
absolute = abs
fabs = abs


def _sign_cell(c):
    if is_sym(c):
        return sym_ite(c > 0, 1, sym_ite(c < 0, -1, 0)) if _py_isinstance(c, SInt) else sym_ite(c > 0, 1.0, sym_ite(c < 0, -1.0, 0.0))
    return (c > 0) - (c < 0)


sign = _unary(_sign_cell, to_float=False)


def _floor_cell(c):
    if _py_isinstance(c, SReal):
        return SReal(symx.floor_real(c.t))
    if is_sym(c):
        return to_real(c)
    return _py_float(math.floor(c))


def _ceil_cell(c):
    if _py_isinstance(c, SReal):
        return SReal(-symx.floor_real(-c.t))
    if is_sym(c):
        return to_real(c)
    return _py_float(math.ceil(c))


floor = _unary(_floor_cell)
ceil = _unary(_ceil_cell)


def _isfinite_cell(c):
    if is_sym(c):
        return True
    return math.isfinite(c)


isfinite = _unary(_isfinite_cell, to_float=False)
isnan = _unary(lambda c: False if is_sym(c) else math.isnan(c), to_float=False)
isinf = _unary(lambda c: False if is_sym(c) else math.isinf(c), to_float=False)

# trig functions are installed by vf.trig (algebraisation); default: concrete only


def _concrete_only(name, f):
    def g(c):
        if is_sym(c):
            hook = _TRIG.get(name)
            if hook is None:
                raise Unsupported("np.%s of a symbolic value without the trig layer" % name)
            return hook(c)
        hook = _TRIG.get(name)
        if hook is not None and _TRIG.get("__all__"):
            return hook(c)
        return f(c)
    return g


_TRIG = {}
sin = _unary(_concrete_only("sin", math.sin))
cos = _unary(_concrete_only("cos", math.cos))
tan = _unary(_concrete_only("tan", math.tan))
arcsin = _unary(_concrete_only("arcsin", math.asin))
arccos = _unary(_concrete_only("arccos", math.acos))
arctan = _unary(_concrete_only("arctan", math.atan))
sinh = _unary(_concrete_only("sinh", math.sinh))
exp = _unary(_concrete_only("exp", math.exp))
log = _unary(_concrete_only("log", math.log))
log10 = _unary(_concrete_only("log10", math.log10))


def _binary(f, rkind=None):
    def g(x, y, out=None, **kw):
        if _py_isinstance(x, (SArr, list, tuple, rnp.ndarray)) or _py_isinstance(y, (SArr, list, tuple, rnp.ndarray)):
            xa = asarray(x) if not _py_isinstance(x, SArr) else x
            if _py_isinstance(x, (SArr, list, tuple, rnp.ndarray)):
                r = xa._binop(y, f, rkind=rkind)
            else:
                r = asarray(y)._binop(x, f, rkind=rkind, swap=True)
        else:
            r = f(_py_scalar(x), _py_scalar(y))
        if out is not None:
            out[...] = r
            return out
        return r
    return g


def _arctan2_cell(y, x):
    if is_sym(y) or is_sym(x) or _TRIG.get("__all__"):
        hook = _TRIG.get("arctan2")
        if hook is None:
            raise Unsupported("np.arctan2 of symbolic values without the trig layer")
        return hook(y, x)
    return math.atan2(y, x)


arctan2 = _binary(_arctan2_cell, rkind="div")
add = _binary(lambda a, b: a + b)
subtract = _binary(lambda a, b: a - b)
multiply = _binary(lambda a, b: a * b)
divide = _binary(_truediv, rkind="div")
true_divide = divide
mod = _binary(_mod)
remainder = mod
power = _binary(_pow)
logical_and = _binary(lambda a, b: symx.sym_and(a != 0 if not _py_isinstance(a, (bool, SBool)) else a, b != 0 if not _py_isinstance(b, (bool, SBool)) else b), rkind="cmp")
logical_or = _binary(lambda a, b: symx.sym_or(a != 0 if not _py_isinstance(a, (bool, SBool)) else a, b != 0 if not _py_isinstance(b, (bool, SBool)) else b), rkind="cmp")
logical_not = _unary(lambda a: symx.sym_not(a != 0 if not _py_isinstance(a, (bool, SBool)) else a), to_float=False)
greater = _binary(lambda a, b: a > b, rkind="cmp")
less = _binary(lambda a, b: a < b, rkind="cmp")
equal = _binary(lambda a, b: a == b, rkind="cmp")
maximum = _binary(lambda a, b: _maximum_cells([a, b]))
minimum = _binary(lambda a, b: _minimum_cells([a, b]))


def deg2rad(x, out=None, **kw):
    hook = _TRIG.get("deg2rad")
    if hook is not None:
        r = SArr(_map(hook, asarray(x).la), rnp.dtype("f8")) if _py_isinstance(x, (SArr, list, tuple)) else hook(x)
    else:
        r = x * (pi_value() / 180.0)
    if out is not None:
        out[...] = r
        return out
    return r


def rad2deg(x, out=None, **kw):
    hook = _TRIG.get("rad2deg")
    if hook is not None:
        r = SArr(_map(hook, asarray(x).la), rnp.dtype("f8")) if _py_isinstance(x, (SArr, list, tuple)) else hook(x)
    else:
        r = x * (180.0 / pi_value())
    if out is not None:
        out[...] = r
        return out
    return r


radians = deg2rad
degrees = rad2deg


def pi_value():
    return globals()["pi"]


def clip(x, a_min=None, a_max=None, out=None, **kw):
    if "min" in kw:
        a_min = kw["min"]
    if "max" in kw:
        a_max = kw["max"]
    scalar = not _py_isinstance(x, (SArr, list, tuple, rnp.ndarray))
    xa = asarray(x)

    def f(c):
        if a_min is not None:
            c = _maximum_cells([a_min, c]) if (is_sym(c) or is_sym(a_min)) else (a_min if c < a_min else c)
        if a_max is not None:
            c = _minimum_cells([a_max, c]) if (is_sym(c) or is_sym(a_max)) else (a_max if c > a_max else c)
        return c
    if _py_isinstance(a_min, SArr) or _py_isinstance(a_max, SArr):
        raise Unsupported("clip with array bounds")
    dt = xa.dt
    for b in (a_min, a_max):
        if b is not None and _cell_dtype(b).kind == "f" and dt.kind != "f":
            dt = rnp.dtype("f8")
    r = SArr(_map(lambda c: cast_cell(f(c), dt), xa.la), dt)
    if out is not None:
        out[...] = r
        return out
    if scalar:
        return r.a[()]
    return r


def where(cond, x=None, y=None):
    c = asarray(cond)
    if x is None and y is None:
        return nonzero(c)
    xa, ya = asarray(x), asarray(y)
    bc, bx, by = rnp.broadcast_arrays(c.a, xa.a, ya.a)
    out = rnp.empty(bc.shape, dtype=object)
    of = out.reshape(-1)
    dt = rnp.promote_types(xa.dt, ya.dt)
    for i, (cc, cx_, cy_) in enumerate(zip(bc.ravel().tolist(), bx.ravel().tolist(), by.ravel().tolist())):
        if _py_isinstance(cc, bool):
            of[i] = cast_cell(cx_ if cc else cy_, dt)
        else:
            of[i] = sym_ite(cc, cast_cell(cx_, dt), cast_cell(cy_, dt))
    return SArr(out, dt)


def nonzero(c):
    c = asarray(c)
    if c.ndim == 0:
        raise ValueError("Calling nonzero on 0d arrays is not allowed. "
                         "Use np.atleast_1d(scalar).nonzero() instead.")
    flags = [bool(v) if _py_isinstance(v, (bool, SBool)) else bool(v != 0) for v in c.a.ravel().tolist()]
    real = rnp.array(flags, dtype=bool).reshape(c.a.shape)
    return tuple(SArr(_obj_array(ix.tolist()), rnp.dtype("i8")) for ix in rnp.nonzero(real))


def flatnonzero(c):
    return nonzero(asarray(c).ravel())[0]


def any(x, axis=None):
    return asarray(x).any(axis=axis)


def all(x, axis=None):
    return asarray(x).all(axis=axis)


def sum(x, axis=None, **kw):
    return asarray(x).sum(axis=axis)


def mean(x, axis=None, **kw):
    return asarray(x).mean(axis=axis)


def std(x, axis=None, **kw):
    return asarray(x).std(axis=axis)


def amin(x, axis=None):
    return asarray(x).min(axis=axis)


def amax(x, axis=None):
    return asarray(x).max(axis=axis)


min = amin
max = amax


def cumsum(x, axis=None):
    return asarray(x).cumsum(axis=axis)


def argsort(x, axis=-1, kind=None, **kw):
    return asarray(x).argsort(kind=kind)


def copyto(dst, src, casting="same_kind", where=True):
    """numpy.copyto: element-wise assignment into dst (a store: the write monitor sees it)"""
    from . import symrec
    if where is not True:
        raise Unsupported("copyto with where=")
    if _py_isinstance(dst, symrec.SRec):
        if not _py_isinstance(src, symrec.SRec):
            raise Unsupported("copyto of a non-table into a table")
        for nm in dst.dtype.names:
            dst[nm] = src[nm]
        return None
    dst[...] = src
    return None


def diagonal(x, offset=0):
    xa = asarray(x)
    if xa.ndim != 2 or offset != 0:
        raise Unsupported("diagonal of a non-matrix / with offset")
    n = _py_min(xa.shape)
    return SArr(_obj_array([xa.a[i, i] for i in range(n)]) if n else rnp.empty((0,), dtype=object), xa.dt)


def diag(x, k=0):
    xa = asarray(x)
    if k != 0:
        raise Unsupported("diag with offset")
    if xa.ndim == 2:
        return diagonal(xa)
    if xa.ndim == 1:
        n = xa.size
        out = rnp.empty((n, n), dtype=object)
        for i in range(n):
            for j in range(n):
                out[i, j] = xa.a[i] if i == j else (0.0 if xa.dt.kind == "f" else 0)
        return SArr(out, xa.dt)
    raise Unsupported("diag of an nd array")


def isclose(a, b, rtol=1e-05, atol=1e-08, equal_nan=False):
    """|a - b| <= atol + rtol * |b| element by element (finite values)"""
    d = abs(a - b)
    bound = atol + rtol * abs(b)
    return d <= bound


def allclose(a, b, rtol=1e-05, atol=1e-08, equal_nan=False):
    r = isclose(a, b, rtol=rtol, atol=atol)
    return all(r) if _py_isinstance(r, SArr) else r


def roll(x, shift, axis=None):
    xa = asarray(x)
    if xa.ndim != 1 or is_sym(shift):
        raise Unsupported("roll on nd arrays / symbolic shift")
    n = xa.size
    if n == 0:
        return xa.copy()
    k = _py_int(shift) % n
    c = xa.a.tolist()
    out = c[n - k:] + c[:n - k]
    return SArr(_obj_array(out), xa.dt)


def diff(x, n=1, axis=-1):
    xa = asarray(x)
    if xa.ndim != 1 or n != 1:
        raise Unsupported("diff on nd arrays / n != 1")
    c = xa.la.tolist()
    out = [c[i + 1] - c[i] for i in range(_py_len(c) - 1)]
    return SArr(_obj_array(out) if out else rnp.empty((0,), dtype=object), xa.dt if xa.dt.kind != "b" else rnp.dtype("i8"))


def lexsort(keys, axis=-1):
    """indirect stable sort on several keys, the last key being the primary one"""
    ks = [asarray(k) for k in keys]
    n = ks[0].size
    for k in ks:
        if k.ndim != 1 or k.size != n:
            raise Unsupported("lexsort on non 1-d / unequal keys")
    cols = [k.la.tolist() for k in ks][::-1]      # primary first
    order = []
    for i in range(n):
        j = _py_len(order)
        while j > 0:
            o = order[j - 1]
            less = False
            for col in cols:
                if bool(col[i] < col[o]):
                    less = True
                    break
                if bool(col[i] > col[o]):
                    break
            if less:
                j -= 1
                continue
            break
        order.insert(j, i)
    return SArr(_obj_array(order) if order else rnp.empty((0,), dtype=object), rnp.dtype("i8"))


def sort(x, axis=-1, kind=None):
    r = array(x, copy=True)
    r.sort()
    return r


def median(x, axis=None, **kw):
    xa = asarray(x)
    if axis is not None or xa.ndim != 1:
        raise Unsupported("median on nd array / axis")
    cells = xa.la.tolist()
    n = _py_len(cells)
    if n == 0:
        return nan
    order = _argsort_cells(cells)
    if n % 2 == 1:
        r = cells[order[n // 2]]
        return to_real(r) if is_sym(r) else _py_float(r)
    return (cells[order[n // 2 - 1]] + cells[order[n // 2]]) / 2.0


def unique(x, return_index=False, return_inverse=False, return_counts=False, **kw):
    if return_inverse or return_counts:
        raise Unsupported("unique(return_inverse/return_counts)")
    xa = asarray(x).ravel()
    cells = xa.la.tolist()
    order = _argsort_cells(cells)
    keep = []
    for j in order:
        if not keep or bool(cells[j] != cells[keep[-1]]):
            keep.append(j)
    vals = SArr(_obj_array([cells[j] for j in keep]), xa.dt)
    if return_index:
        return vals, SArr(_obj_array(keep), rnp.dtype("i8"))
    return vals


def searchsorted(a, v, side="left", sorter=None):
    a = asarray(a)
    if a.ndim != 1:
        raise ValueError("object too deep for desired array")
    cells = a.la.tolist()
    if sorter is not None:
        srt = [_py_int(i) for i in asarray(sorter).a.tolist()]
        cells = [cells[i] for i in srt]
    scalar = not _py_isinstance(v, (SArr, list, tuple, rnp.ndarray))
    va = asarray(v)

    def find(c):
        # binary search exactly like numpy (left): first i with cells[i] >= c
        lo, hi = 0, _py_len(cells)
        while lo < hi:
            mid = (lo + hi) // 2
            less = (cells[mid] < c) if side == "left" else (cells[mid] <= c)
            if bool(less):
                lo = mid + 1
            else:
                hi = mid
        return lo
    r = SArr(_map(find, va.a), rnp.dtype("i8"))
    if scalar:
        return r.a[()]
    return r


def dot(x, y):
    xa, ya = asarray(x), asarray(y)
    if xa.ndim == 0 or ya.ndim == 0:
        return xa * ya if xa.ndim and ya.ndim else (xa * ya if (xa.ndim or ya.ndim) else xa.a[()] * ya.a[()])
    dt = rnp.promote_types(xa.dt, ya.dt)
    if xa.ndim == 1 and ya.ndim == 1:
        if xa.shape != ya.shape:
            raise ValueError("shapes %s and %s not aligned" % (xa.shape, ya.shape))
        return symx.sym_sum([p * q for p, q in zip(xa.la.tolist(), ya.la.tolist())])
    if xa.ndim == 2 and ya.ndim == 1:
        if xa.shape[1] != ya.shape[0]:
            raise ValueError("shapes not aligned")
        return SArr(_obj_array([symx.sym_sum([p * q for p, q in zip(row, ya.la.tolist())]) for row in xa.la.tolist()]), dt)
    if xa.ndim == 1 and ya.ndim == 2:
        if xa.shape[0] != ya.shape[0]:
            raise ValueError("shapes not aligned")
        cols = ya.a.T.tolist()
        return SArr(_obj_array([symx.sym_sum([p * q for p, q in zip(xa.la.tolist(), col)]) for col in cols]), dt)
    if xa.ndim == 2 and ya.ndim == 2:
        if xa.shape[1] != ya.shape[0]:
            raise ValueError("shapes not aligned")
        cols = ya.a.T.tolist()
        return SArr(_obj_array([[symx.sym_sum([p * q for p, q in zip(row, col)]) for col in cols] for row in xa.la.tolist()]), dt)
    raise Unsupported("dot for these ranks")


def inner(x, y):
    xa, ya = asarray(x), asarray(y)
    if xa.ndim <= 1 and ya.ndim <= 1:
        return dot(atleast_1d(xa), atleast_1d(ya))
    raise Unsupported("inner nd")


def outer(x, y):
    xa, ya = asarray(x).ravel(), asarray(y).ravel()
    dt = rnp.promote_types(xa.dt, ya.dt)
    return SArr(_obj_array([[p * q for q in ya.la.tolist()] for p in xa.la.tolist()]), dt) if xa.size and ya.size else zeros((xa.size, ya.size), dt)


def cross(x, y, axisa=-1, axisb=-1, axisc=-1, axis=None):
    xa, ya = asarray(x), asarray(y)
    if axis is not None:
        axisa = axisb = axisc = axis
    if xa.ndim == 0 or ya.ndim == 0:
        raise ValueError("At least one array has zero dimension")
    X, Y = rnp.moveaxis(xa.a, axisa, -1), rnp.moveaxis(ya.a, axisb, -1)
    if X.shape[-1] not in (2, 3) or Y.shape[-1] not in (2, 3):
        raise ValueError("incompatible dimensions for cross product\n(dimension must be 2 or 3)")
    if X.shape != Y.shape or X.shape[-1] != 3:
        raise Unsupported("cross for these shapes")
    r = _cross_last(X, Y, rnp.promote_types(xa.dt, ya.dt))
    if axisc != -1 and r.ndim > 1:
        r = SArr(rnp.moveaxis(r.a, -1, axisc), r.dt)
    return r


def _cross_last(X, Y, dt):
    out = rnp.empty(X.shape, dtype=object)
    for ix in rnp.ndindex(*X.shape[:-1]):
        a0, a1, a2 = X[ix]
        b0, b1, b2 = Y[ix]
        out[ix + (0,)] = a1 * b2 - a2 * b1
        out[ix + (1,)] = a2 * b0 - a0 * b2
        out[ix + (2,)] = a0 * b1 - a1 * b0
    return SArr(out, dt)


def convolve(x, k, mode="full"):
    xa, ka = asarray(x).ravel(), asarray(k).ravel()
    if mode != "full":
        raise Unsupported("convolve mode")
    n, m = xa.size, ka.size
    if n == 0 or m == 0:
        raise ValueError("v cannot be empty")
    xs, ks = xa.la.tolist(), ka.la.tolist()
    out = []
    for i in range(n + m - 1):
        terms = [xs[j] * ks[i - j] for j in range(n) if 0 <= i - j < m]
        out.append(symx.sym_sum(terms))
    return SArr(_obj_array(out), rnp.promote_types(xa.dt, ka.dt))


def shares_memory(a, b):
    return rnp.shares_memory(a.a, b.a)


def iterable(x):
    try:
        iter(x)
        return True
    except TypeError:
        return False


def result_type(*a):
    return rnp.result_type(*[x.dt if _py_isinstance(x, SArr) else x for x in a])


def can_cast(*a, **k):
    return rnp.can_cast(*a, **k)


def issubdtype(a, b):
    if _py_isinstance(a, _STy):
        a = a.real
    if _py_isinstance(b, _STy):
        b = b.real
    return rnp.issubdtype(a, b)


class _Linalg(object):
    pass


linalg = _Linalg()


class _Random(object):
    def __getattr__(self, name):
        if name.startswith("__"):
            raise AttributeError(name)

        def f(*a, **k):
            raise Unsupported("numpy.random.%s reached (pass a stub generator)" % name)
        return f


random = _Random()

lib = rnp.lib
__version__ = rnp.__version__


def __getattr__(name):
    if name.startswith("__"):
        raise AttributeError(name)
    raise Unsupported("numpy.%s is not modelled by vf.symnp" % name)
