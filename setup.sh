#!/bin/sh
# Builds /verif/.venv: an overlay on /venv (numpy, scipy, pytest ...) plus
# z3-solver and crosshair-tool from the offline wheelhouse.  Idempotent.
set -e
cd "$(dirname "$0")"
V=.venv
if [ ! -x "$V/bin/python" ] || ! "$V/bin/python" -c "import z3, crosshair, numpy" 2>/dev/null; then
    rm -rf "$V"
    /venv/bin/python -m venv "$V"
    SP=$("$V/bin/python" -c "import sysconfig; print(sysconfig.get_paths()['purelib'])")
    echo "import site; site.addsitedir('/venv/lib/python3.12/site-packages')" > "$SP/_overlay.pth"
    PIP_NO_INDEX=1 "$V/bin/python" -m pip install -q --no-index \
        --find-links /opt/veriftools/wheels z3-solver crosshair-tool jsonschema >/dev/null
fi
"$V/bin/python" -c "import z3, crosshair, numpy; print('verif venv ok: z3', z3.get_version_string(), 'numpy', numpy.__version__)"
