"""C07 -- structured-array field operations preserve data, types and documented order."""
import itertools

from vf import symx, symnp, symrec, loader
from vf.symx import sym_and, sym_or, sym_not, Swapped
import numpy as rnp

PROPERTY = "C07"
LEVEL = "model_checking"
NEEDS_BUILD = False
FUNCTIONS = [("esutil/numpy_util.py", n) for n in
             ("extract_fields", "remove_fields", "add_fields", "reorder_fields", "combine_fields",
              "copy_fields", "copy_fields_by_name", "split_fields", "compare_arrays")]
ASSUMPTIONS = [
    "cell values are opaque solver variables (the operations only move them); field layouts, name selections, container kinds and table shapes are enumerated from a fixed universe (they are configurations, concrete per run)",
    "packed structured dtypes; NumPy's dtype objects (descr, names, fields) are the library's own, array storage is modelled by vf.symrec (conformance pass)",
    "table shapes (), (2,), (2,2); at most 4 fields per table and 3 tables to combine",
]
BOUNDS = {"quick": {"layouts": 3, "selections": "all ordered selections of <=2 names (+missing) and two of length 3", "shapes": "(), (2,), (2,2)"},
          "thorough": {"layouts": 3, "selections": "all ordered selections of <=3 names (+missing)", "shapes": "(), (2,), (2,2), (1,)"}}
EXPLORE_OPTS = {"max_paths": 20000}
TIER_OPTS = {"quick": {"time_budget": 300}, "thorough": {"time_budget": 1800}}

LAYOUTS = {
    "A": [("ra", ">f8"), ("ra_err", "<i4"), ("dec", "|S3"), ("v", "<f4", (2,))],
    "B": [("id", "<i8"), ("name", "<U2"), ("flag", "|i1")],
    "C": [("x", ">i2", (2, 2)), ("y", ">f4")],
}
SHAPES = ((), (2,), (2, 2))
MISSING = "nosuch"


def configs(tier):
    q = tier == "quick"
    out = []
    lays = ("A", "B", "C")
    shapes = SHAPES if q else SHAPES + ((1,),)
    for lay in lays:
        names = [d[0] for d in LAYOUTS[lay]]
        uni = names + [MISSING]
        sels = [(n,) for n in uni] + list(itertools.permutations(uni, 2))
        if q:
            sels += [tuple(names[:3][::-1]), (names[-1], MISSING, names[0])]
        else:
            sels += list(itertools.permutations(uni, 3))
        for shape in shapes:
            for fn in ("extract", "remove", "reorder"):
                for sel in sels:
                    if shape != (2,) and len(sel) > 1 and q:
                        continue
                    out.append((fn, lay, shape, sel))
            out.append(("add", lay, shape))
            out.append(("split", lay, shape))
            out.append(("copy", lay, shape))
            if shape == () or (shape == (2,) and lay == "B"):
                out.append(("compare", lay, shape))     # every cell comparison forks: small tables only
            if shape == (2, 2):
                out.append(("compare_shape", lay, shape))
    for shape in shapes:
        for parts in (("A",), ("A", "B"), ("B", "C"), ("A", "B", "C"), ("A", "A")):
            out.append(("combine", parts, shape))
        out.append(("combine_mismatch", ("A", "B"), shape))
    out.append(("combine_empty", (), ()))
    return out


def _mod():
    return loader.Loader().get("esutil.numpy_util")


_n = [0]


def _table(cx, lay, shape, tag="t"):
    dt = rnp.dtype(LAYOUTS[lay])
    r = symrec.SRec.zeros(shape, dt)
    logical = {}
    for name in dt.names:
        b, sub = symrec.field_base(dt, name)
        full = tuple(shape) + tuple(sub)
        src = rnp.empty(full, dtype=object)
        cells = []
        for ix in rnp.ndindex(*full):
            c = cx.int("%s_%s_%s" % (tag, name, "_".join(map(str, ix))))
            src[ix] = c
            cells.append(c)
        nat = b.newbyteorder("=") if b.itemsize > 1 and b.kind not in "SU" else b
        r[name] = symnp.SArr(src, nat)
        logical[name] = (cells, full)
    return r, logical


def _flat_logical(arr, name):
    a = arr[name].la
    return a.ravel().tolist() if a.ndim else [a[()]]


def _same(a, b):
    if isinstance(a, Swapped) or isinstance(b, Swapped):
        return isinstance(a, Swapped) and isinstance(b, Swapped) and _same(a.x, b.x)
    return a == b


def _check_fields(cx, what, out, src, logical, want_names, in_shape):
    cx.check("%s: result is a structured array" % what, isinstance(out, symrec.SRec))
    if not isinstance(out, symrec.SRec):
        return
    cx.check("%s: field list is exactly the documented one, in order" % what, list(out.dtype.names) == list(want_names))
    cx.check("%s: shape preserved" % what, tuple(out.shape) == tuple(in_shape))
    if list(out.dtype.names) != list(want_names) or tuple(out.shape) != tuple(in_shape):
        return
    for n in want_names:
        if n not in src.dtype.names:
            continue
        a, b = src.dtype.fields[n][0], out.dtype.fields[n][0]
        cx.check("%s: retained field keeps type, sub-array shape and byte order" % what,
                 a.base.kind == b.base.kind and a.base.itemsize == b.base.itemsize and a.shape == b.shape and a.base.byteorder == b.base.byteorder)
        got = _flat_logical(out, n)
        cells = logical[n][0]
        cx.check("%s: retained field has as many cells" % what, len(got) == len(cells))
        for g, c in zip(got, cells):
            cx.check("%s: retained field data element-wise equal" % what, _same(g, c))
    cx.check("%s: result does not alias the input" % what,
             not any(rnp.shares_memory(x, y) for x in out.cols.values() for y in src.cols.values()))


def _container(cx, sel):
    """the documented ways of passing names: scalar (one name), list, tuple, array"""
    k = cx.choice("container", 4 if len(sel) == 1 else 3)
    kinds = ["list", "tuple", "array"] + (["scalar"] if len(sel) == 1 else [])
    kind = kinds[k]
    if kind == "scalar":
        return sel[0], kind
    if kind == "list":
        return list(sel), kind
    if kind == "tuple":
        return tuple(sel), kind
    return symnp.array(list(sel)), kind


def harness(cx, cfg):
    nu = _mod()
    fn = cfg[0]
    if fn in ("extract", "remove", "reorder"):
        _, lay, shape, sel = cfg
        arr, logical = _table(cx, lay, shape)
        arr.freeze("arr")
        names = list(arr.dtype.names)
        has_missing = any(s not in names for s in sel)
        arg, kind = _container(cx, sel)
        if fn == "remove" and kind in ("tuple", "array"):
            # remove_fields documents a scalar or a list
            arg = list(sel)
        try:
            if fn == "extract":
                strict = cx.flag("strict")
                want = [n for n in names if n in sel]
                out = nu.extract_fields(arr, arg, strict=strict)
                cx.check("extract_fields: a missing name in strict mode is rejected", not (strict and has_missing))
            elif fn == "remove":
                want = [n for n in names if n not in sel]
                out = nu.remove_fields(arr, arg)
            else:
                strict = cx.flag("strict")
                first = []
                for s in sel:
                    if s in names and s not in first:
                        first.append(s)
                want = first + [n for n in names if n not in first]
                out = nu.reorder_fields(arr, arg, strict=strict)
                cx.check("reorder_fields: a missing name in strict mode is rejected", not (strict and has_missing))
        except ValueError:
            if fn == "extract":
                cx.check("extract_fields raises only for a missing name in strict mode or when nothing is kept",
                         (strict and has_missing) or not want)
            elif fn == "remove":
                cx.check("remove_fields raises only when no field would be left", not want)
            else:
                cx.check("reorder_fields raises only for a missing name in strict mode", strict and has_missing)
            return
        except symx.FrozenWrite:
            cx.fail("%s wrote into its input" % fn)
            return
        cx.check("%s: a request that leaves no field is rejected" % fn, bool(want))
        _check_fields(cx, fn + "_fields", out, arr, logical, want, shape)
        return
    if fn == "add":
        _, lay, shape = cfg
        arr, logical = _table(cx, lay, shape)
        arr.freeze("arr")
        names = list(arr.dtype.names)
        variants = [
            ([("new1", "<f8")], None), ([("new1", "<f8")], "scalar"), ([("new1", "<i4"), ("new2", ">f4")], None),
            ([("new1", "<i4"), ("new2", ">f4")], "list"), ([("new1", "<f4", (2,))], None), ([("new1", "<f4", (2,))], "array"),
            ([("new1", "<i4"), (names[0], "<f8")], None), (rnp.dtype([("new1", "|S3")]), None),
        ]
        descr, dflt = variants[cx.choice("variant", len(variants))]
        add_dt = rnp.dtype(descr)
        dvals = None
        kw = {}
        if dflt == "scalar":
            dvals = [cx.int("d0")]
            kw["defaults"] = dvals[0]
        elif dflt == "list":
            dvals = [cx.int("d0"), cx.int("d1")]
            kw["defaults"] = list(dvals)
        elif dflt == "array":
            # one new sub-array field with a vector default given as an array
            vec = [cx.int("d0"), cx.int("d1")]
            dvals = [vec]
            kw["defaults"] = symnp.array(vec)
        clash = any(n in names for n in add_dt.names)
        try:
            out = nu.add_fields(arr, descr, **kw)
        except ValueError:
            cx.check("add_fields raises only when a new name already exists", clash)
            return
        except symx.FrozenWrite:
            cx.fail("add_fields wrote into its input")
            return
        cx.check("add_fields: adding an existing name is rejected", not clash)
        want = names + list(add_dt.names)
        _check_fields(cx, "add_fields", out, arr, logical, want, shape)
        if isinstance(out, symrec.SRec) and list(out.dtype.names) == want:
            for i, n in enumerate(add_dt.names):
                a, b = add_dt.fields[n][0], out.dtype.fields[n][0]
                cx.check("add_fields: new field has the requested type", a.base == b.base and a.shape == b.shape)
                got = _flat_logical(out, n)
                for j, g in enumerate(got):
                    if dvals is None:
                        cx.check("add_fields: new field zero-filled", (g == 0) if b.base.kind not in "SU" else (g in (b"", "")))
                    elif isinstance(dvals[i], list):
                        cx.check("add_fields: new field set to the supplied default", _same(g, dvals[i][j % len(dvals[i])]))
                    else:
                        cx.check("add_fields: new field set to the supplied default", _same(g, dvals[i]))
        return
    if fn in ("combine", "combine_mismatch", "combine_empty"):
        _, parts, shape = cfg
        if fn == "combine_empty":
            try:
                nu.combine_fields([])
            except ValueError:
                cx.check("combine_fields([]) rejected", True)
                return
            cx.fail("combine_fields([]) accepted")
            return
        tabs = []
        for i, lay in enumerate(parts):
            sh = shape
            if fn == "combine_mismatch" and i == 1:
                sh = (3,) if shape != (3,) else (2,)
            t, lg = _table(cx, lay, sh, tag="t%d" % i)
            t.freeze("arrlist[%d]" % i)
            tabs.append((t, lg))
        allnames = [n for lay in parts for n in [d[0] for d in LAYOUTS[lay]]]
        shared = len(set(allnames)) != len(allnames)
        try:
            out = nu.combine_fields([t for t, _ in tabs])
        except ValueError:
            cx.check("combine_fields raises only for different lengths or a shared name", shared or fn == "combine_mismatch")
            return
        except symx.FrozenWrite:
            cx.fail("combine_fields wrote into an input")
            return
        cx.check("combine_fields: different lengths / shared names are rejected", not shared and fn != "combine_mismatch")
        if len(tabs) == 1:
            cx.check("combine_fields of one array has that array's fields", list(out.dtype.names) == allnames and tuple(out.shape) == tuple(shape))
            return
        cx.check("combine_fields: field lists concatenated", isinstance(out, symrec.SRec) and list(out.dtype.names) == allnames)
        cx.check("combine_fields: shape of the inputs preserved", tuple(out.shape) == tuple(shape))
        if isinstance(out, symrec.SRec) and list(out.dtype.names) == allnames and tuple(out.shape) == tuple(shape):
            for t, lg in tabs:
                for n in t.dtype.names:
                    a, b = t.dtype.fields[n][0], out.dtype.fields[n][0]
                    cx.check("combine_fields: field keeps type, sub-array shape and byte order", a == b)
                    for g, c in zip(_flat_logical(out, n), lg[n][0]):
                        cx.check("combine_fields: data element-wise equal", _same(g, c))
        return
    if fn == "split":
        _, lay, shape = cfg
        arr, logical = _table(cx, lay, shape)
        names = list(arr.dtype.names)
        mode = cx.choice("fields", 4)
        if mode == 0:
            tup, got_names = nu.split_fields(arr, getnames=True)
            want = names
        elif mode == 1:
            want = [names[-1], names[0]]
            tup = nu.split_fields(arr, fields=want)
        elif mode == 2:
            want = [names[1]]
            tup = nu.split_fields(arr, fields=names[1])
        else:
            try:
                nu.split_fields(arr, fields=[names[0], MISSING])
            except ValueError:
                cx.check("split_fields rejects a missing field", True)
                return
            cx.fail("split_fields accepted a missing field")
            return
        cx.check("split_fields returns one entry per requested field", isinstance(tup, tuple) and len(tup) == len(want))
        if mode == 0:
            cx.check("split_fields(getnames=True) returns the names", list(got_names) == want)
        for v, n in zip(tup, want):
            cx.check("split_fields entry has the field's type and shape", v.dtype == symrec.field_base(arr.dtype, n)[0] and tuple(v.shape) == logical[n][1])
            lv = v.la
            for g, c in zip(lv.ravel().tolist() if lv.ndim else [lv[()]], logical[n][0]):
                cx.check("split_fields entry equals the field's data", _same(g, c))
            cx.check("split_fields entries are views of the table", bool(rnp.shares_memory(v.a, arr.cols[n])))
        return
    if fn == "copy":
        _, lay, shape = cfg
        arr, logical = _table(cx, lay, shape, tag="s")
        arr.freeze("arr1")
        names = list(arr.dtype.names)
        # destination: two common fields (reversed order) and one of its own
        ddescr = [d for d in LAYOUTS[lay][:2]][::-1] + [("own", "<i4")]
        dst = symrec.SRec.zeros(shape, rnp.dtype(ddescr))
        own = []
        src = rnp.empty(shape, dtype=object)
        for ix in rnp.ndindex(*shape):
            c = cx.int("own_%s" % "_".join(map(str, ix)))
            src[ix] = c
            own.append(c)
        dst["own"] = symnp.SArr(src, rnp.dtype("i4"))
        which = cx.choice("which", 3)
        try:
            if which == 0:
                nu.copy_fields(arr, dst)
                common = [d[0] for d in LAYOUTS[lay][:2]]
                for n in common:
                    for g, c in zip(_flat_logical(dst, n), logical[n][0]):
                        cx.check("copy_fields: common field copied element-wise", _same(g, c))
                for g, c in zip(_flat_logical(dst, "own"), own):
                    cx.check("copy_fields: other fields untouched", _same(g, c))
            elif which == 1:
                bad = symrec.SRec.zeros((3,) if shape != (3,) else (2,), rnp.dtype(ddescr))
                try:
                    nu.copy_fields(arr, bad)
                except ValueError:
                    cx.check("copy_fields rejects different sizes", True)
                else:
                    cx.fail("copy_fields accepted arrays of different size")
            else:
                v = cx.int("val")
                nu.copy_fields_by_name(dst, ["own", MISSING], [v, 7])
                for g in _flat_logical(dst, "own"):
                    cx.check("copy_fields_by_name sets the named field", _same(g, v))
                try:
                    nu.copy_fields_by_name(dst, ["own"], [1, 2])
                except ValueError:
                    cx.check("copy_fields_by_name rejects different lengths", True)
                else:
                    cx.fail("copy_fields_by_name accepted names/values of different length")
        except symx.FrozenWrite:
            cx.fail("copy_fields wrote into its source")
        return
    if fn == "compare_shape":
        _, lay, shape = cfg
        a, la = _table(cx, lay, shape, tag="a")
        other = a.copy().reshape((4,))
        r2 = nu.compare_arrays(a, other)
        cx.check("compare_arrays: tables of different shape differ even when their flattened cells agree", not (r2 is True or r2 == True))
        r3 = nu.compare_arrays(other, a)
        cx.check("compare_arrays: ... in either argument order", not (r3 is True or r3 == True))
        return
    if fn == "compare":
        _, lay, shape = cfg
        a, la = _table(cx, lay, shape, tag="a")
        b, lb = _table(cx, lay, shape, tag="b")
        r = nu.compare_arrays(a, b)
        alleq = sym_and(*[x == y for n in a.dtype.names for x, y in zip(la[n][0], lb[n][0])])
        cx.check("compare_arrays is True exactly when all common fields are element-wise equal", alleq if r else sym_not(alleq))
        # a table with a missing field: ignored by default, a difference otherwise
        # a table that lacks the last field (layouts have at least two fields)
        sub = nu.extract_fields(a, list(a.dtype.names)[:-1])
        cx.check("compare_arrays ignores missing fields by default", nu.compare_arrays(a, sub) is True or nu.compare_arrays(a, sub) == True)
        cx.check("compare_arrays(ignore_missing=False) reports a missing field", not nu.compare_arrays(a, sub, ignore_missing=False))
        # the same cells laid out in another shape are not the same table
        n_el = 1
        for d_ in shape:
            n_el *= d_
        if len(shape) == 2:
            other = a.copy().reshape((n_el,))
            r2 = nu.compare_arrays(a, other)
            cx.check("compare_arrays: tables of different shape differ even when their flattened cells agree", not (r2 is True or r2 == True))
        return
    raise AssertionError(cfg)


# ----------------------------------------------------------------------------

def _real_table(lay, shape, mdl, tag="t"):
    import numpy as np
    dt = np.dtype(LAYOUTS[lay])
    r = np.zeros(shape, dtype=dt)
    k = 0
    for name in dt.names:
        b = dt.fields[name][0].base
        full = tuple(shape) + tuple(dt.fields[name][0].shape)
        vals = np.zeros(full, dtype=b.newbyteorder("=") if b.itemsize > 1 and b.kind not in "SU" else b)
        for ix in np.ndindex(*full):
            key = "%s_%s_%s" % (tag, name, "_".join(map(str, ix)))
            v = mdl.get(key, 0)
            v = int(v) if not isinstance(v, dict) else int(v["num"] // v["den"])
            k += 1
            if b.kind in "SU":
                vals[ix] = ("%c%c" % (97 + (v + k) % 26, 97 + k % 26))[: (b.itemsize // (4 if b.kind == "U" else 1))]
            elif b.kind == "f":
                vals[ix] = 0.5 + (v % 1000) + k
            else:
                vals[ix] = (v + 3 * k) % 100
        r[name] = vals
    return r


def _eq_field(a, b):
    import numpy as np
    return a.shape == b.shape and a.dtype.base.kind == b.dtype.base.kind and np.array_equal(a, b)


def replay(cand):
    import numpy as np
    import warnings
    warnings.simplefilter("ignore")
    import esutil.numpy_util as nu
    cfg = cand["cfg"]
    mdl = cand["model"] or {}
    fn = cfg[0]
    no = {"reproduced": False, "what": "agrees", "key": None}

    def unchanged(t, snap):
        return t.tobytes() == snap[0] and t.dtype == snap[1]

    def check_out(what, out, src, want):
        if not isinstance(out, np.ndarray) or out.dtype.names is None or list(out.dtype.names) != list(want):
            return "%s: fields %r, documented %r" % (what, getattr(getattr(out, "dtype", None), "names", None), want)
        if out.shape != src.shape:
            return "%s: shape %r, input shape %r" % (what, out.shape, src.shape)
        for n in want:
            if n in src.dtype.names:
                if out.dtype.fields[n][0] != src.dtype.fields[n][0] or not _eq_field(out[n], src[n]):
                    return "%s: field %r changed (dtype %s -> %s)" % (what, n, src.dtype.fields[n][0], out.dtype.fields[n][0])
        if np.shares_memory(out, src):
            return "%s: result aliases the input" % what
        return None
    if fn in ("extract", "remove", "reorder"):
        _, lay, shape, sel = cfg
        shape = tuple(shape)
        sel = tuple(sel)
        arr = _real_table(lay, shape, mdl)
        snap = (arr.tobytes(), arr.dtype)
        names = list(arr.dtype.names)
        kinds = ["list", "tuple", "array"] + (["scalar"] if len(sel) == 1 else [])
        kind = kinds[int(mdl.get("container", 0))]
        arg = {"scalar": sel[0], "list": list(sel), "tuple": tuple(sel), "array": np.array(list(sel))}[kind]
        if fn == "remove" and kind in ("tuple", "array"):
            arg = list(sel)
        strict = bool(mdl.get("strict", True))
        has_missing = any(s not in names for s in sel)
        if fn == "extract":
            want = [n for n in names if n in sel]
            must_raise = (strict and has_missing) or not want
            call = "extract_fields(<%s %s>, %r, strict=%s)" % (lay, shape, arg if kind != "array" else list(sel), strict)
            f = lambda: nu.extract_fields(arr, arg, strict=strict)
        elif fn == "remove":
            want = [n for n in names if n not in sel]
            must_raise = not want
            call = "remove_fields(<%s %s>, %r)" % (lay, shape, arg)
            f = lambda: nu.remove_fields(arr, arg)
        else:
            first = []
            for s in sel:
                if s in names and s not in first:
                    first.append(s)
            want = first + [n for n in names if n not in first]
            must_raise = strict and has_missing
            call = "reorder_fields(<%s %s>, %r, strict=%s)" % (lay, shape, arg if kind != "array" else list(sel), strict)
            f = lambda: nu.reorder_fields(arr, arg, strict=strict)
        try:
            out = f()
        except ValueError as e:
            if must_raise:
                return no
            return {"reproduced": True, "key": "%s:raises" % fn, "what": "%s raised ValueError: %s" % (call, e)}
        except Exception as e:
            return {"reproduced": True, "key": "%s:raises" % fn, "what": "%s raised %s: %s" % (call, type(e).__name__, e)}
        if must_raise:
            return {"reproduced": True, "key": "%s:accepts" % fn, "what": "%s was accepted" % call}
        msg = check_out(call, out, arr, want)
        if msg:
            return {"reproduced": True, "key": "%s:result" % fn, "what": msg}
        if not unchanged(arr, snap):
            return {"reproduced": True, "key": "%s:input-modified" % fn, "what": "%s modified its input" % call}
        return no
    if fn == "add":
        _, lay, shape = cfg
        shape = tuple(shape)
        arr = _real_table(lay, shape, mdl)
        names = list(arr.dtype.names)
        variants = [
            ([("new1", "<f8")], None), ([("new1", "<f8")], "scalar"), ([("new1", "<i4"), ("new2", ">f4")], None),
            ([("new1", "<i4"), ("new2", ">f4")], "list"), ([("new1", "<f4", (2,))], None), ([("new1", "<f4", (2,))], "array"),
            ([("new1", "<i4"), (names[0], "<f8")], None), (np.dtype([("new1", "|S3")]), None),
        ]
        descr, dflt = variants[int(mdl.get("variant", 0))]
        add_dt = np.dtype(descr)
        kw, dvals = {}, None
        if dflt == "scalar":
            dvals = [5]
            kw["defaults"] = 5
        elif dflt == "list":
            dvals = [5, 7]
            kw["defaults"] = [5, 7]
        elif dflt == "array":
            dvals = [np.array([3.0, 4.0])]
            kw["defaults"] = np.array([3.0, 4.0])
        clash = any(n in names for n in add_dt.names)
        call = "add_fields(<%s %s>, %r, defaults=%r)" % (lay, shape, descr, kw.get("defaults"))
        try:
            out = nu.add_fields(arr, descr, **kw)
        except ValueError as e:
            if clash:
                return no
            return {"reproduced": True, "key": "add:raises", "what": "%s raised ValueError: %s" % (call, e)}
        except Exception as e:
            return {"reproduced": True, "key": "add:raises", "what": "%s raised %s: %s" % (call, type(e).__name__, e)}
        if clash:
            return {"reproduced": True, "key": "add:accepts", "what": "%s accepted an existing name" % call}
        msg = check_out(call, out, arr, names + list(add_dt.names))
        if msg:
            return {"reproduced": True, "key": "add:result", "what": msg}
        for i, n in enumerate(add_dt.names):
            want = np.zeros(out[n].shape, dtype=out[n].dtype)
            if dvals is not None:
                want[...] = dvals[i]
            if out.dtype.fields[n][0] != add_dt.fields[n][0] or not np.array_equal(out[n], want):
                return {"reproduced": True, "key": "add:fill", "what": "%s: new field %r = %r, expected %r" % (call, n, out[n].tolist(), want.tolist())}
        return no
    if fn in ("combine", "combine_mismatch", "combine_empty"):
        _, parts, shape = cfg
        shape = tuple(shape)
        if fn == "combine_empty":
            try:
                nu.combine_fields([])
            except ValueError:
                return no
            return {"reproduced": True, "key": "combine:empty", "what": "combine_fields([]) accepted"}
        tabs = []
        for i, lay in enumerate(parts):
            sh = shape
            if fn == "combine_mismatch" and i == 1:
                sh = (3,) if shape != (3,) else (2,)
            tabs.append(_real_table(lay, sh, mdl, tag="t%d" % i))
        allnames = [n for t in tabs for n in t.dtype.names]
        shared = len(set(allnames)) != len(allnames)
        call = "combine_fields([%s]) with shape %r" % (", ".join(parts), shape)
        try:
            out = nu.combine_fields(tabs)
        except ValueError as e:
            if shared or fn == "combine_mismatch":
                return no
            return {"reproduced": True, "key": "combine:raises:%s" % ("1d" if len(shape) == 1 else "nd"), "what": "%s raised ValueError: %s" % (call, e)}
        except Exception as e:
            return {"reproduced": True, "key": "combine:raises", "what": "%s raised %s: %s" % (call, type(e).__name__, e)}
        if shared or fn == "combine_mismatch":
            return {"reproduced": True, "key": "combine:accepts", "what": "%s accepted" % call}
        if list(out.dtype.names) != allnames or out.shape != shape:
            return {"reproduced": True, "key": "combine:shape:%s" % ("1d" if len(shape) == 1 else "nd"), "what": "%s -> fields %r shape %r" % (call, out.dtype.names, out.shape)}
        for t in tabs:
            for n in t.dtype.names:
                if out.dtype.fields[n][0] != t.dtype.fields[n][0] or not _eq_field(out[n], t[n]):
                    return {"reproduced": True, "key": "combine:data", "what": "%s: field %r differs" % (call, n)}
        return no
    if fn == "split":
        _, lay, shape = cfg
        arr = _real_table(lay, tuple(shape), mdl)
        names = list(arr.dtype.names)
        mode = int(mdl.get("fields", 0))
        try:
            if mode == 0:
                tup, got = nu.split_fields(arr, getnames=True)
                want = names
                if list(got) != want:
                    return {"reproduced": True, "key": "split", "what": "split_fields(getnames=True) names %r" % (list(got),)}
            elif mode == 1:
                want = [names[-1], names[0]]
                tup = nu.split_fields(arr, fields=want)
            elif mode == 2:
                want = [names[1]]
                tup = nu.split_fields(arr, fields=names[1])
            else:
                try:
                    nu.split_fields(arr, fields=[names[0], MISSING])
                except ValueError:
                    return no
                return {"reproduced": True, "key": "split", "what": "split_fields accepted a missing field"}
        except Exception as e:
            return {"reproduced": True, "key": "split", "what": "split_fields raised %r" % (e,)}
        if len(tup) != len(want) or any(not _eq_field(v, arr[n]) or not np.shares_memory(v, arr) for v, n in zip(tup, want)):
            return {"reproduced": True, "key": "split", "what": "split_fields(%r) does not return the fields' views" % (want,)}
        return no
    if fn == "copy":
        _, lay, shape = cfg
        shape = tuple(shape)
        arr = _real_table(lay, shape, mdl, tag="s")
        snap = (arr.tobytes(), arr.dtype)
        ddescr = [d for d in LAYOUTS[lay][:2]][::-1] + [("own", "<i4")]
        dst = np.zeros(shape, dtype=ddescr)
        dst["own"] = 41
        which = int(mdl.get("which", 0))
        if which == 0:
            nu.copy_fields(arr, dst)
            for n in [d[0] for d in LAYOUTS[lay][:2]]:
                if not _eq_field(dst[n], arr[n]):
                    return {"reproduced": True, "key": "copy", "what": "copy_fields did not copy field %r" % n}
            if not (dst["own"] == 41).all() or not unchanged(arr, snap):
                return {"reproduced": True, "key": "copy", "what": "copy_fields touched other data"}
        elif which == 1:
            try:
                nu.copy_fields(arr, np.zeros(3 if shape != (3,) else 2, dtype=ddescr))
            except ValueError:
                return no
            return {"reproduced": True, "key": "copy", "what": "copy_fields accepted arrays of different size"}
        else:
            nu.copy_fields_by_name(dst, ["own", MISSING], [9, 7])
            if not (dst["own"] == 9).all():
                return {"reproduced": True, "key": "copy", "what": "copy_fields_by_name did not set the field"}
            try:
                nu.copy_fields_by_name(dst, ["own"], [1, 2])
            except ValueError:
                return no
            return {"reproduced": True, "key": "copy", "what": "copy_fields_by_name accepted different lengths"}
        return no
    if fn in ("compare", "compare_shape"):
        _, lay, shape = cfg
        a = _real_table(lay, tuple(shape), mdl, tag="a")
        b = _real_table(lay, tuple(shape), mdl, tag="a")
        if not nu.compare_arrays(a, b):
            return {"reproduced": True, "key": "compare", "what": "compare_arrays of equal tables is False"}
        n0 = a.dtype.names[-1]
        c = b.copy()
        flat = c[n0].reshape(-1)
        flat[-1] = flat[-1] + 1 if c[n0].dtype.kind not in "SU" else "zz"
        if nu.compare_arrays(a, c):
            return {"reproduced": True, "key": "compare", "what": "compare_arrays misses a difference in the last element of field %r" % n0}
        sub = nu.extract_fields(a, list(a.dtype.names)[:-1])
        if not nu.compare_arrays(a, sub) or nu.compare_arrays(a, sub, ignore_missing=False):
            return {"reproduced": True, "key": "compare", "what": "compare_arrays handling of missing fields"}
        if a.ndim == 2 and nu.compare_arrays(a, a.copy().reshape(-1)):
            return {"reproduced": True, "key": "compare:shape", "what": "compare_arrays reports a %r table and its flattened copy as matching" % (a.shape,)}
        import numpy as _np
        t1 = _np.zeros(2, dtype=[("v", "f8", (2, 3))])
        t1["v"] = _np.arange(12.0).reshape(2, 2, 3)
        t2 = _np.zeros(2, dtype=[("v", "f8", (3, 2))])
        t2["v"] = _np.arange(12.0).reshape(2, 3, 2)
        if nu.compare_arrays(t1, t2):
            return {"reproduced": True, "key": "compare:shape", "what": "compare_arrays reports fields with sub-array shapes (2,3) and (3,2) as matching"}
        return no
    raise AssertionError(fn)


def conformance():
    import numpy as np
    import importlib
    import sys
    import warnings
    warnings.simplefilter("ignore")
    sys.path.insert(0, loader.repo())
    try:
        real = importlib.import_module("esutil.numpy_util")
    finally:
        sys.path.pop(0)
    m = _mod()
    n = 0
    for lay in LAYOUTS:
        for shape in ((2,), ()):
            t = _real_table(lay, shape, {})
            s = symrec.from_real(t)
            names = list(t.dtype.names)
            for fn, args in (("extract_fields", (names[::-1][:2],)), ("remove_fields", ([names[0]],)), ("reorder_fields", ([names[-1]],)),
                             ("add_fields", ([("zz", "f8")],))):
                ro = getattr(real, fn)(t, *args)
                so = getattr(m, fn)(s, *args)
                assert so.dtype == ro.dtype and tuple(so.shape) == ro.shape, (fn, so.dtype, ro.dtype)
                for nm in ro.dtype.names:
                    got = so[nm].tolist()
                    want = ro[nm].tolist()
                    assert got == want, (fn, nm, got, want)
                n += 1
    return n


MANIFEST_ENTRY = {
    "engine": "symx",
    "technique": "bounded symbolic execution (symx/z3) of numpy_util.extract/remove/add/reorder/combine_fields, copy_fields(_by_name), split_fields and compare_arrays over the record-array model (vf.symrec): every cell is a solver variable, layouts/selections/containers/shapes are enumerated configurations and forked choices; field list and order, per-field type/shape/byte order, element-wise equality, fill values, rejections and non-aliasing are asserted per path; counterexamples replayed on real NumPy arrays",
    "text": "For every layout, table shape (0-d, 1-d, 2-d), ordered name selection (incl. a missing name, scalar/list/tuple/array spelling, strict on/off), descriptor with and without defaults and list of 1..3 arrays within the universe, the result has exactly the documented field list and order, the same shape, every retained field its type, sub-array shape, byte order and data (all cells symbolic), new fields are zero or the defaults, and exactly the documented requests are rejected.",
    "note": "fixed universe of 3 layouts (numeric, bytes, unicode, sub-array, both byte orders) and selections of <=2 (quick) / <=3 (thorough) names; NumPy's own dtype machinery is used as is",
}
