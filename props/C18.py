"""C18 -- weighted moments, clipping, interpolation and cov/cor follow their definitions."""
import itertools

from vf import symx, symnp, loader
from vf.symx import sym_and, sym_or, sym_not, sym_ite, sym_sum, is_sym
import z3

PROPERTY = "C18"
LEVEL = "model_checking"
NEEDS_BUILD = False
FUNCTIONS = [("esutil/stat/util.py", n) for n in
             ("wmom", "wmedian", "sigma_clip", "_get_sigma_clip_subset", "_get_sigma_clip_stats",
              "interplin", "get_stats", "cov2cor", "cor2cov", "boxcar_average")]
ASSUMPTIONS = [
    "float64 arithmetic is exact real arithmetic; sqrt(t) is a witness r>=0 with r*r=t, so formulas are compared on squares",
    "weights are >= 0 with a positive sum (as the property's quantifier: positive, some zero)",
    "sigma clipping: nsig in [1/2, 6] symbolic, niter concrete 0..2 (3 thorough); weights strictly positive (a surviving subset of total weight zero has undefined moments)",
    "array sizes bounded as listed; values unbounded reals",
    "NumPy primitives as modelled by vf.symnp (conformance pass against the real library)",
]
BOUNDS = {"quick": {"wmom": "N<=3, Nxd with d=2 (N<=2)", "wmedian": "N<=4", "sigma_clip": "N<=3, niter<=2; N=4, niter=2 with the weights fixed to (1, 2, 4, 1/2) and data, nsig symbolic", "interplin": "2..3 nodes, 1..2 query points", "cov": "<=2x2 round trip, 3x3 cov2cor"},
          "thorough": {"wmom": "N<=4, Nxd d=2 (N<=3)", "wmedian": "N<=5", "sigma_clip": "N<=4, niter<=3 (weighted: N<=3, and N=4 with niter=2)", "interplin": "2..4 nodes", "cov": "<=3x3"}}
EXPLORE_OPTS = {"max_paths": 100000, "query_timeout_ms": 20000}
TIER_OPTS = {"quick": {"time_budget": 300}, "thorough": {"time_budget": 2400}}


def configs(tier):
    q = tier == "quick"
    out = []
    for n in ((1, 2, 3) if q else (1, 2, 3, 4)):
        for im in (False, True):
            out.append(("wmom1", n, im))
    for n in ((1, 2) if q else (1, 2, 3)):
        for w2d in (False, True):
            for im in (False, True):
                out.append(("wmom2", n, w2d, im))
    out.append(("wmom_badshape", 2))
    for n in ((1, 2, 3, 4) if q else (1, 2, 3, 4, 5)):
        out.append(("wmedian", n))
    for n in ((1, 2, 3) if q else (1, 2, 3, 4)):
        for niter in ((0, 1, 2) if q else (0, 1, 2, 3)):
            for wt in (False, True):
                if wt and n >= 4:
                    continue
                if wt and n == 3 and niter > 2:
                    continue
                out.append(("sigma_clip", n, niter, wt))
    # the same 4-point, two-pass weighted clipping with the weights fixed to distinct concrete values (data and
    # nsig stay symbolic): cheap enough for every tier, and it is where weights misaligned with a shrunk subset show
    out.append(("sigma_clip", 4, 2, "fixed"))
    if not q:
        # weighted clipping of 4 points with two passes: the smallest case in which the
        # weights of a twice-shrunk subset matter (about 4 minutes on one core)
        out.append(("sigma_clip", 4, 2, True))
    for nn in ((2, 3) if q else (2, 3, 4)):
        for nu in (1, 2):
            if nn == 4 and nu == 2:
                continue
            out.append(("interplin", nn, nu))
    out.append(("interplin_scalar", 2, 1))
    for n in ((1, 2, 3) if q else (1, 2, 3, 4)):
        for mode in ("plain", "weights", "clip"):
            if mode == "clip" and n > 3:
                continue
            out.append(("get_stats", n, mode))
    out.append(("get_stats", 3, "clip_niter_only"))
    out.append(("get_stats2d", 2, "plain"))
    for n in ((1, 2) if q else (1, 2, 3)):
        out.append(("covcor", n))
    out.append(("cov2cor", 3))
    out.append(("cov2cor_bad", 2))
    for n in (1, 2, 3, 4):
        for k in (1, 2, 3):
            if k <= n:
                out.append(("boxcar", n, k))
    return out


def _mod():
    return loader.Loader().get("esutil.stat.util")


def _reals(cx, name, n):
    return [cx.real("%s%d" % (name, i)) for i in range(n)]


def _weights(cx, name, n):
    w = [cx.real("%s%d" % (name, i), 0) for i in range(n)]
    cx.assume(sym_sum(w) > 0)
    return w


def check_sqrt(cx, label, got, want_sq):
    """got == sqrt(want_sq), compared without roots"""
    cx.check(label + " (non-negative)", got >= 0)
    cx.check_eq(label, got * got, want_sq)


def _cells(a):
    if isinstance(a, symnp.SArr):
        return a.tolist()
    return a


# reference formulas ------------------------------------------------------------

def ref_wmom(x, w, mean=None):
    wtot = sym_sum(w)
    m = sym_sum([wi * xi for wi, xi in zip(w, x)]) / wtot if mean is None else mean
    err2_calc = sym_sum([wi * wi * (xi - m) * (xi - m) for wi, xi in zip(w, x)]) / (wtot * wtot)
    err2_def = 1 / wtot
    var = sym_sum([wi * (xi - m) * (xi - m) for wi, xi in zip(w, x)]) / wtot
    return m, err2_calc, err2_def, var


def ref_stats(x):
    n = len(x)
    m = sym_sum(x) / n
    var = sym_sum([(xi - m) * (xi - m) for xi in x]) / n
    return m, var, var / n


def harness(cx, cfg):
    what = cfg[0]
    m = _mod()
    if what == "wmom1":
        _, n, im = cfg
        x = _reals(cx, "x", n)
        w = _weights(cx, "w", n)
        calcerr = cx.flag("calcerr")
        sdev = cx.flag("sdev")
        inputmean = cx.real("inputmean") if im else None
        res = m.wmom(symnp.array(x), symnp.array(w), inputmean=inputmean, calcerr=calcerr, sdev=sdev)
        cx.check("wmom returns (mean, err[, sdev])", len(res) == (3 if sdev else 2))
        rm, e2c, e2d, var = ref_wmom(x, w, inputmean)
        cx.check_eq("wmom mean = sum(w x)/sum(w) or the supplied mean", res[0], rm)
        check_sqrt(cx, "wmom error estimate for calcerr=%s" % calcerr, res[1], e2c if calcerr else e2d)
        if sdev:
            check_sqrt(cx, "wmom weighted deviation", res[2], var)
        return
    if what == "wmom2":
        _, n, w2d, im = cfg
        d = 2
        x = [[cx.real("x%d_%d" % (i, j)) for j in range(d)] for i in range(n)]
        if w2d:
            w = [[cx.real("w%d_%d" % (i, j), 0) for j in range(d)] for i in range(n)]
            for j in range(d):
                cx.assume(sym_sum([w[i][j] for i in range(n)]) > 0)
        else:
            w1 = _weights(cx, "w", n)
            w = [[w1[i]] * d for i in range(n)]
        calcerr = cx.flag("calcerr")
        sdev = cx.flag("sdev")
        inputmean = cx.real("inputmean") if im else None
        res = m.wmom(symnp.array(x), symnp.array(w if w2d else w1), inputmean=inputmean, calcerr=calcerr, sdev=sdev)
        for j in range(d):
            col = [x[i][j] for i in range(n)]
            wc = [w[i][j] for i in range(n)]
            rm, e2c, e2d, var = ref_wmom(col, wc, inputmean)
            gm = res[0] if (im and not isinstance(res[0], symnp.SArr)) else res[0][j]
            cx.check_eq("wmom (N x d) mean per column", gm, rm)
            ge = res[1][j] if isinstance(res[1], symnp.SArr) else res[1]
            check_sqrt(cx, "wmom (N x d) error per column, calcerr=%s" % calcerr, ge, e2c if calcerr else e2d)
            if sdev:
                check_sqrt(cx, "wmom (N x d) deviation per column", res[2][j], var)
        return
    if what == "wmom_badshape":
        x = _reals(cx, "x", 2)
        w = _weights(cx, "w", 3)
        try:
            m.wmom(symnp.array(x), symnp.array(w))
        except ValueError:
            cx.check("mismatched weights rejected", True)
            return
        cx.fail("wmom accepted weights of a different length")
        return
    if what == "wmedian":
        n = cfg[1]
        x = _reals(cx, "x", n)
        w = _weights(cx, "w", n)
        r = m.wmedian(symnp.array(x), symnp.array(w))
        half = sym_sum(w) / 2
        cx.check("wmedian returns an element", sym_or(*[r == xi for xi in x]))
        cum_r = sym_sum([sym_ite(xi <= r, wi, 0) for xi, wi in zip(x, w)])
        cx.check("cumulative weight up to the weighted median reaches half the total", cum_r >= half)
        for j in range(n):
            cum_j = sym_sum([sym_ite(xi <= x[j], wi, 0) for xi, wi in zip(x, w)])
            cx.check("no smaller value reaches half the total weight", sym_or(x[j] >= r, cum_j < half))
        return
    if what == "sigma_clip":
        _, n, niter, wt = cfg[:4]
        x = _reals(cx, "x", n)
        if len(cfg) > 4:
            perm = cfg[4]       # case split of the input space by the ordering of the data
            for a, b in zip(perm, perm[1:]):
                cx.assume(x[a] <= x[b])
        w = _weights(cx, "w", n) if wt else None
        if wt == "fixed":
            w = [1.0, 2.0, 4.0, 0.5][:n]
        elif wt:
            for wi in w:
                cx.assume(wi > 0)     # a surviving subset of total weight 0 has no defined moments
        nsig = cx.real("nsig", 0.5, 6)
        extra = {}
        res = m.sigma_clip(symnp.array(x), weights=symnp.array(w) if wt else None, niter=niter, nsig=nsig,
                           get_err=True, get_indices=True, silent=True, extra=extra)
        gm, gs, ge, gi = res
        idx = [int(v) for v in gi.tolist()]
        # (a) statistics are those of exactly the reported subset
        sub = [x[i] for i in idx]
        if wt:
            sw = [w[i] for i in idx]
            rm, e2c, _, var = ref_wmom(sub, sw)
            e2 = e2c
        else:
            rm, var, e2 = ref_stats(sub)
        cx.check_eq("sigma_clip mean is the mean of the reported subset", gm, rm)
        check_sqrt(cx, "sigma_clip deviation is that of the reported subset", gs, var)
        check_sqrt(cx, "sigma_clip error is that of the reported subset", ge, e2)
        cx.check("extra['indices'] is the reported subset", [int(v) for v in extra["indices"].tolist()] == idx)
        # (b) the subset is the result of the stated rule (independent loop; the
        # comparisons are decided by the path condition or fork here)
        S = list(range(n))
        for it in range(niter):
            xa = symnp.array([x[i] for i in S])
            if wt:
                wa = symnp.array([w[i] for i in S])
                wtot = wa.sum()
                mu = (wa * xa).sum() / wtot
                sd = symnp.sqrt((wa * (xa - mu) ** 2).sum() / wtot)
            else:
                # NumPy's own mean/std (environment) on the current subset; the rule
                # itself -- what is discarded, when to stop -- is written out here
                mu = xa.mean()
                sd = xa.std()
            keep = [i for i in S if bool(abs(x[i] - mu) < nsig * sd)]
            if not keep or len(keep) == len(S):
                break
            S = keep
        cx.check("surviving subset = repeated discarding of points not strictly within nsig deviations", idx == S)
        return
    if what in ("interplin", "interplin_scalar"):
        _, nn, nu = cfg
        xs = _reals(cx, "x", nn)
        vs = _reals(cx, "v", nn)
        for i in range(nn - 1):
            cx.assume(xs[i] < xs[i + 1])
        us = _reals(cx, "u", nu)
        uarg = us[0] if what == "interplin_scalar" else symnp.array(us)
        r = m.interplin(symnp.array(vs), symnp.array(xs), uarg)
        rl = r.tolist()
        cx.check("one result per query point", len(rl) == nu)
        for u, got in zip(us, rl):
            def seg(k):
                return vs[k] + (u - xs[k]) * (vs[k + 1] - vs[k]) / (xs[k + 1] - xs[k])
            want = seg(nn - 2)
            for k in range(nn - 3, -1, -1):
                want = sym_ite(u <= xs[k + 1], seg(k), want)
            cx.check_eq("interplin = piecewise linear inside, end-segment lines outside", got, want)
            for k in range(nn):
                cx.check("interplin reproduces node values", sym_or(u != xs[k], got == vs[k]))
        return
    if what in ("get_stats", "get_stats2d"):
        _, n, mode = cfg
        if what == "get_stats2d":
            x2 = [[cx.real("x%d_%d" % (i, j)) for j in range(2)] for i in range(n)]
            r = m.get_stats(symnp.array(x2))
            for j in range(2):
                col = [x2[i][j] for i in range(n)]
                rm, var, e2 = ref_stats(col)
                cx.check_eq("get_stats (N x d) mean", r["mean"][j], rm)
                check_sqrt(cx, "get_stats (N x d) std", r["std"][j], var)
                check_sqrt(cx, "get_stats (N x d) err", r["err"][j], e2)
                cx.check_eq("get_stats (N x d) min", r["min"][j], symnp._minimum_cells(col))
                cx.check_eq("get_stats (N x d) max", r["max"][j], symnp._maximum_cells(col))
            return
        x = _reals(cx, "x", n)
        kw = {}
        if mode == "weights":
            w = _weights(cx, "w", n)
            kw["weights"] = symnp.array(w)
        if mode == "clip":
            nsig = cx.real("nsig", 0.5, 6)
            kw["nsig"] = nsig
            kw["niter"] = 1
            kw["silent"] = True
        if mode == "clip_niter_only":
            # clipping requested through niter (or nsig) alone: the statistics reported are sigma_clip's, called
            # with the keywords given (a 4-sigma outlier needs 18 points, beyond the size bound, so the
            # delegation itself is decided: sigma_clip by contract)
            calls = []
            M, Sd, E = cx.real("clip_mean"), cx.real("clip_std"), cx.real("clip_err")

            def fake_sigma_clip(arr, weights=None, **kw2):
                calls.append(kw2)
                return M, Sd, E
            m.sigma_clip = fake_sigma_clip
            which = cx.choice("which", 2)
            kw2 = {"niter": 2} if which == 0 else {"nsig": cx.real("nsig", 0.5, 6)}
            r = m.get_stats(symnp.array(x), silent=True, **kw2)
            cx.check("get_stats(niter=) / get_stats(nsig=): the clipping routine is used, with the keywords given",
                     len(calls) == 1 and all(calls[0].get(k) is v or calls[0].get(k) == v for k, v in kw2.items()) and calls[0].get("get_err"))
            cx.check("get_stats(niter=) / get_stats(nsig=): reports the clipped mean, deviation and error",
                     r["mean"] is M and r["std"] is Sd and r["err"] is E)
            return
        r = m.get_stats(symnp.array(x), **kw)
        cx.check_eq("get_stats min", r["min"], symnp._minimum_cells(x))
        cx.check_eq("get_stats max", r["max"], symnp._maximum_cells(x))
        if mode == "plain":
            rm, var, e2 = ref_stats(x)
        elif mode == "weights":
            rm, e2, _, var = ref_wmom(x, w)
        else:
            cm, cs, ce = m.sigma_clip(symnp.array(x), nsig=nsig, niter=1, get_err=True, silent=True)
            cx.check_eq("get_stats(nsig=) mean equals sigma_clip's", r["mean"], cm)
            cx.check_eq("get_stats(nsig=) std equals sigma_clip's", r["std"], cs)
            cx.check_eq("get_stats(nsig=) err equals sigma_clip's", r["err"], ce)
            return
        cx.check_eq("get_stats mean", r["mean"], rm)
        check_sqrt(cx, "get_stats std", r["std"], var)
        check_sqrt(cx, "get_stats err", r["err"], e2)
        return
    if what in ("covcor", "cov2cor", "cov2cor_bad"):
        n = cfg[1]
        C = [[None] * n for _ in range(n)]
        for i in range(n):
            for j in range(i, n):
                C[i][j] = C[j][i] = cx.real("c%d%d" % (i, j))
        if what == "cov2cor_bad":
            k = cx.choice("k", n)
            cx.assume(C[k][k] <= 0)
            try:
                m.cov2cor(symnp.array(C))
            except ValueError:
                cx.check("non-positive diagonal rejected", True)
                return
            cx.fail("cov2cor accepted a non-positive diagonal")
            return
        for i in range(n):
            cx.assume(C[i][i] > 0)
        cor = m.cov2cor(symnp.array(C))
        cl = cor.tolist()
        for i in range(n):
            cx.check_eq("correlation matrix has a unit diagonal", cl[i][i], 1)
            for j in range(n):
                cx.check_eq("cor[i][j]^2 * C_ii * C_jj = C_ij^2", cl[i][j] * cl[i][j] * C[i][i] * C[j][j], C[i][j] * C[i][j])
                cx.check("cor[i][j] has the sign of C_ij", sym_or(sym_and(cl[i][j] >= 0, C[i][j] >= 0), sym_and(cl[i][j] <= 0, C[i][j] <= 0)))
                cx.check_eq("correlation matrix symmetric", cl[i][j], cl[j][i])
        if what == "covcor":
            diag = symnp.sqrt(symnp.array([C[i][i] for i in range(n)]))
            back = m.cor2cov(cor, diag).tolist()
            for i in range(n):
                for j in range(n):
                    cx.check_eq("cor2cov(cov2cor(C), sqrt(diag C)) = C", back[i][j], C[i][j])
        return
    if what == "boxcar":
        _, n, k = cfg
        x = _reals(cx, "x", n)
        r = m.boxcar_average(symnp.array(x), k).tolist()
        cx.check("boxcar_average: one value per input element", len(r) == n)
        for i in range(min(n, len(r))):
            want = sym_sum([x[j] for j in range(i, i + k) if j < n]) / k
            cx.check_eq("boxcar_average: mean of the next N values (zero padded at the end)", r[i], want)
        return
    raise AssertionError(what)


# ----------------------------------------------------------------------------

def conformance():
    import numpy as np
    import importlib
    import sys
    import warnings
    warnings.simplefilter("ignore")
    sys.path.insert(0, loader.repo())
    try:
        real = importlib.import_module("esutil.stat.util")
    finally:
        sys.path.pop(0)
    m = _mod()
    rng = np.random.RandomState(11)
    n = 0

    def close(a, b):
        return np.allclose(np.array(a, dtype=float), np.array(b, dtype=float), rtol=1e-9, atol=1e-12)
    for _ in range(25):
        N = rng.randint(1, 6)
        x = np.round(rng.normal(size=N) * 3, 3)
        w = np.round(rng.uniform(0.1, 2, size=N), 3)
        for calcerr in (False, True):
            a = real.wmom(x, w, calcerr=calcerr, sdev=True)
            b = m.wmom(symnp.array(x.tolist()), symnp.array(w.tolist()), calcerr=calcerr, sdev=True)
            assert close(a, [float(v) for v in b]), (x, w, a, b)
            n += 1
        assert close(real.wmedian(x, w), m.wmedian(symnp.array(x.tolist()), symnp.array(w.tolist())))
        xs = np.sort(np.round(rng.uniform(0, 10, size=4), 2)) + np.arange(4) * 0.01
        vs = np.round(rng.normal(size=4), 3)
        u = np.round(rng.uniform(-2, 12, size=3), 3)
        assert close(real.interplin(vs, xs, u), m.interplin(symnp.array(vs.tolist()), symnp.array(xs.tolist()), symnp.array(u.tolist())).tolist())
        y = np.round(rng.normal(size=6), 3)
        y[0] = 25.0
        for wt in (None, np.round(rng.uniform(0.5, 1.5, size=6), 3)):
            ra = real.sigma_clip(y, weights=wt, nsig=2.0, niter=3, get_err=True, get_indices=True, silent=True)
            rb = m.sigma_clip(symnp.array(y.tolist()), weights=None if wt is None else symnp.array(wt.tolist()), nsig=2.0, niter=3, get_err=True,
                              get_indices=True, silent=True, extra={})
            assert close(ra[:3], [float(v) for v in rb[:3]]) and ra[3].tolist() == rb[3].tolist(), (ra, rb)
            n += 1
        n += 2
    return n


def replay(cand):
    import numpy as np
    import warnings
    import esutil.stat.util as su
    from vf.symx import model_float
    warnings.simplefilter("ignore")
    cfg = cand["cfg"]
    mdl = cand["model"] or {}
    what = cfg[0]
    no = {"reproduced": False, "what": "agrees", "key": None}

    def vec(name, n, default=0.0):
        return np.array([model_float(mdl.get("%s%d" % (name, i), default)) for i in range(n)], dtype="f8")

    def close(a, b, tol=1e-7):
        a = np.asarray(a, dtype=float)
        b = np.asarray(b, dtype=float)
        return a.shape == b.shape and np.allclose(a, b, rtol=tol, atol=tol * 1e-3, equal_nan=False)

    def np_wmom(x, w, mean=None):
        wt = w.sum(axis=0)
        mu = (w * x).sum(axis=0) / wt if mean is None else mean
        return mu, np.sqrt((w ** 2 * (x - mu) ** 2).sum(axis=0)) / wt, 1 / np.sqrt(wt), np.sqrt((w * (x - mu) ** 2).sum(axis=0) / wt)

    if what == "wmom1":
        _, n, im = cfg
        x, w = vec("x", n), vec("w", n, 1.0)
        if w.sum() <= 0:
            return no
        calcerr, sdev = bool(mdl.get("calcerr")), bool(mdl.get("sdev"))
        mean = model_float(mdl.get("inputmean", 0)) if im else None
        call = "wmom(%r, %r, inputmean=%r, calcerr=%s, sdev=%s)" % (x.tolist(), w.tolist(), mean, calcerr, sdev)
        try:
            r = su.wmom(x, w, inputmean=mean, calcerr=calcerr, sdev=sdev)
        except Exception as e:
            return {"reproduced": True, "key": "wmom-raises", "what": "%s raised %r" % (call, e)}
        mu, ec, ed, sd = np_wmom(x, w, mean)
        want = [mu, ec if calcerr else ed] + ([sd] if sdev else [])
        if len(r) != len(want) or not close(r, want):
            return {"reproduced": True, "key": "wmom-1d", "what": "%s -> %r, definition gives %r" % (call, tuple(map(float, r)), tuple(map(float, want)))}
        return no
    if what == "wmom2":
        _, n, w2d, im = cfg
        x = np.array([[model_float(mdl.get("x%d_%d" % (i, j), 0)) for j in range(2)] for i in range(n)])
        if w2d:
            w = np.array([[model_float(mdl.get("w%d_%d" % (i, j), 1)) for j in range(2)] for i in range(n)])
            wfull = w
        else:
            w = vec("w", n, 1.0)
            wfull = np.repeat(w[:, None], 2, axis=1)
        if (wfull.sum(axis=0) <= 0).any():
            return no
        calcerr, sdev = bool(mdl.get("calcerr")), bool(mdl.get("sdev"))
        mean = model_float(mdl.get("inputmean", 0)) if im else None
        call = "wmom(%r, %r, inputmean=%r, calcerr=%s, sdev=%s)" % (x.tolist(), w.tolist(), mean, calcerr, sdev)
        try:
            r = su.wmom(x, w, inputmean=mean, calcerr=calcerr, sdev=sdev)
        except Exception as e:
            return {"reproduced": True, "key": "wmom-raises", "what": "%s raised %r" % (call, e)}
        mu, ec, ed, sd = np_wmom(x, wfull, mean)
        want = [np.broadcast_to(mu, (2,)), ec if calcerr else ed] + ([sd] if sdev else [])
        ok = len(r) == len(want) and all(close(np.broadcast_to(np.asarray(a, dtype=float), (2,)), b) for a, b in zip(r, want))
        if not ok:
            return {"reproduced": True, "key": "wmom-2d", "what": "%s -> %r, definition gives %r" % (call, r, want)}
        return no
    if what == "wmom_badshape":
        try:
            su.wmom(np.zeros(2), np.ones(3))
        except ValueError:
            return no
        except Exception as e:
            return {"reproduced": True, "key": "wmom-badshape", "what": "wmom with mismatched weights raised %r" % (e,)}
        return {"reproduced": True, "key": "wmom-badshape", "what": "wmom accepted weights of a different length"}
    if what == "wmedian":
        n = cfg[1]
        x, w = vec("x", n), vec("w", n, 1.0)
        if w.sum() <= 0:
            return no
        r = su.wmedian(x, w)
        s = np.argsort(x, kind="stable")
        cum = np.cumsum(w[s])
        want = x[s][np.nonzero(cum >= w.sum() / 2.0)[0][0]]
        if r != want:
            return {"reproduced": True, "key": "wmedian", "what": "wmedian(%r, %r) -> %r, expected %r" % (x.tolist(), w.tolist(), float(r), float(want))}
        return no
    if what == "sigma_clip":
        _, n, niter, wt = cfg[:4]
        x = vec("x", n)
        w = vec("w", n, 1.0) if wt else None
        if wt == "fixed":
            w = np.array([1.0, 2.0, 4.0, 0.5][:n])
        if wt and w.sum() <= 0:
            return no
        nsig = model_float(mdl.get("nsig", 4))
        call = "sigma_clip(%r, weights=%r, niter=%d, nsig=%r)" % (x.tolist(), None if w is None else w.tolist(), niter, nsig)
        extra = {}
        try:
            gm, gs, ge, gi = su.sigma_clip(x, weights=w, niter=niter, nsig=nsig, get_err=True, get_indices=True, silent=True, extra=extra)
        except Exception as e:
            return {"reproduced": True, "key": "sigma_clip-raises", "what": "%s raised %r" % (call, e)}

        def stats(S):
            xs = x[S]
            if wt:
                mu, ec, _, sd = np_wmom(xs, w[S])
                return mu, sd, ec
            return xs.mean(), xs.std(), xs.std() / np.sqrt(len(S))
        idx = gi.tolist()
        S = list(range(n))
        for it in range(niter):
            mu, sd, _ = stats(S)
            keep = [i for i in S if abs(x[i] - mu) < nsig * sd]
            if not keep or len(keep) == len(S):
                break
            S = keep
        if not idx or not close([gm, gs, ge], stats(idx)):
            return {"reproduced": True, "key": "sigma_clip-stats", "what": "%s -> mean/std/err %r are not those of the reported subset %r: %r"
                    % (call, (float(gm), float(gs), float(ge)), idx, tuple(map(float, stats(idx))) if idx else None)}
        if idx != S:
            # borderline models (a point exactly at nsig deviations) are rounding-sensitive: only report clear cases
            mu, sd, _ = stats(list(range(n)))
            margins = [abs(abs(x[i] - mu) - nsig * sd) for i in range(n)]
            if min(margins) > 1e-9 * (1 + abs(nsig * sd)):
                return {"reproduced": True, "key": "sigma_clip-subset", "what": "%s kept %r, the stated rule keeps %r" % (call, idx, S)}
        # points exactly on the boundary, in cases where mean and deviation are exact in binary: "strictly within"
        for xb, ns, keep_n in ((np.array([1.0] * 4 + [-1.0] * 4 + [4.0, -4.0]), 2.0, 8), (np.array([0.0] * 30 + [8.0, -8.0]), 4.0, 30)):
            for wb in ((None, np.ones(xb.size)) if wt else (None,)):
                gi = su.sigma_clip(xb, weights=wb, niter=1, nsig=ns, get_indices=True, silent=True)[-1]
                if len(gi) != keep_n:
                    return {"reproduced": True, "key": "sigma_clip-boundary", "what": "sigma_clip(%r, nsig=%r, niter=1) keeps %d points; the points exactly nsig deviations from the mean are not strictly within and must go (%d stay)"
                            % (xb.tolist(), ns, len(gi), keep_n)}
        return no
    if what in ("interplin", "interplin_scalar"):
        _, nn, nu = cfg
        xs, vs, us = vec("x", nn), vec("v", nn), vec("u", nu)
        if not (np.diff(xs) > 0).all():
            return no
        try:
            r = su.interplin(vs, xs, us[0] if what == "interplin_scalar" else us)
        except Exception as e:
            return {"reproduced": True, "key": "interplin-raises", "what": "interplin(%r, %r, %r) raised %r" % (vs.tolist(), xs.tolist(), us.tolist(), e)}
        want = []
        for u in us:
            k = int(np.clip(np.searchsorted(xs, u) - 1, 0, nn - 2))
            want.append(vs[k] + (u - xs[k]) * (vs[k + 1] - vs[k]) / (xs[k + 1] - xs[k]))
        if not close(r, want, 1e-9):
            return {"reproduced": True, "key": "interplin", "what": "interplin(v=%r, x=%r, u=%r) -> %r, piecewise-linear rule gives %r"
                    % (vs.tolist(), xs.tolist(), us.tolist(), np.asarray(r).tolist(), want)}
        return no
    if what in ("get_stats", "get_stats2d") and cfg[2] == "clip_niter_only":
        rs = np.random.RandomState(4)
        xb = np.concatenate([rs.normal(size=40), [25.0, -30.0]])
        for kw2 in ({"niter": 2}, {"nsig": 3.0}, {"niter": 3, "nsig": 3.5}):
            r = su.get_stats(xb, silent=True, **kw2)
            cm, cs, ce = su.sigma_clip(xb, get_err=True, silent=True, **kw2)
            if not close([r["mean"], r["std"], r["err"]], [cm, cs, ce], 1e-12):
                return {"reproduced": True, "key": "get_stats-clip", "what": "get_stats(x, %s) reports mean/std/err %r, sigma_clip with the same keywords gives %r"
                        % (", ".join("%s=%r" % kv for kv in kw2.items()), (float(r["mean"]), float(r["std"]), float(r["err"])), (float(cm), float(cs), float(ce)))}
        return no
    if what in ("get_stats", "get_stats2d"):
        _, n, mode = cfg
        if what == "get_stats2d":
            x = np.array([[model_float(mdl.get("x%d_%d" % (i, j), 0)) for j in range(2)] for i in range(n)])
            r = su.get_stats(x)
            want = (x.mean(axis=0), x.std(axis=0), x.std(axis=0) / np.sqrt(n), x.min(axis=0), x.max(axis=0))
        else:
            x = vec("x", n)
            kw = {}
            if mode == "weights":
                w = vec("w", n, 1.0)
                if w.sum() <= 0:
                    return no
                kw["weights"] = w
                mu, ec, _, sd = np_wmom(x, w)
                want = (mu, sd, ec, x.min(), x.max())
            elif mode == "clip":
                nsig = model_float(mdl.get("nsig", 4))
                kw.update(nsig=nsig, niter=1, silent=True)
                cm, cs, ce = su.sigma_clip(x, nsig=nsig, niter=1, get_err=True, silent=True)
                want = (cm, cs, ce, x.min(), x.max())
            else:
                want = (x.mean(), x.std(), x.std() / np.sqrt(n), x.min(), x.max())
            try:
                r = su.get_stats(x, **kw)
            except Exception as e:
                return {"reproduced": True, "key": "get_stats-raises", "what": "get_stats(%r, %s) raised %r" % (x.tolist(), mode, e)}
        got = (r["mean"], r["std"], r["err"], r["min"], r["max"])
        if not all(close(a, b) for a, b in zip(got, want)):
            return {"reproduced": True, "key": "get_stats-" + mode, "what": "get_stats(%r, %s) -> %r, expected mean/std/err/min/max %r" % (x.tolist(), mode, got, want)}
        return no
    if what in ("covcor", "cov2cor", "cov2cor_bad"):
        n = cfg[1]
        C = np.zeros((n, n))
        for i in range(n):
            for j in range(i, n):
                C[i, j] = C[j, i] = model_float(mdl.get("c%d%d" % (i, j), 1.0 if i == j else 0.0))
        if what == "cov2cor_bad":
            try:
                su.cov2cor(C)
            except ValueError:
                return no
            except Exception as e:
                return {"reproduced": True, "key": "cov2cor-bad", "what": "cov2cor raised %r" % (e,)}
            return {"reproduced": True, "key": "cov2cor-bad", "what": "cov2cor(%r) accepted a non-positive diagonal" % (C.tolist(),)}
        if (np.diag(C) <= 0).any():
            return no
        try:
            cor = su.cov2cor(C)
            back = su.cor2cov(cor, np.sqrt(np.diag(C)))
        except Exception as e:
            return {"reproduced": True, "key": "covcor-raises", "what": "cov2cor/cor2cov(%r) raised %r" % (C.tolist(), e)}
        d = np.sqrt(np.diag(C))
        if cor is None or not close(cor, C / np.outer(d, d)):
            return {"reproduced": True, "key": "cov2cor", "what": "cov2cor(%r) -> %r" % (C.tolist(), None if cor is None else cor.tolist())}
        if not close(back, C):
            return {"reproduced": True, "key": "cor2cov", "what": "cor2cov(cov2cor(C), sqrt(diag)) -> %r for C=%r" % (back.tolist(), C.tolist())}
        return no
    if what == "boxcar":
        _, n, k = cfg
        x = vec("x", n)
        r = su.boxcar_average(x, k)
        want = [sum(x[j] for j in range(i, i + k) if j < n) / k for i in range(n)]
        if not close(r, want):
            return {"reproduced": True, "key": "boxcar", "what": "boxcar_average(%r, %d) -> %r, expected %r" % (x.tolist(), k, np.asarray(r).tolist(), want)}
        return no
    raise AssertionError(what)


MANIFEST_ENTRY = {
    "engine": "symx",
    "technique": "bounded symbolic execution (symx/z3, nonlinear real arithmetic) of stat.wmom/wmedian/sigma_clip/interplin/get_stats/cov2cor/cor2cov/boxcar_average with data, weights, nsig, the option flags and query points as solver variables; results compared with independently written definitions (roots compared on squares); counterexamples replayed on the real library",
    "text": "On every feasible path within the size bound the returned mean/error/deviation equal the docstring formulas for each calcerr/sdev/inputmean setting (1-d and N x d), the weighted median is the smallest value whose cumulative weight reaches half, sigma clipping returns the statistics of exactly the subset it reports and that subset is the outcome of the stated discard rule for every nsig in [1/2,6], interpolation is the piecewise-linear/end-segment rule, and cov->cor->cov is the identity.",
    "note": "N<=3/4 (sigma_clip weighted N<=3), niter<=2/3, tables of 2..3/4 nodes, covariance <=2x2 round trip (3x3 thorough); floats as reals; inputmean scalar only",
}
