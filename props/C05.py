"""C05 -- histogram counts and reverse indices partition the binned data.

Harnesses (all on the repository's current source):
  py    : esutil.stat.histogram -> Binner -> _dohist (pure-Python engine) against the
          definition  b(x) = floor((x-min)/binsize), counted <=> min<=x<=max & 0<=b<nbin
  c     : the same chain with the C engine PyCHist_chist interpreted from
          chist_pywrap.c (engine E2, vf.cast) -- see run of harness 'c'
  equiv : both engines on the same symbolic (data, dmin, sortind, binsize, nbin):
          identical hist and rev cell by cell
"""
import itertools

from vf import symx, symnp, loader, cast
from vf.symx import sym_and, sym_or, sym_not, sym_ite, sym_sum, wrap, SReal
import z3

PROPERTY = "C05"
LEVEL = "model_checking"
NEEDS_BUILD = True
CONFORMANCE_BUILD = True
FUNCTIONS = [
    ("esutil/stat/util.py", "_dohist"),
    ("esutil/stat/util.py", "histogram"),
    ("esutil/stat/util.py", "Binner.__init__"),
    ("esutil/stat/util.py", "Binner.dohist"),
    ("esutil/stat/util.py", "Binner._hist_by_binsize_or_nbin"),
    ("esutil/stat/util.py", "Binner._do_hist"),
    ("esutil/stat/util.py", "Binner._get_sort_index"),
    ("esutil/stat/util.py", "Binner._get_minmax_and_indices"),
    ("esutil/stat/chist_pywrap.c", "PyCHist_chist"),
]
ASSUMPTIONS = [
    "float64 arithmetic is exact real arithmetic (bin index floor((x-min)/binsize) decided over the reals)",
    "array length N and number of bins are bounded as listed under bounds; data values, limits and bin size are unbounded reals",
    "binsize > 0 (nbin mode: max > min, so the derived bin size is positive)",
    "NumPy itself (argsort stable for small arrays, where, zeros, indexing) behaves as modelled by vf.symnp; checked by the conformance pass",
    "C engine: PyArg_ParseTuple/PyArray_DATA/SIZE/GETPTR1 are intrinsics returning the argument buffers; int64 arithmetic without overflow (sizes are tiny)",
]
BOUNDS = {
    "quick": {"N": "1..3", "nbin": "1..3 (binsize mode: (max-min)/binsize < 3)", "min/max": "each present or absent, symbolic value"},
    "thorough": {"N": "1..5 (py,c) / 1..4 (equiv)", "nbin": "1..4", "min/max": "each present or absent, symbolic value"},
}
EXPLORE_OPTS = {"max_paths": 60000}
TIER_OPTS = {"quick": {"time_budget": 240}, "thorough": {"time_budget": 1500}}


def configs(tier):
    out = []
    if tier == "quick":
        Ns, nbins, maxnb = (1, 2, 3), (1, 2, 3), 3
    else:
        Ns, nbins, maxnb = (1, 2, 3, 4, 5), (1, 2, 3, 4), 4
    for engine in ("py", "c"):
        for N in Ns:
            for hasmin, hasmax in itertools.product((False, True), repeat=2):
                out.append((engine, "binsize", N, maxnb, hasmin, hasmax))
                for nb in nbins:
                    if N == 1 and not (hasmin or hasmax):
                        continue        # max > min impossible: bin size would be 0
                    if engine == "c" and N >= 5 and nb >= 4:
                        continue
                    out.append((engine, "nbin", N, nb, hasmin, hasmax))
    eqN = (1, 2, 3) if tier == "quick" else (1, 2, 3, 4)
    for N in eqN:
        for nb in (1, 2, 3):
            out.append(("equiv", "raw", N, nb, False, False))
    # data that is a strided view of a longer array, both engines
    for engine in ("py", "c"):
        out.append((engine, "binsize+strided", 2, 2, False, False))
        out.append((engine, "nbin+strided", 2, 2, True, True))
    # the bin-index kernel over IEEE floats (reduced width: half precision quick, single thorough)
    out.append(("fpequiv", "f16" if tier == "quick" else "f32", 1, 2, False, False))
    return out


def _stubs(engine):
    if engine == "py":
        return {}
    from vf import cmodels
    return {"esutil.stat._chist": cmodels.chist_module()}


def harness(cx, cfg):
    engine, mode, N, nb, hasmin, hasmax = cfg
    if engine == "equiv":
        return harness_equiv(cx, cfg)
    if engine == "fpequiv":
        return harness_fpequiv(cx, cfg)
    L = loader.Loader(stubs=_stubs(engine))
    m = L.get("esutil.stat.util")
    assert m.have_chist == (engine == "c")
    xs = [cx.real("x%d" % i) for i in range(N)]
    mn = cx.real("min") if hasmin else None
    mx = cx.real("max") if hasmax else None
    lo = mn if hasmin else symnp._minimum_cells(xs)
    hi = mx if hasmax else symnp._maximum_cells(xs)
    strided = mode.endswith("+strided")
    mode = mode.split("+")[0]
    if strided:
        # the caller's data is every other element of a longer array
        pads = [cx.real("pad%d" % i) for i in range(N)]
        data = symnp.array([v for pr in zip(xs, pads) for v in pr])[::2]
    else:
        data = symnp.array(xs)
    kw = {}
    if mode == "binsize":
        bs = cx.real("binsize")
        cx.assume(bs > 0)
        cx.assume(hi - lo < nb * bs)      # bounds the number of bins by nb
        cx.assume(hi >= lo)
        kw["binsize"] = bs
        bsz = bs
    else:
        cx.assume(hi > lo)
        kw["nbin"] = nb
        bsz = (hi - lo) / nb
    inrange = [sym_and(x >= lo, x <= hi) for x in xs]
    try:
        h, rev = m.histogram(data, min=mn, max=mx, rev=True, **kw)
    except cast.CError as e:
        cx.fail("histogram of %s data: the C engine %s" % ("strided" if strided else "contiguous", e))
        return
    except ValueError as e:
        # documented: no data inside [min,max]
        if "No data in specified min/max range" in str(e):
            cx.check("ValueError only when no datum lies within the limits",
                     sym_not(sym_or(*inrange)))
            return
        raise
    nbin = h.size
    hist = [h[k] for k in range(nbin)]
    if mode == "nbin":
        cx.check("number of bins equals nbin", nbin == nb)
    else:
        cx.check_eq("number of bins = trunc((max-min)/binsize)+1", nbin,
                    symx.to_int_trunc((hi - lo) / bsz) + 1)
    b = [wrap(z3.ToInt(symx.real_term((x - lo) / bsz))) for x in xs]
    counted = [sym_and(inrange[i], b[i] >= 0, b[i] < nbin) for i in range(N)]
    for k in range(nbin):
        want = sym_sum([sym_ite(sym_and(counted[i], b[i] == k), 1, 0) for i in range(N)])
        cx.check_eq("hist[k] = number of counted data with bin index k", hist[k], want)
    cx.check_eq("sum(hist) = number of counted data", sym_sum(hist),
                sym_sum([sym_ite(c, 1, 0) for c in counted]))
    cx.check("rev has nbin+1 offsets followed by indices", rev.size >= nbin + 1)
    r = [rev[i] for i in range(rev.size)]
    seen = []
    for k in range(nbin):
        cx.check("rev[k+1]-rev[k] = hist[k]", r[k + 1] - r[k] == hist[k])
        a, e = int(r[k]), int(r[k + 1])
        if not (nbin + 1 <= a <= e <= rev.size):
            cx.check("rev offsets stay inside rev", False)
            continue
        members = [int(v) for v in r[a:e]]
        for p, idx in enumerate(members):
            if not (0 <= idx < N):
                cx.check("rev entries are data indices", False)
                continue
            cx.check("slice k of rev holds only counted data of bin k",
                     sym_and(counted[idx], b[idx] == k))
            if p > 0:
                j = members[p - 1]
                cx.check("slice ordered by value, ties in original order",
                         sym_or(xs[j] < xs[idx], sym_and(xs[j] == xs[idx], j < idx)))
        seen.extend(members)
    cx.check("no index appears twice in the slices", len(set(seen)) == len(seen))


def harness_equiv(cx, cfg):
    """_dohist (Python) vs PyCHist_chist (C, via vf.cast) on the same raw arguments:
    arbitrary data, arbitrary dmin/binsize>0, sortind = stable argsort restricted to an
    arbitrary contiguous run (what Binner passes)."""
    _, _, N, nb, _, _ = cfg
    from vf import cmodels
    L = loader.Loader()
    m = L.get("esutil.stat.util")
    xs = [cx.real("x%d" % i) for i in range(N)]
    dmin = cx.real("dmin")
    bs = cx.real("binsize")
    cx.assume(bs > 0)
    data = symnp.array(xs)
    s = data.argsort(kind="stable")
    first = cx.choice("first", N)
    count = cx.choice("cnt", N - first) + 1
    s = s[first:first + count]
    for dorev in (True, False):
        hp = symnp.zeros(nb, dtype="i8")
        hc = symnp.zeros(nb, dtype="i8")
        rp = symnp.zeros(s.size + nb + 1, dtype="i8") if dorev else None
        rc = symnp.zeros(s.size + nb + 1, dtype="i8") if dorev else None
        m._dohist(data, dmin, s, bs, hp, revind=rp)
        cmodels.chist_module().chist(data, dmin, s, bs, hc, rc)
        for k in range(nb):
            cx.check_eq("C and Python engines: hist identical", hp[k], hc[k])
        if dorev:
            for k in range(rp.size):
                cx.check_eq("C and Python engines: rev identical", rp[k], rc[k])


def harness_fpequiv(cx, cfg):
    """the same comparison with the datum, the minimum and the bin size as IEEE floating-point variables
    (z3 FloatingPoint sort of reduced width -- full double width does not finish): the bin a datum falls in
    must be the same in both engines and equal to trunc((x - min) / binsize) evaluated in that arithmetic"""
    import z3
    _, width, N, nb, _, _ = cfg
    sort = {"f16": z3.Float16(), "f32": z3.Float32()}[width]
    from vf import cmodels
    L = loader.Loader()
    m = L.get("esutil.stat.util")
    x = cx.fp("x0", -64.0, 64.0, sort=sort)
    dmin = cx.fp("dmin", -64.0, 64.0, sort=sort)
    bs = cx.fp("binsize", 2.0 ** -6, 64.0, sort=sort)
    q = (x - dmin) / bs
    cx.assume(symx.sym_and(q > -1000.0, q < 1000.0))        # conversion to an integer defined
    data = symnp.array([x])
    s = symnp.array([0], dtype="i8")
    hp = symnp.zeros(nb, dtype="i8")
    hc = symnp.zeros(nb, dtype="i8")
    rp = symnp.zeros(s.size + nb + 1, dtype="i8")
    rc = symnp.zeros(s.size + nb + 1, dtype="i8")
    m._dohist(data, dmin, s, bs, hp, revind=rp)
    cmodels.chist_module().chist(data, dmin, s, bs, hc, rc)
    want = symx.to_int_trunc(q)
    for k in range(nb):
        cx.check_eq("IEEE arithmetic (%s): C and Python engines count the datum in the same bin" % width, hp[k], hc[k])
        cx.check("IEEE arithmetic (%s): the datum is counted in bin trunc((x - min) / binsize)" % width,
                 symx.sym_and(hc[k] == symx.sym_ite(want == k, 1, 0)))
    for k in range(rp.size):
        cx.check_eq("IEEE arithmetic (%s): C and Python engines give the same reverse indices" % width, rp[k], rc[k])


# ----------------------------------------------------------------------------
# conformance: the shim-executed source vs the real library on concrete inputs

def conformance():
    import numpy as np
    import importlib
    import sys
    sys.path.insert(0, loader.real_repo())
    try:
        real = importlib.import_module("esutil.stat.util")
    finally:
        sys.path.pop(0)
    L = loader.Loader()
    m = L.get("esutil.stat.util")
    from vf import cmodels
    Lc = loader.Loader(stubs={"esutil.stat._chist": cmodels.chist_module()})
    mc = Lc.get("esutil.stat.util")
    rng = np.random.RandomState(5)
    n = 0
    cases = []
    for _ in range(40):
        N = rng.randint(1, 7)
        x = np.round(rng.uniform(-3, 3, N) * 4) / 4
        kw = {}
        if rng.rand() < 0.5:
            kw["binsize"] = float(rng.choice([0.25, 0.5, 1.0, 0.75]))
        else:
            kw["nbin"] = int(rng.randint(1, 4))
        if rng.rand() < 0.5:
            kw["min"] = float(rng.choice([-1.0, 0.0, -2.5]))
        if rng.rand() < 0.5:
            kw["max"] = float(rng.choice([1.0, 2.0, 2.5]))
        cases.append((x, kw))
    cases.append((np.array([0.0, 1.0, 2.0]), {"nbin": 2}))
    for x, kw in cases:
        def run(mod, arr):
            try:
                h, r = mod.histogram(arr, rev=True, **kw)
                return ("ok", [int(v) for v in (h.tolist())], [int(v) for v in r.tolist()])
            except ValueError as e:
                return ("ValueError",)
            except ZeroDivisionError:
                return ("zerodiv",)
        old = real.have_chist
        try:
            real.have_chist = False
            want = run(real, x)
            real.have_chist = old
            want_c = run(real, x) if old else want
        finally:
            real.have_chist = old
        if "nbin" in kw and (kw.get("max", x.max()) <= kw.get("min", x.min())):
            continue
        got = run(m, symnp.array(x.tolist()))
        got_c = run(mc, symnp.array(x.tolist()))
        if got != want or got_c != want_c:
            raise AssertionError("shim disagrees with the real library on %r %r: %r / %r vs %r / %r"
                                 % (x.tolist(), kw, got, got_c, want, want_c))
        n += 2
    return n


# ----------------------------------------------------------------------------
# replay against the real build

def _oracle(x, lo, hi, bsz, nbin):
    import math
    members = [[] for _ in range(nbin)]
    for i, v in enumerate(x):
        if lo <= v <= hi:
            b = math.floor((v - lo) / bsz)
            if 0 <= b < nbin:
                members[b].append(i)
    for mlist in members:
        mlist.sort(key=lambda i: (x[i], i))
    return members


def replay(cand):
    import numpy as np
    from vf.symx import model_float
    engine, mode, N, nb, hasmin, hasmax = cand["cfg"]
    mdl = cand["model"]
    if engine == "equiv":
        return replay_equiv(cand)
    if engine == "fpequiv":
        return replay_fpequiv(cand)
    strided = mode.endswith("+strided")
    mode = mode.split("+")[0]
    x = np.array([model_float(mdl["x%d" % i]) for i in range(N)], dtype="f8")
    kw = {}
    if hasmin:
        kw["min"] = model_float(mdl["min"])
    if hasmax:
        kw["max"] = model_float(mdl["max"])
    if mode == "binsize":
        kw["binsize"] = model_float(mdl["binsize"])
    else:
        kw["nbin"] = nb
    trials = [(x, kw)]
    # companions: the same call shape on longer arrays with many tied values (NumPy's default sort is
    # unstable only beyond a handful of elements) -- the statement orders ties by original position
    rs = np.random.RandomState(7)
    for n in (24, 40, 64):
        xc = rs.randint(0, 5, n).astype("f8") * 0.5
        kc = {"nbin": 3} if mode == "nbin" else {"binsize": 0.75}
        if hasmin:
            kc["min"] = -0.25
        if hasmax:
            kc["max"] = 2.5
        trials.append((xc, kc))
    last = None
    for xt, kt in trials:
        if strided:
            big = np.empty(2 * xt.size, dtype="f8")
            big[::2] = xt
            big[1::2] = -777.0
            xt = big[::2]
        last = _replay_one(engine, mode, xt, kt, nb, strided)
        if last["reproduced"]:
            return last
    return last


def _replay_one(engine, mode, x, kw, nb, strided):
    import numpy as np
    import esutil.stat.util as su
    old = su.have_chist
    su.have_chist = (engine == "c") and old
    try:
        try:
            h, rev = su.histogram(x, rev=True, **kw)
        except ValueError as e:
            lo = kw.get("min", x.min())
            hi = kw.get("max", x.max())
            anyin = bool(((x >= lo) & (x <= hi)).any())
            if anyin:
                return {"reproduced": True, "key": "valueerror-with-data-in-range",
                        "what": "histogram(%r, %r) raised ValueError although data lie in range" % (x.tolist(), kw)}
            return {"reproduced": False, "what": "legitimate ValueError", "key": None}
    finally:
        su.have_chist = old
    lo = kw.get("min", x.min())
    hi = kw.get("max", x.max())
    if mode == "binsize":
        bsz = kw["binsize"]
    else:
        bsz = float(hi - lo) / kw["nbin"]
    nbin = h.size
    members = _oracle(x.tolist(), lo, hi, bsz, nbin)
    call = "histogram(%r%s, rev=True, %s) [%s engine]" % (x.tolist(), " (a strided view)" if strided else "", ", ".join("%s=%r" % kv for kv in sorted(kw.items())), engine)
    want_h = [len(mm) for mm in members]
    if h.tolist() != want_h:
        return {"reproduced": True, "key": "hist-counts:" + mode,
                "what": "%s: hist %r, definition gives %r" % (call, h.tolist(), want_h)}
    for k in range(nbin):
        # the documented access pattern is `if rev[k] != rev[k+1]: w = rev[rev[k]:rev[k+1]]`,
        # so the offsets themselves must be consistent with the counts
        if int(rev[k + 1]) - int(rev[k]) != int(h[k]) or not (nbin + 1 <= rev[k] <= rev[k + 1] <= rev.size):
            return {"reproduced": True, "key": "rev-offsets:" + mode,
                    "what": "%s: offsets rev[%d],rev[%d] = %d,%d do not delimit the %d data of bin %d (rev %r)"
                            % (call, k, k + 1, rev[k], rev[k + 1], h[k], k, rev.tolist())}
        sl = rev[rev[k]:rev[k + 1]].tolist()
        if sl != members[k]:
            return {"reproduced": True, "key": "rev-slice:" + mode,
                    "what": "%s: rev[rev[%d]:rev[%d]] = %r but the data of bin %d are %r (hist %r)"
                            % (call, k, k + 1, sl, k, members[k], h.tolist())}
    return {"reproduced": False, "what": "%s agrees with the definition" % call, "key": None}


def replay_equiv(cand):
    import numpy as np
    import esutil.stat.util as su
    from esutil.stat import _chist
    from vf.symx import model_float
    _, _, N, nb, _, _ = cand["cfg"]
    mdl = cand["model"]
    x = np.array([model_float(mdl["x%d" % i]) for i in range(N)], dtype="f8")
    dmin = model_float(mdl["dmin"])
    bs = model_float(mdl["binsize"])
    first, cnt = mdl["first"], mdl["cnt"] + 1
    s = x.argsort(kind="stable")[first:first + cnt].astype("i8")
    for dorev in (True, False):
        hp = np.zeros(nb, dtype="i8")
        hc = np.zeros(nb, dtype="i8")
        rp = np.zeros(s.size + nb + 1, dtype="i8") if dorev else None
        rc = np.zeros(s.size + nb + 1, dtype="i8") if dorev else None
        su._dohist(x, dmin, s, bs, hp, revind=rp)
        _chist.chist(x, dmin, s, bs, hc, rc)
        if hp.tolist() != hc.tolist() or (dorev and rp.tolist() != rc.tolist()):
            return {"reproduced": True, "key": "engines-differ",
                    "what": "_dohist vs _chist.chist on data=%r dmin=%r sortind=%r binsize=%r nbin=%d: hist %r/%r rev %r/%r"
                            % (x.tolist(), dmin, s.tolist(), bs, nb, hp.tolist(), hc.tolist(),
                               None if rp is None else rp.tolist(), None if rc is None else rc.tolist())}
    return {"reproduced": False, "what": "engines agree", "key": None}

def replay_fpequiv(cand):
    """the solver's counterexample lives in a narrower float format; in doubles the same effect needs a bin
    size whose reciprocal is inexact and data on bin edges: the model's values first, then that family"""
    import numpy as np
    import esutil.stat.util as su
    from esutil.stat import _chist
    from vf.symx import model_float
    mdl = cand["model"] or {}
    trials = []
    try:
        trials.append((model_float(mdl["x0"]), model_float(mdl["dmin"]), model_float(mdl["binsize"])))
    except Exception:
        pass
    for bs in (0.1, 0.3, 1.0 / 3.0, 0.7, 0.01, 1.1, 0.05, 1e-3, 3.3, 0.9, 1.7):
        for dmin in (0.0, 0.1, -1.3, 2.5):
            for k in range(0, 60):
                trials.append((dmin + k * bs, dmin, bs))
                trials.append((np.nextafter(dmin + k * bs, -np.inf), dmin, bs))
                trials.append(((k * bs) + dmin, dmin, bs))
    nb = 64
    for x0, dmin, bs in trials:
        x = np.array([x0], dtype="f8")
        s = np.array([0], dtype="i8")
        hp = np.zeros(nb, dtype="i8")
        hc = np.zeros(nb, dtype="i8")
        rp = np.zeros(1 + nb + 1, dtype="i8")
        rc = np.zeros(1 + nb + 1, dtype="i8")
        su._dohist(x, dmin, s, bs, hp, revind=rp)
        _chist.chist(x, dmin, s, bs, hc, rc)
        q = (x0 - dmin) / bs
        want = np.zeros(nb, dtype="i8")
        if 0 <= int(q) < nb:            # conversion truncates toward zero, as both engines do
            want[int(q)] = 1
        if hc.tolist() != want.tolist() or hp.tolist() != hc.tolist() or rp.tolist() != rc.tolist():
            return {"reproduced": True, "key": "ieee:bin-index",
                    "what": "datum %r, min %r, binsize %r: C engine counts it in bin %r, Python engine in bin %r, trunc((x-min)/binsize) = %r"
                            % (x0, dmin, bs, np.flatnonzero(hc).tolist(), np.flatnonzero(hp).tolist(), int(q))}
    return {"reproduced": False, "what": "engines agree with trunc((x-min)/binsize) on the model and on the bin-edge family", "key": None}


MANIFEST_ENTRY = {
    "engine": "symx+cast",
    "technique": "bounded symbolic execution of the Python source (symx/z3) and of the C engine from clang's AST (cast/z3); per-path SMT queries against the definitional bin membership; the bin-index kernel of both engines also over z3's FloatingPoint sort at reduced width (counterexamples realised in doubles by the replay); strided-view inputs; C vs Python equivalence as terms; counterexamples replayed on a scratch build",
    "text": "For every array length up to the bound and every real-valued data/min/max/binsize (all solver variables) the counts, the reverse-index slices, their order and the bin count are proved equal to the definition on every feasible path of Binner/_dohist and of PyCHist_chist, and both engines are proved to produce identical arrays on arbitrary raw arguments. Bounded in N and nbin only; exact in the values.",
    "note": "floats as reals, except the bin-index kernel (one datum, both engines) which is also decided over IEEE floating point of reduced width (half precision quick, single thorough; double width does not finish in z3); N<=3 (quick) / 5 (thorough), nbin<=3/4; vf.symnp models NumPy (conformance pass against the real library on 80+ traces per run); numpy C-API accessors are intrinsics",
}
