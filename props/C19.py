"""C19 -- random sky positions stay in their region; samplers invert the distribution.

The random source is an environment stub: every deviate is a fresh solver variable
constrained only by the generator's documented contract."""
import math
import fractions

from vf import symx, symnp, loader, trig
from vf.symx import sym_and, sym_or, sym_not, sym_ite, sym_sum, is_sym, SReal, wrap
import z3

PROPERTY = "C19"
LEVEL = "model_checking"
NEEDS_BUILD = False
FUNCTIONS = [("esutil/coords.py", n) for n in ("randsphere", "_check_range", "randcap", "rotate", "atbound")] + \
            [("esutil/random.py", n) for n in ("Generator.__init__", "Generator.initialize_points", "Generator.initialize_func",
                                               "Generator._genrand_accum", "Generator.sample", "CholeskySampler.__init__",
                                               "CholeskySampler.sample", "cholesky_sample", "random_indices")] + \
            [("esutil/stat/util.py", "interplin")]
ASSUMPTIONS = [
    "the generator is a recording stub: uniform(low,high) in [low,high], random() in [0,1), choice(imax, size, replace) in [0,imax) and pairwise distinct iff replace is False -- reproducibility with equal seeds and all distributional claims are NumPy's and outside the claim",
    "numpy.linalg.cholesky returns a lower-triangular L with positive diagonal and L L^T = cov (contract); scipy.integrate.cumulative_trapezoid is the trapezoid rule (written out)",
    "floats are reals; sin/cos algebraised (vf.trig); arccos is decreasing with arccos(cos t) = t on [0,180] degrees (rule with that side condition)",
    "randcap: the spherical-cosine identity is decided on the unclipped cosines; that the two clips are no-ops (triangle inequality) and exact poles (sin = 0) are outside the claim",
    "the rotated (dorot) branch: count, ranges and the units of the returned radii are decided here, that rotate preserves separations in C09",
]
BOUNDS = {"quick": {"points": "1 per call", "density tables": "3..4 nodes, 2 deviates", "covariance": "<=2x2, n<=2"},
          "thorough": {"points": "1..2 per call", "density tables": "3..5 nodes", "covariance": "<=3x3, n<=2"}}
EXPLORE_OPTS = {"max_paths": 4000, "query_timeout_ms": 8000, "feas_timeout_ms": 1500}
TIER_OPTS = {"quick": {"time_budget": 150}, "thorough": {"time_budget": 1200, "query_timeout_ms": 30000}}


def configs(tier):
    q = tier == "quick"
    out = [("randsphere", 1), ("randsphere_default", 2), ("randsphere_bad",), ("randsphere_xyz", 1), ("randcap", False, False), ("randcap", True, False),
           ("randcap", True, True), ("randcap", False, True)]
    for nn in ((3, 4) if q else (3, 4, 5)):
        for kind in ("table", "func", "cumulative"):
            out.append(("generator", kind, nn))
    for npar in ((1, 2) if q else (1, 2, 3)):
        for n in (None, 1, 2):
            out.append(("cholesky", npar, n))
            out.append(("cholesky_fn", npar, n if n else 1))
    out.append(("cholesky_bad",))
    out.append(("random_indices",))
    return out


class RNG(object):
    """recording deviate source"""

    def __init__(self, cx):
        self.cx = cx
        self.n = 0
        self.calls = []

    def _fresh(self, lo, hi, strict_hi=False, name="u"):
        self.n += 1
        if isinstance(lo, trig.SAng) or isinstance(hi, trig.SAng):
            # a deviate that is an angle (position angle in [0, 2 pi))
            hi_deg = hi.const if isinstance(hi, trig.SAng) and hi.is_const else 360
            a = trig.angle("%s%d" % (name, self.n), 0, hi_deg, unit="rad")
            return a
        v = self.cx.real("%s%d" % (name, self.n))
        self.cx.assume(v >= lo)
        self.cx.assume(v < hi if strict_hi else v <= hi)
        return v

    def uniform(self, low=0.0, high=1.0, size=None):
        self.calls.append(("uniform", low, high, size))
        if size is None:
            return self._fresh(low, high)
        return symnp.array([self._fresh(low, high) for _ in range(int(size))], dtype="f8")

    def random(self, size=None):
        self.calls.append(("random", size))
        if size is None:
            return self._fresh(0, 1, True)
        return symnp.array([self._fresh(0, 1, True) for _ in range(int(size))], dtype="f8")

    random_sample = random

    def choice(self, a, size=None, replace=True, **kw):
        self.calls.append(("choice", a, size, replace))
        n = 1 if size is None else int(size)
        vals = [self.cx.int("idx%d" % i, 0) for i in range(n)]
        for v in vals:
            self.cx.assume(v < a)
        if not replace:
            if bool(a < n) if is_sym(a) else a < n:
                raise ValueError("Cannot take a larger sample than population when replace is False")
            for i in range(n):
                for j in range(i + 1, n):
                    self.cx.assume(vals[i] != vals[j])
        return symnp.array(vals, dtype="i8")


def _scipy_stub():
    class Integ(object):
        @staticmethod
        def cumulative_trapezoid(y, x):
            yl, xl = symnp.asarray(y).tolist(), symnp.asarray(x).tolist()
            out = []
            acc = 0
            for i in range(len(xl) - 1):
                acc = acc + (xl[i + 1] - xl[i]) * (yl[i] + yl[i + 1]) / 2
                out.append(acc)
            return symnp.array(out, dtype="f8")

    class SciPy(object):
        integrate = Integ
    return SciPy, Integ


def _mods(cx, with_trig):
    S, I = _scipy_stub()
    ld = loader.Loader(stubs={"scipy": S, "scipy.integrate": I})
    return ld


def harness(cx, cfg):
    what = cfg[0]
    if what.startswith("randsphere") or what == "randcap":
        trig.install()
        try:
            return h_sky(cx, cfg)
        finally:
            trig.uninstall()
    return h_samplers(cx, cfg)


def _leaf(v):
    if not is_sym(v):
        return v
    stack = [v.t]
    while stack:
        e = stack.pop()
        if z3.is_app_of(e, z3.Z3_OP_ITE):
            stack.extend(e.children()[1:])
        elif not z3.is_rational_value(z3.simplify(e)):
            return SReal(e)
    return v


def h_sky(cx, cfg):
    what = cfg[0]
    co = loader.Loader().get("esutil.coords")
    rng = RNG(cx)
    S = trig.st()
    if what == "randsphere_bad":
        lo = cx.real("lo")
        hi = cx.real("hi")
        cx.assume(lo <= hi)
        try:
            co.randsphere(1, ra_range=[lo, hi], rng=rng)
        except Exception:      # which exception type is raised is not part of the property
            cx.check("randsphere rejects only ranges outside [0,360]", sym_or(lo < 0, hi > 360))
            cx.drop_obligations("rejected call")
            return
        cx.check("randsphere rejects ranges outside [0,360]", sym_and(lo >= 0, hi <= 360))
        cx.drop_obligations("domain conditions are decided in the randsphere configuration")
        return
    if what == "randsphere_xyz":
        # system='xyz': the unit vector of a point of the box: z between the sines of the latitude limits,
        # unit length, longitude (direction of (x, y)) inside the longitude limits
        ralo, rahi = cx.real("ralo", 0, 360), cx.real("rahi", 0, 360)
        cx.assume(ralo <= rahi)
        dlo = trig.angle("dlo", -90, 90)
        dhi = trig.angle("dhi", -90, 90)
        cx.assume(dlo <= dhi)
        x, y, z = co.randsphere(1, ra_range=[ralo, rahi], dec_range=[dlo, dhi], system="xyz", rng=rng)
        x, y, z = x.tolist()[0], y.tolist()[0], z.tolist()[0]
        slo, _c = trig.sincos(trig.deg2rad(dlo))
        shi, _c = trig.sincos(trig.deg2rad(dhi))
        zr = _leaf(z)
        cx.check("randsphere(system='xyz'): z lies between the sines of the latitude limits", sym_and(zr >= slo, zr <= shi))
        cx.check_eq("randsphere(system='xyz'): unit length", x * x + y * y + z * z, 1)
        cx.drop_obligations("clip/arccos domain conditions are decided in the randsphere configuration")
        return
    if what in ("randsphere", "randsphere_default"):
        num = cfg[1]
        if what == "randsphere":
            ralo, rahi = cx.real("ralo", 0, 360), cx.real("rahi", 0, 360)
            cx.assume(ralo <= rahi)
            dlo = trig.angle("dlo", -90, 90)
            dhi = trig.angle("dhi", -90, 90)
            cx.assume(dlo <= dhi)
            ra, dec = co.randsphere(num, ra_range=[ralo, rahi], dec_range=[dlo, dhi], rng=rng)
            # arccos is decreasing: relate the result to the two bounds (both 90+d in [0,180])
            trig.acos_monotone(dlo + 90)
            trig.acos_monotone(dhi + 90)
        else:
            ralo, rahi, dlo, dhi = 0.0, 360.0, -90.0, 90.0
            ra, dec = co.randsphere(num, rng=rng)
            trig.acos_monotone(trig.const_angle(0, 1))
            trig.acos_monotone(trig.const_angle(180, 1))
        rl, dl = ra.tolist(), dec.tolist()
        cx.check("randsphere returns the requested number of points", len(rl) == num and len(dl) == num)
        for r, d in zip(rl, dl):
            cx.check("randsphere: longitude inside the box", sym_and(r >= ralo, r <= rahi))
            cx.check("randsphere: latitude is an angle in degrees", isinstance(d, trig.SAng) and d.k == 1)
            if isinstance(d, trig.SAng):
                cx.check("randsphere: latitude inside the box", sym_and(d >= dlo, d <= dhi))
        cx.certify_obligations([])
        # the cosine handed to arccos was clipped to [-1,1] by the code; the square root inside
        # the arccos pair is of 1-u^2 with |u| <= 1
        cx.assume_obligations(only=("sqrt",)) if False else None
        return
    if what == "randcap":
        _, get_radius, dorot = cfg
        ra = trig.angle("ra", 0, 360)
        dec = trig.angle("dec", -90, 90)
        rad = cx.real("rad", 0, 180)
        cx.assume(rad > 0)
        polar = sym_or(dec >= 89.9, dec <= -89.9)
        if dorot:
            pass
        else:
            cx.assume(sym_not(polar))       # the direct branch is taken
        S.log[:] = []
        inner = {}
        if dorot:
            # the rotated branch draws in a cap about (90, 0) and rotates it to the centre.  The
            # inner draw is replaced by its contract (decided in the direct configurations): a
            # point whose separation from (90, 0) is r, i.e. cos(dec_p) sin(ra_p) = cos r
            real_randcap = co.randcap

            def randcap_contract(nrand, ra_c, dec_c, rad_c, get_radius=False, dorot=False, rng=None):
                if inner or dorot or not (ra_c == 90.0 and dec_c == 0.0):
                    return real_randcap(nrand, ra_c, dec_c, rad_c, get_radius=get_radius, dorot=dorot, rng=rng)
                u = rng.random(int(nrand)).tolist()[0]
                rng.uniform(low=0, high=1, size=int(nrand))
                rr = symx.sym_sqrt(u) * rad_c
                rap = trig.angle("ra_p", 0, 360)
                decp = trig.angle("dec_p", -90, 90)
                (srp, crp), (sdp, cdp) = trig.pair("ra_p"), trig.pair("dec_p")
                cx.assume(cdp >= 0)
                rs, rc = trig.sincos(SReal(symx.real_term(rr) * trig.PI / 180))
                cx._assume_t(symx.real_term(cdp * srp) == symx.real_term(rc))
                cx.rules.append(((cdp.t, srp.t), 1, symx.real_term(rc)))
                inner.update(ra=rap, dec=decp, r=rr, rcos=rc)
                return symnp.array([rap]), symnp.array([decp]), symnp.array([rr])
            co.randcap = randcap_contract
            res = co.randcap(1, ra, dec, rad, get_radius=get_radius, dorot=True, rng=rng)
        else:
            res = co.randcap(1, ra, dec, rad, get_radius=get_radius, dorot=dorot, rng=rng)
        cx.check("randcap returns (ra, dec[, radius])", len(res) == (3 if get_radius else 2))
        r0, d0 = res[0].tolist()[0] if hasattr(res[0], "tolist") else res[0], res[1].tolist()[0] if hasattr(res[1], "tolist") else res[1]
        cx.check("randcap returns the requested number of points", (not hasattr(res[0], "tolist")) or len(res[0].tolist()) == 1)
        u = [c for c in rng.calls if c[0] == "random"]
        cx.check("randcap draws the radius once per point", len(u) == 1)
        uu = SReal(z3.Real("u1"))
        want_r = symx.sym_sqrt(uu) * rad
        if get_radius:
            rr = res[2].tolist()[0] if hasattr(res[2], "tolist") else res[2]
            cx.check_eq("randcap: returned radius = sqrt(u) * rad, in degrees", rr, want_r)
        if isinstance(r0, trig.SAng) and isinstance(d0, trig.SAng):
            cx.check("randcap: outputs in degrees", r0.k == 1 and d0.k == 1)
            cx.check("randcap: longitude in [0,360], latitude in [-90,90]", sym_and(r0 >= 0, r0 <= 360, d0 >= -90, d0 <= 90))
        else:
            cx.check("randcap: outputs are angles", is_sym(r0) and is_sym(d0))
        if not dorot:
            # spherical law of cosines on the unclipped cosines: cos(sep(centre, point)) = cos(r)
            acs = [p for p in S.log if p[0] == "arccos"]
            cx.check("randcap: two arccos evaluations (polar distance and longitude offset)", len(acs) == 2)
            if len(acs) == 2:
                C2, cD = _leaf(acs[0][1]), _leaf(acs[1][1])
                # domain of the claim: neither clip is active (they are no-ops for a spherical
                # triangle; that inequality is outside the claim)
                for clipped, raw in ((acs[0][1], C2), (acs[1][1], cD)):
                    if is_sym(clipped) and z3.is_app_of(clipped.t, z3.Z3_OP_ITE):
                        cx._assume_t(clipped.t == raw.t)
                        cx.rules.append((clipped.t, 1, raw.t))
                sth, cth = trig.sincos(trig.deg2rad(dec + 90))
                rsin, rcos = trig.sincos(SReal(symx.real_term(want_r) * trig.PI / 180))
                S2 = symx.sym_sqrt(1 - acs[0][1] * acs[0][1])        # sin(theta2) as the code forms it
                cx.check_eq("randcap: cos(separation from the centre) = cos(radius) (spherical law of cosines, unclipped)",
                            cth * C2 + sth * S2 * cD, rcos)
                spsi, cpsi = trig.sincos(trig.SAng({"u2": fractions.Fraction(1)}, 0, 0))
                cx.check_eq("randcap: polar distance from radius and position angle", C2, cth * rcos + sth * rsin * cpsi)
        if dorot and inner:
            # the direction finally returned is what the last rotate handed to arcsin/arctan2
            asn = [p for p in S.log if p[0] == "arcsin"]
            at2 = [p for p in S.log if p[0] == "arctan2"]
            cx.check("randcap (rotated): the cap is rotated by calls of rotate", len(asn) >= 1 and len(at2) >= 1)
            if asn and at2:
                vx, vy, vz = at2[-1][2], at2[-1][1], _leaf(asn[-1][1])
                (sr, cr), (sd, cd) = trig.pair("ra"), trig.pair("dec")
                cx.check_eq("randcap (rotated): cos(separation of the returned point from the requested centre) = cos(radius)",
                            cr * cd * vx + sr * cd * vy + sd * vz, inner["rcos"])
        cx.drop_obligations("clips/poles: outside the claim (see assumptions)")
        return
    raise AssertionError(cfg)


def h_samplers(cx, cfg):
    what = cfg[0]
    ld = _mods(cx, False)
    rnd = ld.get("esutil.random")
    rng = RNG(cx)
    if what == "generator":
        _, kind, nn = cfg
        xs = [cx.real("x%d" % i) for i in range(nn)]
        for i in range(nn - 1):
            cx.assume(xs[i] < xs[i + 1])
        ps = [cx.real("p%d" % i) for i in range(nn)]
        if kind == "cumulative":
            for i in range(nn - 1):
                cx.assume(ps[i] < ps[i + 1])
            cx.assume(ps[0] >= 0)
            g = rnd.Generator(symnp.array(ps), x=symnp.array(xs), cumulative=True, rng=rng)
            pcum = [p / ps[-1] for p in ps]
            nodes = xs
        else:
            for p in ps:
                cx.assume(p > 0)
            if kind == "table":
                g = rnd.Generator(symnp.array(ps), x=symnp.array(xs), rng=rng)
            else:
                tab = {symx.term_of(x).sexpr(): p for x, p in zip(xs, ps)}

                def pofx(x):
                    xa = symnp.asarray(x)
                    return symnp.SArr(symnp._map(lambda c: tab[symx.term_of(c).sexpr()], xa.a), xa.dt)
                g = rnd.Generator(_fn(pofx), x=symnp.array(xs), rng=rng)
            cum = []
            acc = 0
            for i in range(nn - 1):
                acc = acc + (xs[i + 1] - xs[i]) * (ps[i] + ps[i + 1]) / 2
                cum.append(acc)
            pcum = [c / cum[-1] for c in cum]
            nodes = xs[1:]
        vals = g.sample(2).tolist()
        us = [SReal(z3.Real("u1")), SReal(z3.Real("u2"))]
        cx.check("sample(n) returns n values", len(vals) == 2)
        m = len(nodes)

        def interp(u):
            def seg(k):
                return nodes[k] + (u - pcum[k]) * (nodes[k + 1] - nodes[k]) / (pcum[k + 1] - pcum[k])
            want = seg(m - 2)
            for k in range(m - 3, -1, -1):
                want = sym_ite(u <= pcum[k + 1], seg(k), want)
            return want
        for u, v in zip(us, vals):
            cx.check_eq("sample = linear interpolation of the grid against the normalised cumulative distribution", v, interp(u))
            for k in range(m):
                cx.check("grid points are returned exactly where u equals their cumulative value", sym_or(u != pcum[k], v == nodes[k]))
            cx.check("stays within the grid for u at or above the first cumulative value", sym_or(u < pcum[0], sym_and(v >= nodes[0], v <= nodes[-1])))
        cx.check("the map is non-decreasing in u", sym_or(us[0] > us[1], vals[0] <= vals[1]))
        s1 = g.sample()
        cx.check("sample() returns a scalar", not isinstance(s1, symnp.SArr))
        return
    if what in ("cholesky", "cholesky_fn"):
        _, npar, n = cfg
        mean = [cx.real("m%d" % i) for i in range(npar)]
        cov = [[None] * npar for _ in range(npar)]
        for i in range(npar):
            for j in range(i, npar):
                cov[i][j] = cov[j][i] = cx.real("c%d%d" % (i, j))
        L = [[0] * npar for _ in range(npar)]
        for i in range(npar):
            for j in range(i + 1):
                L[i][j] = cx.real("l%d%d" % (i, j))
            cx.assume(L[i][i] > 0)
        for i in range(npar):
            for j in range(npar):
                cx.assume(sym_sum([L[i][k] * L[j][k] for k in range(npar)]) == cov[i][j])
        zs = []

        def dist(k):
            out = [cx.real("z%d" % (len(zs) + i)) for i in range(int(k))]
            zs.extend(out)
            return symnp.array(out, dtype="f8")

        class LA(object):
            @staticmethod
            def cholesky(c):
                return symnp.array(L, dtype="f8")
        symnp.linalg.cholesky = LA.cholesky
        covA, meanA = symnp.array(cov, dtype="f8"), symnp.array(mean, dtype="f8")
        if what == "cholesky":
            s = rnd.CholeskySampler(meanA, covA, dist=dist)
            out = s.sample(n)
        else:
            out = rnd.cholesky_sample(covA, n, means=meanA, dist=dist)
        nn = n if n else 1
        cx.check("one standard deviate per parameter and sample", len(zs) == npar * nn)
        rows = out.tolist()
        if n is None and what == "cholesky":
            rows = [rows]
        cx.check("layout is (n, npar)", len(rows) == nn and all(len(r) == npar for r in rows))
        for k in range(min(nn, len(rows))):
            for i in range(npar):
                want = mean[i] + sym_sum([L[i][j] * zs[j * nn + k] for j in range(npar)])
                cx.check_eq("sample = mean + lower-triangular factor times the deviates drawn", rows[k][i], want)
        return
    if what == "cholesky_bad":
        try:
            rnd.CholeskySampler(symnp.array([1.0, 2.0, 3.0]), symnp.array([[1.0, 0.0], [0.0, 1.0]]))
        except ValueError:
            cx.check("inconsistent mean/cov shapes rejected", True)
            return
        cx.fail("CholeskySampler accepted inconsistent shapes")
        return
    if what == "random_indices":
        imax = cx.int("imax", 1, 4)
        nrand = cx.choice("nrand", 3) + 1
        uq = [True, False, 0, 1, None][cx.choice("unique_spelling", 5)]
        import numpy as rnp
        if uq is None:
            uq = rnp.bool_(False)
        try:
            r = rnd.random_indices(imax, nrand, unique=uq, rng=rng)
        except ValueError:
            cx.check("random_indices raises only when more unique indices than the range are requested", sym_and(bool(uq), imax < nrand))
            return
        ch = [c for c in rng.calls if c[0] == "choice"]
        cx.check("random_indices draws once", len(ch) == 1)
        cx.check("sampling with replacement exactly when unique is false", ch[0][3] == (not bool(uq)))
        vals = r.tolist()
        cx.check("requested number of indices", len(vals) == nrand)
        for v in vals:
            cx.check("indices within [0, imax)", sym_and(v >= 0, v < imax))
        if bool(uq):
            for i in range(len(vals)):
                for j in range(i + 1, len(vals)):
                    cx.check("unique indices are pairwise distinct", vals[i] != vals[j])
        return
    raise AssertionError(cfg)


def _fn(f):
    def g(x):
        return f(x)
    return g


# ----------------------------------------------------------------------------

class _RecRNG(object):
    """concrete recording generator for replays: plays back the model's deviates"""

    def __init__(self, vals):
        self.vals = list(vals)
        self.i = 0
        self.calls = []

    def _next(self, lo, hi):
        import numpy as np
        v = self.vals[self.i] if self.i < len(self.vals) else 0.5 * (lo + hi)
        self.i += 1
        return float(min(max(v, lo), hi))

    def uniform(self, low=0.0, high=1.0, size=None):
        import numpy as np
        if size is None:
            return self._next(low, high)
        return np.array([self._next(low, high) for _ in range(size)])

    def random(self, size=None):
        import numpy as np
        if size is None:
            return min(self._next(0.0, 1.0), 1 - 1e-12)
        return np.array([min(self._next(0.0, 1.0), 1 - 1e-12) for _ in range(size)])

    def choice(self, a, size=None, replace=True, **kw):
        import numpy as np
        self.calls.append((a, size, replace))
        return np.random.default_rng(1).choice(a, size=size, replace=replace)


def _sep(l1, b1, l2, b2):
    import numpy as np
    r = np.longdouble
    l1, b1, l2, b2 = [np.deg2rad(r(v)) for v in (l1, b1, l2, b2)]
    dl = l2 - l1
    num = np.hypot(np.cos(b2) * np.sin(dl), np.cos(b1) * np.sin(b2) - np.sin(b1) * np.cos(b2) * np.cos(dl))
    den = np.sin(b1) * np.sin(b2) + np.cos(b1) * np.cos(b2) * np.cos(dl)
    return float(np.rad2deg(np.arctan2(num, den)))


def replay(cand):
    import numpy as np
    import warnings
    warnings.simplefilter("ignore")
    import esutil.coords as co
    import esutil.random as rnd
    from vf.symx import model_float
    cfg = cand["cfg"]
    mdl = cand["model"] or {}
    what = cfg[0]
    no = {"reproduced": False, "what": "agrees", "key": None}

    def mf(name, d=0.0):
        v = mdl.get(name)
        return model_float(v) if v is not None else d
    if what == "randsphere_xyz":
        boxes = [([mf("ralo", 10.0), mf("rahi", 20.0)], [max(-90.0, min(90.0, trig.model_angle(mdl, "dlo"))), max(-90.0, min(90.0, trig.model_angle(mdl, "dhi")))])]
        boxes += [([0.0, 360.0], [18.0, 25.0]), ([100.0, 140.0], [-25.0, 15.0]), ([350.0, 360.0], [60.0, 90.0]), ([0.0, 5.0], [-90.0, -85.0])]
        for rr, dr in boxes:
            if rr[0] > rr[1] or dr[0] > dr[1]:
                continue
            x, y, z = co.randsphere(400, ra_range=rr, dec_range=dr, system="xyz", rng=np.random.RandomState(3))
            lat = np.degrees(np.arctan2(z, np.hypot(x, y)))
            lon = np.degrees(np.arctan2(y, x)) % 360.0
            if np.abs(x * x + y * y + z * z - 1).max() > 1e-12 or lat.min() < dr[0] - 1e-6 or lat.max() > dr[1] + 1e-6 or \
                    (rr[1] - rr[0] < 359.9 and (((lon - rr[0]) % 360.0).max() > (rr[1] - rr[0]) + 1e-6)):
                return {"reproduced": True, "key": "randsphere:xyz-box", "what": "randsphere(400, ra_range=%r, dec_range=%r, system='xyz'): latitudes in [%r, %r]" % (rr, dr, lat.min(), lat.max())}
        return no
    if what in ("randsphere", "randsphere_default", "randsphere_bad"):
        if what == "randsphere_bad":
            lo, hi = mf("lo"), mf("hi")
            bad = lo < 0 or hi > 360
            try:
                co.randsphere(1, ra_range=[lo, hi], rng=np.random.RandomState(1))
            except Exception:
                return no if bad else {"reproduced": True, "key": "randsphere:range", "what": "randsphere(ra_range=[%r,%r]) rejected" % (lo, hi)}
            return no if not bad else {"reproduced": True, "key": "randsphere:range", "what": "randsphere(ra_range=[%r,%r]) accepted" % (lo, hi)}
        boxes = [([mf("ralo", 10.0), mf("rahi", 20.0)], [max(-90.0, min(90.0, trig.model_angle(mdl, "dlo"))), max(-90.0, min(90.0, trig.model_angle(mdl, "dhi")))])]
        boxes += [([0.0, 360.0], [-90.0, 90.0]), ([100.0, 100.0], [-30.0, -30.0]), ([350.0, 360.0], [80.0, 90.0]), ([0.0, 5.0], [-90.0, -85.0])]
        for rr, dr in boxes:
            if rr[0] > rr[1] or dr[0] > dr[1]:
                continue
            for seed in (1, 2):
                ra, dec = co.randsphere(500, ra_range=rr, dec_range=dr, rng=np.random.RandomState(seed))
                if len(ra) != 500 or ra.min() < rr[0] - 1e-9 or ra.max() > rr[1] + 1e-9 or dec.min() < dr[0] - 1e-6 or dec.max() > dr[1] + 1e-6:
                    return {"reproduced": True, "key": "randsphere:box", "what": "randsphere(500, ra_range=%r, dec_range=%r): ra in [%r,%r], dec in [%r,%r]"
                            % (rr, dr, ra.min(), ra.max(), dec.min(), dec.max())}
        return no
    if what == "randcap":
        _, get_radius, dorot = cfg
        ra0 = trig.model_angle(mdl, "ra") % 360
        dec0 = max(-90.0, min(90.0, trig.model_angle(mdl, "dec")))
        rad0 = min(max(mf("rad", 1.0), 1e-3), 180.0)
        centres = [(ra0, dec0, rad0), (200.0, 10.0, 3.0), (10.0, 89.95, 0.5), (350.0, -89.99, 2.0), (0.0, 45.0, 120.0)]
        for ra, dec, rad in centres:
            for seed in (3, 4):
                try:
                    res = co.randcap(300, ra, dec, rad, get_radius=True, dorot=dorot, rng=np.random.RandomState(seed))
                except Exception as e:
                    return {"reproduced": True, "key": "randcap:raises", "what": "randcap(300, %r, %r, %r, dorot=%s) raised %r" % (ra, dec, rad, dorot, e)}
                rra, rdec, rr = res
                if len(rra) != 300 or np.any(~np.isfinite(rra)) or rra.min() < 0 or rra.max() > 360 or rdec.min() < -90 or rdec.max() > 90:
                    return {"reproduced": True, "key": "randcap:range", "what": "randcap(%r, %r, %r, dorot=%s): outputs out of range / wrong count" % (ra, dec, rad, dorot)}
                seps = np.array([_sep(ra, dec, a, b) for a, b in zip(rra, rdec)])
                tol = 1e-6 + 1e-6 * rad
                if seps.max() > rad + tol:
                    return {"reproduced": True, "key": "randcap:outside:%s" % ("rot" if (dorot or abs(dec) >= 89.9) else "direct"),
                            "what": "randcap(%r, %r, %r, dorot=%s): a point lies %r degrees from the centre" % (ra, dec, rad, dorot, seps.max())}
                # the supplied generator is the only source of randomness: equal seeds give equal points
                res2 = co.randcap(300, ra, dec, rad, get_radius=True, dorot=dorot, rng=np.random.RandomState(seed))
                if not (np.array_equal(res2[0], rra) and np.array_equal(res2[1], rdec)):
                    return {"reproduced": True, "key": "randcap:rng-ignored", "what": "randcap(300, %r, %r, %r, dorot=%s) with two equally seeded generators returns different points: the supplied rng is not the source of the deviates" % (ra, dec, rad, dorot)}
                if np.max(np.abs(seps - rr)) > tol + 1e-4 * rad:
                    return {"reproduced": True, "key": "randcap:radius:%s" % ("rot" if (dorot or abs(dec) >= 89.9) else "direct"),
                            "what": "randcap(%r, %r, %r, get_radius=True, dorot=%s): returned radii differ from the true separations by up to %r degrees (e.g. %r vs %r)"
                                    % (ra, dec, rad, dorot, float(np.max(np.abs(seps - rr))), float(rr[0]), float(seps[0]))}
        return no
    if what == "generator":
        _, kind, nn = cfg
        xs = np.array([mf("x%d" % i, float(i)) for i in range(nn)])
        ps = np.array([mf("p%d" % i, 1.0 + i) for i in range(nn)])
        if not (np.diff(xs) > 0).all():
            xs = np.cumsum(np.abs(np.diff(np.r_[0.0, xs])) + 0.1)
        us = np.array([min(max(mf("u1", 0.3), 0.0), 1.0), min(max(mf("u2", 0.7), 0.0), 1.0), 0.0, 1.0, 0.5])
        if kind == "cumulative":
            ps = np.cumsum(np.abs(ps) + 0.1)
            g = rnd.Generator(ps, x=xs, cumulative=True, rng=_RecRNG(us))
            pcum, nodes = ps / ps[-1], xs
        else:
            ps = np.abs(ps) + 0.01
            if kind == "table":
                g = rnd.Generator(ps, x=xs, rng=_RecRNG(us))
            else:
                g = rnd.Generator(lambda t: np.interp(t, xs, ps), x=xs, rng=_RecRNG(us))
            cum = np.cumsum(np.diff(xs) * (ps[:-1] + ps[1:]) / 2)
            pcum, nodes = cum / cum[-1], xs[1:]
        vals = g.sample(len(us))

        def ref(u):
            k = int(np.clip(np.searchsorted(pcum, u) - 1, 0, len(pcum) - 2))
            return nodes[k] + (u - pcum[k]) * (nodes[k + 1] - nodes[k]) / (pcum[k + 1] - pcum[k])
        want = np.array([ref(u) for u in us])
        if not np.allclose(vals, want, rtol=1e-9, atol=1e-12):
            return {"reproduced": True, "key": "generator:%s" % kind, "what": "Generator(%s, x=%r, p=%r).sample with u=%r -> %r, inverse-cumulative interpolation gives %r"
                    % (kind, xs.tolist(), ps.tolist(), us.tolist(), vals.tolist(), want.tolist())}
        return no
    if what in ("cholesky", "cholesky_fn", "cholesky_bad"):
        if what == "cholesky_bad":
            try:
                rnd.CholeskySampler(np.array([1.0, 2.0, 3.0]), np.eye(2))
            except ValueError:
                return no
            return {"reproduced": True, "key": "cholesky:shapes", "what": "CholeskySampler accepted inconsistent shapes"}
        _, npar, n = cfg
        A0 = np.array([[1.0, 0.3, 0.2], [0.3, 2.0, -0.4], [0.2, -0.4, 1.5]])[:npar, :npar]
        mean = np.array([1.0, -2.0, 0.5])[:npar]
        # covariances of every scale: the statement holds for all positive-definite matrices, whatever their units
        for scale in (1.0, 1e-9, 1e-12, 1e6, 3e-8):
            A = A0 * scale
            drawn = []

            def dist(k):
                z = np.arange(1, k + 1, dtype=float) * 0.37 - 0.9
                drawn.append(z)
                return z.copy()
            nn = n if n else 1
            if what == "cholesky":
                out = rnd.CholeskySampler(mean, A, dist=dist).sample(n)
            else:
                out = rnd.cholesky_sample(A, n, means=mean, dist=dist)
            L = np.linalg.cholesky(A)
            z = drawn[0].reshape(npar, nn)
            want = (L @ z).T + mean
            if n is None and what == "cholesky":
                want = want[0]
            if np.shape(out) != want.shape or not np.allclose(np.asarray(out) - mean, want - mean, rtol=1e-10, atol=0):
                return {"reproduced": True, "key": "cholesky", "what": "%s(npar=%d, n=%r, covariance scale %g) -> %r, expected mean + L z = %r" % (what, npar, n, scale, np.asarray(out).tolist(), want.tolist())}
        return no
    if what == "random_indices":
        imax = int(mdl.get("imax", 3))
        nrand = int(mdl.get("nrand", 0)) + 1
        uq = [True, False, 0, 1, np.bool_(False)][int(mdl.get("unique_spelling", 0))]
        rec = _RecRNG([])
        try:
            r = rnd.random_indices(imax, nrand, unique=uq, rng=rec)
        except ValueError as e:
            if bool(uq) and imax < nrand:
                return no
            return {"reproduced": True, "key": "random_indices:raises", "what": "random_indices(%d, %d, unique=%r) raised %r" % (imax, nrand, uq, e)}
        if not rec.calls or rec.calls[0][2] != (not bool(uq)):
            return {"reproduced": True, "key": "random_indices:replace", "what": "random_indices(%d, %d, unique=%r) sampled with replace=%r" % (imax, nrand, uq, rec.calls[0][2] if rec.calls else None)}
        r = np.atleast_1d(r)
        if len(r) != nrand or r.min() < 0 or r.max() >= imax or (bool(uq) and len(set(r.tolist())) != len(r)):
            return {"reproduced": True, "key": "random_indices:values", "what": "random_indices(%d, %d, unique=%r) -> %r" % (imax, nrand, uq, r.tolist())}
        return no
    raise AssertionError(what)


MANIFEST_ENTRY = {
    "engine": "symx+trig",
    "technique": "bounded symbolic execution (symx/z3) of coords.randsphere/randcap and random.Generator/CholeskySampler/cholesky_sample/random_indices with the random source replaced by a stub returning solver variables under the generator's contract; box membership via the monotone arccos rule, the cap by the spherical law of cosines as a polynomial identity over algebraised angles (vf.trig/vf.poly), radius units by the angle-unit tracking, the samplers against the inverse-cumulative interpolation and mean + L z written out; counterexamples replayed with a playback generator on the real library",
    "text": "For every box inside [0,360]x[-90,90] and every deviate the drawn point lies in the box; for every cap centre, radius and deviates the direct branch satisfies cos(separation) = cos(sqrt(u) rad) on the unclipped cosines, returns angles in degrees within range and, with get_radius, sqrt(u) rad in degrees on both the direct and the rotated branch; the cumulative sampler maps u to the linear interpolation of the grid against the normalised trapezoid cumulative (exact at nodes, non-decreasing, inside the grid), the Cholesky samplers return mean + L z in (n, npar) layout, and random_indices samples with replacement exactly when unique is false.",
    "note": "one point per call; tables of 3..4/5 nodes; covariance <= 2x2/3x3; seeds/reproducibility and distributions are NumPy's; clip no-ops and exact poles outside",
}
