"""C06 -- match is sound and complete; unique / rem_dup keep one index per value."""
import itertools

from vf import symx, symnp, loader
from vf.symx import sym_and, sym_or, sym_not, sym_ite, sym_sum
import z3

PROPERTY = "C06"
LEVEL = "model_checking"
NEEDS_BUILD = False
FUNCTIONS = [("esutil/numpy_util.py", n) for n in ("match", "match_multi", "unique", "rem_dup")]
ASSUMPTIONS = [
    "cells are unbounded mathematical integers or reals (no NaN, no mixed-width integer promotion)",
    "strings are abstracted to their order/equality key (exact for code that only compares and sorts)",
    "np.argsort / np.unique / np.searchsorted / np.where behave as modelled by vf.symnp (conformance pass)",
    "array sizes bounded as listed; values unbounded",
]
BOUNDS = {"quick": {"match": "N1<=3, N2<=2 (+3x3 ints)", "unique/rem_dup": "N<=4"},
          "thorough": {"match": "N1<=4, N2<=3", "unique/rem_dup": "N<=5"}}
EXPLORE_OPTS = {"max_paths": 200000}
TIER_OPTS = {"quick": {"time_budget": 300}, "thorough": {"time_budget": 2400}}


def configs(tier):
    out = []
    if tier == "quick":
        sizes = [(1, 1), (1, 2), (2, 1), (2, 2), (3, 1), (3, 2)]
        usz = (1, 2, 3, 4)
    else:
        sizes = [(a, b) for a in (1, 2, 3, 4) for b in (1, 2, 3)]
        usz = (1, 2, 3, 4, 5)
    for kind in ("int", "real", "str"):
        for n1, n2 in sizes:
            if tier == "thorough" and kind != "int" and (n1, n2) == (4, 3):
                continue
            for presorted in (False, True):
                out.append(("match", kind, n1, n2, presorted))
    if tier == "quick":
        out.append(("match", "int", 3, 3, False))
    # mixed integer widths / signedness (cells bounded to their dtype's range; NumPy's
    # value-based promotion for 1- and 2-byte integers is exact)
    for d1, d2 in (("u1", "i1"), ("i1", "u1"), ("u2", "i1")):
        for n1, n2 in ((1, 1), (2, 1), (2, 2)) if tier == "quick" else ((1, 1), (2, 1), (2, 2), (3, 2)):
            out.append(("match", d1 + ":" + d2, n1, n2, False))
    for n in usz[1:]:
        out.append(("rem_dup", "int:u1", n, 0, False))
    out.append(("match_scalar", "int", 1, 1, False))
    out.append(("match_multi", "int", 2, 2, False))
    for kind in ("int", "real"):
        for n in usz:
            out.append(("unique", kind, n, 0, False))
            out.append(("unique", kind, n, 0, True))
            out.append(("rem_dup", kind, n, 0, False))
    return out


def _dt_cells(cx, dt, name, n):
    import numpy as np
    info = np.iinfo(dt)
    return [cx.int("%s%d" % (name, i), int(info.min), int(info.max)) for i in range(n)]


def _cells(cx, kind, name, n):
    if kind == "int":
        return [cx.int("%s%d" % (name, i)) for i in range(n)]
    if kind == "real":
        return [cx.real("%s%d" % (name, i)) for i in range(n)]
    return [symnp.SStrKey(cx.int("%s%d" % (name, i))) for i in range(n)]


def _mod():
    return loader.Loader().get("esutil.numpy_util")


def _eq(a, b):
    return a == b


def harness(cx, cfg):
    what, kind, n1, n2, flag = cfg
    m = _mod()
    if what in ("match", "match_scalar", "match_multi"):
        if ":" in kind:
            d1, d2 = kind.split(":")
            a = _dt_cells(cx, d1, "a", n1)
            b = _dt_cells(cx, d2, "b", n2)
        else:
            a = _cells(cx, kind, "a", n1)
            b = _cells(cx, kind, "b", n2)
        distinct = sym_and(*[a[i] != a[j] for i in range(n1) for j in range(i + 1, n1)]) if n1 > 1 else True
        if flag:   # presorted: precondition is a sorted first array (repeats must still be rejected)
            for i in range(n1 - 1):
                cx.assume(a[i] <= a[i + 1])
        if what == "match_scalar":
            A, B = a[0], b[0]
        elif ":" in kind:
            A, B = symnp.array(a, dtype=d1), symnp.array(b, dtype=d2)
        else:
            A, B = symnp.array(a), symnp.array(b)
        try:
            if what == "match_multi":
                i1, i2 = m.match_multi(A, B)
            else:
                i1, i2 = m.match(A, B, presorted=flag)
        except ValueError as e:
            if "must be unique" in str(e):
                cx.check("first array rejected only when it has repeated values", sym_not(distinct))
                return
            raise
        cx.check("a first array with repeated values is rejected", distinct)
        cx.check("index arrays have equal length", i1.size == i2.size)
        p1 = [int(v) for v in i1.tolist()]
        p2 = [int(v) for v in i2.tolist()]
        for u, v in zip(p1, p2):
            ok = 0 <= u < n1 and 0 <= v < n2
            cx.check("indices in range", ok)
            if ok:
                cx.check("matched elements are equal", a[u] == b[v])
        cx.check("pairs ordered by position in the second array, each once",
                 all(p2[k] < p2[k + 1] for k in range(len(p2) - 1)))
        for j in range(n2):
            if j not in p2:
                cx.check("every element of the second array whose value occurs in the first is reported",
                         sym_and(*[a[i] != b[j] for i in range(n1)]))
        return
    if what == "unique":
        a = _cells(cx, kind, "a", n1)
        A = symnp.array(a)
        r = m.unique(A, values=flag)
        if flag:
            vals = r.tolist()
            for i in range(len(vals)):
                for j in range(i + 1, len(vals)):
                    cx.check("unique values are pairwise distinct", vals[i] != vals[j])
            for i in range(n1):
                cx.check("every value of the input is among the unique values",
                         sym_or(*[a[i] == v for v in vals]))
            for v in vals:
                cx.check("every unique value occurs in the input", sym_or(*[a[i] == v for i in range(n1)]))
            return
        idx = [int(v) for v in r.tolist()]
        cx.check("indices in range", all(0 <= k < n1 for k in idx))
        if not all(0 <= k < n1 for k in idx):
            return
        for i in range(len(idx)):
            for j in range(i + 1, len(idx)):
                cx.check("one index per distinct value (no value twice)", a[idx[i]] != a[idx[j]])
        for i in range(n1):
            cx.check("one index per distinct value (no value missing)",
                     sym_or(*[a[i] == a[k] for k in idx]) if idx else False)
        return
    if what == "rem_dup":
        fdt = None
        if ":" in kind:
            kind, fdt = kind.split(":")
        a = _cells(cx, kind, "a", n1)
        if fdt:
            f = _dt_cells(cx, fdt, "f", n1)
            r = m.rem_dup(symnp.array(a), symnp.array(f, dtype=fdt))
        else:
            f = [cx.int("f%d" % i) for i in range(n1)]
            r = m.rem_dup(symnp.array(a), symnp.array(f))
        if isinstance(r, int):
            idx = [r]
        else:
            idx = [int(v) for v in r.tolist()]
        ok = all(0 <= k < n1 for k in idx)
        cx.check("indices in range", ok)
        if not ok:
            return
        for i in range(len(idx)):
            for j in range(i + 1, len(idx)):
                cx.check("one index per distinct value (no value twice)", a[idx[i]] != a[idx[j]])
        for i in range(n1):
            cx.check("one index per distinct value (no value missing)", sym_or(*[a[i] == a[k] for k in idx]))
        for k in idx:
            for i in range(n1):
                cx.check("kept index carries the largest flag among equal values",
                         sym_or(a[i] != a[k], f[i] <= f[k]))
        cx.check("indices ascending", all(idx[k] < idx[k + 1] for k in range(len(idx) - 1)))
        return
    raise AssertionError(what)


# ----------------------------------------------------------------------------

def conformance():
    import numpy as np
    import importlib
    import sys
    sys.path.insert(0, loader.repo())
    try:
        real = importlib.import_module("esutil.numpy_util")
    finally:
        sys.path.pop(0)
    m = _mod()
    rng = np.random.RandomState(3)
    n = 0
    for _ in range(60):
        n1, n2 = rng.randint(1, 6), rng.randint(1, 6)
        a = rng.permutation(12)[:n1]
        b = rng.randint(-2, 14, n2)
        for pres in (False, True):
            aa = np.sort(a) if pres else a
            w1, w2 = real.match(aa, b, presorted=pres)
            g1, g2 = m.match(symnp.array(aa.tolist()), symnp.array(b.tolist()), presorted=pres)
            assert g1.tolist() == w1.tolist() and g2.tolist() == w2.tolist(), (aa, b, pres, g1, w1, g2, w2)
            n += 1
        arr = rng.randint(0, 4, n1)
        fl = rng.randint(0, 5, n1)
        # tie order of the default (unstable) sort is unspecified: compare what the
        # indices select, not the indices
        gu = m.unique(symnp.array(arr.tolist())).tolist()
        assert sorted(arr[gu].tolist()) == sorted(arr[real.unique(arr)].tolist()), arr
        w = real.rem_dup(arr, fl)
        g = m.rem_dup(symnp.array(arr.tolist()), symnp.array(fl.tolist()))
        gi = [g] if isinstance(g, int) else g.tolist()
        wi = [w] if isinstance(w, int) else w.tolist()
        assert list(zip(arr[gi].tolist(), fl[gi].tolist())) == list(zip(arr[wi].tolist(), fl[wi].tolist())), (arr, fl)
        n += 2
    sa = np.array(["b", "a", "dd"])
    sb = np.array(["dd", "zz", "a", "a"])
    w1, w2 = real.match(sa, sb)
    keys = {"a": 0, "b": 1, "dd": 2, "zz": 3}
    g1, g2 = m.match(symnp.array([symnp.SStrKey(keys[s]) for s in sa.tolist()]),
                     symnp.array([symnp.SStrKey(keys[s]) for s in sb.tolist()]))
    assert g1.tolist() == w1.tolist() and g2.tolist() == w2.tolist()
    return n + 1


def replay(cand):
    import numpy as np
    import esutil.numpy_util as nu
    from vf.symx import model_float
    what, kind, n1, n2, flag = cand["cfg"]
    mdl = cand["model"]

    fdt = None
    dts = {}
    if ":" in kind and what == "rem_dup":
        kind, fdt = kind.split(":")
    elif ":" in kind:
        dts["a"], dts["b"] = kind.split(":")
        kind = "int"

    def arr(name, n):
        vals = [mdl["%s%d" % (name, i)] for i in range(n)]
        if name in dts:
            return np.array([int(v) for v in vals], dtype=dts[name])
        if kind == "real":
            return np.array([model_float(v) for v in vals], dtype="f8")
        if kind == "str":
            # order-preserving concrete strings
            return np.array(["s%06d" % (int(v) + 500000) for v in vals])
        return np.array([int(v) for v in vals], dtype="i8")
    if what in ("match", "match_scalar", "match_multi"):
        a, b = arr("a", n1), arr("b", n2)
        if kind in ("int", "str") and what == "match" and kind == "str":
            if any(abs(int(mdl["a%d" % i])) > 400000 for i in range(n1)) or any(abs(int(mdl["b%d" % i])) > 400000 for i in range(n2)):
                return {"reproduced": False, "what": "string key out of the replayable range", "key": None}
        distinct = len(set(a.tolist())) == len(a)
        call = "%s(%r, %r, presorted=%r)" % (what, a.tolist(), b.tolist(), flag)
        try:
            if what == "match_scalar":
                i1, i2 = nu.match(a[0], b[0])
            elif what == "match_multi":
                i1, i2 = nu.match_multi(a, b)
            else:
                i1, i2 = nu.match(a, b, presorted=flag)
        except ValueError as e:
            if not distinct and "unique" in str(e):
                return {"reproduced": False, "what": "legitimate rejection", "key": None}
            return {"reproduced": True, "key": "match-raises", "what": "%s raised ValueError: %s" % (call, e)}
        except Exception as e:
            return {"reproduced": True, "key": "match-raises", "what": "%s raised %s: %s" % (call, type(e).__name__, e)}
        if not distinct:
            return {"reproduced": True, "key": "match-accepts-duplicates", "what": "%s accepted a first array with repeats" % call}
        want = [(a.tolist().index(v), j) for j, v in enumerate(b.tolist()) if v in a.tolist()]
        got = list(zip(i1.tolist(), i2.tolist()))
        if got != want:
            return {"reproduced": True, "key": "match-wrong-pairs", "what": "%s -> %r, expected %r" % (call, got, want)}
        return {"reproduced": False, "what": "agrees", "key": None}
    a = arr("a", n1)
    if what == "unique":
        r = nu.unique(a, values=flag)
        vals = sorted(r.tolist()) if flag else sorted(a[r].tolist())
        if vals != sorted(set(a.tolist())) or (not flag and len(set(r.tolist())) != len(r)):
            return {"reproduced": True, "key": "unique-wrong",
                    "what": "unique(%r, values=%r) -> %r: values %r, expected one per distinct value %r"
                            % (a.tolist(), flag, r.tolist(), vals, sorted(set(a.tolist())))}
        return {"reproduced": False, "what": "agrees", "key": None}
    if what == "rem_dup":
        import itertools
        f0 = np.array([int(mdl["f%d" % i]) for i in range(n1)], dtype=fdt or "i8")
        # the order in which NumPy's (unstable) sort visits equal values is not the model's to choose: the
        # same multiset of (value, flag) pairs is tried in every arrangement
        for perm in itertools.islice(itertools.permutations(range(n1)), 120):
            ap, f = a[list(perm)], f0[list(perm)]
            r = nu.rem_dup(ap, f)
            idx = [r] if isinstance(r, int) else r.tolist()
            good = sorted(ap[idx].tolist()) == sorted(set(ap.tolist())) and idx == sorted(idx)
            for k in idx:
                if f[k] != f[ap == ap[k]].max():
                    good = False
            if not good:
                return {"reproduced": True, "key": "rem_dup-wrong",
                        "what": "rem_dup(%r, %r) -> %r" % (ap.tolist(), f.tolist(), idx)}
        return {"reproduced": False, "what": "agrees", "key": None}
    raise AssertionError(what)


MANIFEST_ENTRY = {
    "engine": "symx",
    "technique": "bounded symbolic execution of numpy_util.match/unique/rem_dup (symx/z3) with unbounded Int/Real cells and order-abstracted strings; soundness, completeness, order and rejection asserted per path; counterexamples replayed on the real library",
    "text": "For all arrays up to the size bound, with every cell an unconstrained solver variable, every feasible path of the real source is shown to return exactly the definitional pair list (or to reject exactly the non-unique first arrays), and unique/rem_dup exactly one index per distinct value (largest flag). Exhaustive in values and orderings inside the bound, which is what sampling cannot give.",
    "note": "sizes N1<=3/4, N2<=2/3, N<=4/5; NaN and mixed-width integer promotion outside; NumPy sort/search primitives as modelled by vf.symnp (conformance pass)",
}
