"""C15 -- non-in-place calls never modify the arrays passed to them (write monitor).

Every buffer reachable from a harness argument is frozen; a store into it -- directly,
through a view or alias (basic slicing, atleast_1d, asarray without conversion, field
access, view), through out=, an augmented assignment, byteswap(True), a dtype
assignment, or from interpreted C through a pointer into it -- raises on that path.
Which internal conversion path is taken depends on the argument's dtype class, byte
order, layout and dimensionality and on the options; those are forked choices.
"""
import math

from vf import symx, symnp, symrec, loader, recmodel, trig
from vf.symx import FrozenWrite, is_sym
import numpy as rnp

PROPERTY = "C15"
LEVEL = "model_checking"
NEEDS_BUILD = True
FUNCTIONS = ([("esutil/recfile/Util.py", n) for n in ("Recfile.write", "to_native_inplace")] +
             [("esutil/sfile.py", n) for n in ("SFile.write", "write")] +
             [("esutil/numpy_util.py", n) for n in ("match", "unique", "rem_dup", "to_native", "to_big_endian", "to_little_endian", "byteswap",
                                                     "extract_fields", "remove_fields", "add_fields", "reorder_fields", "combine_fields", "copy_fields", "split_fields", "compare_arrays", "splitarray")] +
             [("esutil/stat/util.py", n) for n in ("histogram", "Binner.__init__", "Binner.dohist", "Binner.calc_stats", "wmom", "wmedian", "sigma_clip", "interplin", "get_stats")] +
             [("esutil/coords.py", n) for n in ("euler", "eq2xyz", "xyz2eq", "sphdist", "gcirc", "eq2sdss", "sdss2eq", "rotate", "shiftlon", "atbound")] +
             [("esutil/cosmology/cosmology.py", n) for n in ("Cosmo.Dc", "Cosmo.Da", "Cosmo.sigmacritinv", "Cosmo.dV", "_as_c_order")] +
             [("esutil/cosmology/cosmolib_pywrap.c", "PyCosmoObject_*_vec*")] +
             [("esutil/htm/htm.py", n) for n in ("HTM.lookup_id", "HTM.match", "HTM.bincount", "Matcher.__init__", "Matcher.match")])
ASSUMPTIONS = [
    "array storage, views and copies follow vf.symnp/vf.symrec (validated against NumPy by the conformance passes of C06/C07/C16); a store into a frozen buffer is the violation",
    "argument variants: dtype class f8/f4/i8, byte order native/swapped, layout contiguous / strided view of a larger buffer, 0-d/1-d; cells symbolic",
    "compiled code: cosmolib wrappers and the histogram engine are interpreted (stores through pointers are monitored); records.cpp and htmc.cc are behind contracts that do not write into their inputs -- that those C++ files keep to this is not decided here",
    "WCS conversions are covered under C10",
]
BOUNDS = {"quick": {"array length": "2 (strided: view of 4)", "tables": "2 rows", "field operations / byte-order converters": "the configurations of C07 / C16 at the same tier (tables of shape (), (2,), (2,2); 1..2 fields)"}, "thorough": {"array length": "2..3", "tables": "2..3 rows"}}
EXPLORE_OPTS = {"max_paths": 6000, "query_timeout_ms": 5000, "feas_timeout_ms": 1500}
TIER_OPTS = {"quick": {"time_budget": 200}, "thorough": {"time_budget": 1200}}

VARIANTS = [("f8", "=", "contig", 1), ("f8", "=", "strided", 1), ("f8", ">", "contig", 1), ("f4", "=", "contig", 1), ("i8", "=", "contig", 1), ("f8", "=", "contig", 0)]


def configs(tier):
    out = []
    for delim in (None, ","):
        for order in ("<", ">"):
            for how in ("sfile.write", "SFile.write", "Recfile.write"):
                out.append(("recwrite", delim, order, how))
    for fn in ("match", "unique", "rem_dup", "splitarray"):
        for v in range(len(VARIANTS)):
            out.append(("numpy_util", fn, v))
    for fn in ("histogram", "histogram_weights", "binner_xy", "wmom", "wmedian", "sigma_clip", "interplin", "get_stats"):
        for v in (0, 1, 2, 3, 5):
            out.append(("stat", fn, v))
    for fn in ("euler", "eq2xyz_deg", "eq2xyz_rad_stomp", "xyz2eq", "sphdist", "gcirc", "eq2sdss", "sdss2eq", "rotate", "shiftlon"):
        for v in (0, 1, 2, 3):
            out.append(("coords", fn, v))
    for fn in ("Dc", "Da", "sigmacritinv", "dV"):
        for v in (0, 1, 2, 3, 4):
            out.append(("cosmo", fn, v))
    for fn in ("lookup_id", "match", "bincount", "bincount_ids", "Matcher"):
        for v in (0, 1, 2, 4):
            out.append(("htm", fn, v))
    # field operations and byte-order converters with inplace off: the harnesses of C07 / C16 are re-run
    # with every input frozen and only the write monitor armed (their own oracles are decided there)
    from props import C07, C16
    for c in C07.configs(tier):
        if c[0] != "combine_empty":
            out.append(("fieldops", c))
    for c in C16.configs(tier):
        if c[0] != "descr":
            out.append(("byteorder", c))
    # the C++ text writer of records.cpp (string fields) reading the caller's buffer through mData
    out.append(("cxx_textwrite", 1))
    if tier != "quick":
        out.append(("cxx_textwrite", 2))
    return out


def _arr(cx, name, variant, n=2, lo=None, hi=None, kind=None, angle=False):
    """a frozen input array in the given variant; returns (argument, label)"""
    dt, order, layout, nd = VARIANTS[variant]
    if kind is not None:
        dt = kind
    rdt = rnp.dtype(dt).newbyteorder(order if rnp.dtype(dt).itemsize > 1 else "|")
    count = n if layout == "contig" else 2 * n
    cells = []
    for i in range(count):
        if angle:
            c = trig.angle("%s%d" % (name, i), lo, hi)
        elif rdt.kind == "f":
            c = cx.real("%s%d" % (name, i), lo, hi)
        else:
            c = cx.int("%s%d" % (name, i), lo, hi)
        cells.append(c)
    base = symnp.array(cells, dtype=rdt.newbyteorder("=") if rdt.itemsize > 1 else rdt)
    a = symnp.SArr(base.a, rdt)
    if a.swapped:
        a = symnp.SArr(symnp._map(symx.bswap, a.a), rdt)
    a.a.flags.writeable = False
    a.label = name
    arg = a
    if layout == "strided":
        arg = a[::2]
        arg.label = name
    if nd == 0:
        arg = arg[0:1].reshape(())
        arg.label = name
    return arg, [cells[i] for i in (range(0, count, 2) if layout == "strided" else range(count))][: (1 if nd == 0 else n)]


def _table(cx, order, n=2):
    dt = rnp.dtype([("x", order + "i4"), ("y", order + "f8"), ("s", "S3")])
    t = symrec.SRec.zeros((n,), dt)
    for name in dt.names:
        b, sub = symrec.field_base(dt, name)
        src = rnp.empty((n,), dtype=object)
        for i in range(n):
            src[i] = cx.int("t_%s_%d" % (name, i))
        t[name] = symnp.SArr(src, b.newbyteorder("=") if b.itemsize > 1 and b.kind not in "SU" else b)
    t.freeze("table")
    return t


def _guard(cx, what, thunk, allow=(ValueError,)):
    try:
        thunk()
    except FrozenWrite:
        cx.fail("%s wrote into an array passed to it" % what)
        return False
    except allow:
        pass
    cx.check("%s leaves its array arguments untouched" % what, True)
    cx.drop_obligations("numerical domain conditions are not the subject of C15")
    return True


class _FrozenBytes(object):
    """the caller's array memory seen from C++: loads only"""

    def __init__(self, cells):
        self.cells = cells
        self.name = "array data (caller-owned)"

    def size(self):
        return len(self.cells)

    def load(self, i):
        return self.cells[i]

    def store(self, i, v):
        raise FrozenWrite("store into the caller's array memory")


def harness_cxx_textwrite(cx, cfg):
    """Records::WriteRows (records.cpp, interpreted from clang's AST) on a table of two string fields with
    symbolic bytes, for every ignorenull / padnull setting: the row bytes are only read"""
    from props import recxx
    from vf import castxx
    from vf.cast import Ptr, CError
    nrows = cfg[1]
    sizes = [3, 2]
    cells = [cx.int("b%d" % i, 0, 127) for i in range(nrows * sum(sizes))]
    before = list(cells)
    region = _FrozenBytes(cells)
    f = castxx.CFile([], pos=0)
    ign, pad = cx.flag("ignorenull"), cx.flag("padnull")
    I = recxx.interp({"mFptr": f, "mAction": recxx.WRITE, "mFileType": 1, "mNrows": nrows, "mNfields": 2, "mNel": [1, 1], "mSizes": list(sizes),
                      "mTypeNums": [18, 18], "mNdim": [0, 0], "mBracketArrays": False, "mDelim": castxx.CppString.of(","),
                      "mIgnoreNull": ign, "mPadNull": pad, "mData": Ptr(region, 0), "mRowSize": sum(sizes)})
    try:
        I.method("WriteRows")
    except FrozenWrite:
        cx.fail("Records::WriteRows (text) wrote into the array passed to it")
        return
    except CError as e:
        cx.fail("Records::WriteRows (text) raised / has undefined behaviour: %s" % (e,))
        return
    cx.check("Records::WriteRows (text) leaves the caller's array memory untouched", all(a is b for a, b in zip(region.cells, before)))
    cx.check("Records::WriteRows (text) ends with the newline of the last row", len(f.cells) > 0 and not is_sym(f.cells[-1]) and f.cells[-1] == 10)


class _WritesOnly(object):
    """view of the context handed to another property's harness: its functional oracles are
    switched off (they are decided under that property), a store into a frozen input is kept"""

    def __init__(self, cx, fixed):
        self._cx = cx
        self._fixed = fixed

    def __getattr__(self, name):
        return getattr(self._cx, name)

    def check(self, label, goal, detail=None, hyps=None):
        return True

    def check_eq(self, label, a, b, detail=None):
        return True

    def lemma(self, label, goal):
        return True

    def lemma_eq(self, label, a, b):
        return True

    def check_root(self, *a, **k):
        return True

    def fail(self, label, detail=None):
        if "wrote into" in label:
            return self._cx.fail(label, detail)
        return True

    def flag(self, name):
        if name in self._fixed:
            return self._fixed[name]
        return self._cx.flag(name)


def harness_delegate(cx, cfg):
    fam, sub = cfg
    if fam == "fieldops":
        from props import C07 as P
        fixed = {}
    else:
        from props import C16 as P
        fixed = {"inplace": False}
    try:
        P.harness(_WritesOnly(cx, fixed), sub)
    except FrozenWrite:
        cx.fail("%s %r wrote into an array passed to it" % (fam, sub[0]))
        return
    cx.check("%s: the frozen inputs were not stored into" % fam, True)
    cx.drop_obligations("numerical domain conditions are not the subject of C15")


def harness(cx, cfg):
    fam = cfg[0]
    if fam == "cxx_textwrite":
        return harness_cxx_textwrite(cx, cfg)
    if fam in ("fieldops", "byteorder"):
        return harness_delegate(cx, cfg)
    if fam == "recwrite":
        _, delim, order, how = cfg
        vfs = recmodel.VFS()
        mod = recmodel.make_module(vfs)

        class OsPath(object):
            exists = staticmethod(lambda p: vfs.exists(p))
            expanduser = staticmethod(lambda p: p)
            expandvars = staticmethod(lambda p: p)

        class Os(object):
            path = OsPath
        ld = loader.Loader(stubs={"esutil.recfile.records": mod, "os": Os, "os.path": OsPath}, builtin_overrides={"open": recmodel.make_open(vfs)})
        sf = ld.get("esutil.sfile")
        t = _table(cx, order, 3 if cx.flag("table_is_a_view") else 2)
        if t.size == 3:
            t = t[0:2]          # the caller hands over a contiguous row slice of a longer table
        dt0 = t.dtype

        def run():
            if how == "sfile.write":
                sf.write(t, "/virtual/w.rec", delim=delim)
            elif how == "SFile.write":
                with sf.SFile("/virtual/w.rec", mode="w", delim=delim) as h:
                    h.write(t)
            else:
                ru = ld.get("esutil.recfile.Util")
                with ru.Recfile("/virtual/w.rec", mode="w", delim=delim) as r:
                    r.write(t)
        ok = _guard(cx, "%s of a %s-endian table to a %s file" % (how, "big" if order == ">" else "little", "text" if delim else "binary"), run)
        if ok:
            cx.check("the table's dtype (byte order) is unchanged", t.dtype == dt0)
        return
    if fam == "numpy_util":
        _, fn, v = cfg
        nu = loader.Loader().get("esutil.numpy_util")
        if fn == "match":
            a, ca = _arr(cx, "a", v, 2)
            b, _ = _arr(cx, "b", v, 2)
            if len(ca) > 1:
                cx.assume(ca[0] != ca[1])
            _guard(cx, "match", lambda: nu.match(a, b, presorted=cx.flag("presorted")), allow=(ValueError, IndexError))
        elif fn == "unique":
            a, _ = _arr(cx, "a", v, 2)
            if a.ndim == 0:
                return _skip(cx)
            _guard(cx, "unique", lambda: nu.unique(a, values=cx.flag("values")))
        elif fn == "rem_dup":
            a, _ = _arr(cx, "a", v, 2)
            f, _ = _arr(cx, "f", v, 2)
            if a.ndim == 0:
                return _skip(cx)
            _guard(cx, "rem_dup", lambda: nu.rem_dup(a, f))
        else:
            a, _ = _arr(cx, "a", v, 2)
            _guard(cx, "splitarray", lambda: nu.splitarray(1, a))
        return
    if fam == "stat":
        _, fn, v = cfg
        m = loader.Loader().get("esutil.stat.util")
        engine_c = False
        if fn.startswith("histogram") or fn == "binner_xy":
            engine_c = cx.flag("c_engine")
            if engine_c:
                from vf import cmodels
                m = loader.Loader(stubs={"esutil.stat._chist": cmodels.chist_module()}).get("esutil.stat.util")
            else:
                m.have_chist = False
        # data may hold NaN / infinities: what the code computes from them is not modelled (floats are reals),
        # but whether it *writes* into its argument on that branch is: the finiteness tests answer arbitrarily
        k_ = [0]

        def _nondet(x_, out=None):
            def cell(c):
                k_[0] += 1
                return cx.flag("finite%d" % k_[0]) if is_sym(c) else True
            if isinstance(x_, symnp.SArr):
                return symnp.SArr(symnp._map(cell, x_.a), rnp.dtype("?"))
            return cell(x_)

        class _NP(object):
            isfinite = staticmethod(_nondet)
            isnan = staticmethod(lambda x_, out=None: ~_nondet(x_) if isinstance(x_, symnp.SArr) else (not _nondet(x_)))

            def __getattr__(self, name):
                return getattr(symnp, name)
        if fn in ("wmom", "wmedian", "get_stats", "interplin"):
            m.np = _NP()
        x, cxs = _arr(cx, "x", v, 2, 0, 3, kind=None if VARIANTS[v][0] != "i8" else "i8")
        if x.ndim == 0 and fn not in ("wmom", "get_stats", "interplin"):
            return _skip(cx)
        w, cw = _arr(cx, "w", v, 2, lo=1, hi=3)
        if fn == "histogram":
            _guard(cx, "histogram", lambda: m.histogram(x, binsize=1.0, rev=cx.flag("rev"), more=cx.flag("more")))
        elif fn == "histogram_weights":
            _guard(cx, "histogram(weights=)", lambda: m.histogram(x, weights=w, nbin=2))
        elif fn == "binner_xy":
            y, _ = _arr(cx, "y", v, 2)

            def run():
                b = m.Binner(x, y=y, weights=w)
                b.dohist(nperbin=1)
                b.calc_stats()
            _guard(cx, "Binner(x, y, weights)", run)
        elif fn == "wmom":
            _guard(cx, "wmom", lambda: m.wmom(x, w, calcerr=cx.flag("calcerr"), sdev=cx.flag("sdev")))
        elif fn == "wmedian":
            _guard(cx, "wmedian", lambda: m.wmedian(x, w))
        elif fn == "sigma_clip":
            _guard(cx, "sigma_clip", lambda: m.sigma_clip(x, weights=w if cx.flag("weights") else None, nsig=2.0, niter=1, silent=True, extra={}))
        elif fn == "interplin":
            if len(cxs) > 1:
                cx.assume(cxs[0] < cxs[1])
            u, _ = _arr(cx, "u", v, 2)
            _guard(cx, "interplin", lambda: m.interplin(w, x, u))
        else:
            _guard(cx, "get_stats", lambda: m.get_stats(x, weights=w if cx.flag("weights") else None))
        return
    if fam == "coords":
        _, fn, v = cfg
        # values are irrelevant to who writes where: trigonometry as uninterpreted functions
        import z3
        saved = dict(symnp._TRIG)
        rngs = {"sin": (-1, 1), "cos": (-1, 1), "tan": (None, None), "arcsin": (-1.5708, 1.5708), "arccos": (0, 3.1416), "arctan": (-1.5708, 1.5708)}

        def fresh(n_, lo, hi):
            def f(*cs):
                if not any(is_sym(c) for c in cs):
                    return getattr(math, {"arcsin": "asin", "arccos": "acos", "arctan": "atan", "arctan2": "atan2"}.get(n_, n_))(*cs)
                return cx.real("%s!%d" % (n_, cx.fresh_id()), lo, hi)     # an arbitrary value in the function's range
            return f
        for nm, (lo_, hi_) in rngs.items():
            symnp._TRIG[nm] = fresh(nm, lo_, hi_)
        symnp._TRIG["arctan2"] = fresh("arctan2", -3.1416, 3.1416)

        class _NoTrig(object):
            @staticmethod
            def uninstall():
                symnp._TRIG.clear()
                symnp._TRIG.update(saved)
        trig_ = _NoTrig
        try:
            co = loader.Loader().get("esutil.coords")
            ra, _ = _arr(cx, "ra", v, 2, 0, 360)
            dec, _ = _arr(cx, "dec", v, 2, -90, 90)
            if fn == "euler":
                _guard(cx, "euler", lambda: co.euler(ra, dec, cx.choice("select", 6) + 1, b1950=cx.flag("b1950")))
            elif fn == "eq2xyz_deg":
                _guard(cx, "eq2xyz", lambda: co.eq2xyz(ra, dec, stomp=cx.flag("stomp")))
            elif fn == "eq2xyz_rad_stomp":
                _guard(cx, "eq2xyz(units='rad')", lambda: co.eq2xyz(ra, dec, units="rad", stomp=cx.flag("stomp")))
            elif fn == "xyz2eq":
                x, _ = _arr(cx, "x", v, 2, -1, 1)
                y, _ = _arr(cx, "y", v, 2, -1, 1)
                z, _ = _arr(cx, "z", v, 2, -1, 1)
                _guard(cx, "xyz2eq", lambda: co.xyz2eq(x, y, z, stomp=cx.flag("stomp"), units=["deg", "rad"][cx.choice("units", 2)]))
            elif fn in ("sphdist", "gcirc"):
                ra2, _ = _arr(cx, "rb", v, 2, 0, 360)
                dec2, _ = _arr(cx, "db", v, 2, -90, 90)
                if fn == "sphdist":
                    _guard(cx, "sphdist", lambda: co.sphdist(ra, dec, ra2, dec2), allow=(ValueError, IndexError))
                else:
                    _guard(cx, "gcirc", lambda: co.gcirc(ra, dec, ra2, dec2, getangle=cx.flag("getangle")))
            elif fn == "eq2sdss":
                _guard(cx, "eq2sdss", lambda: co.eq2sdss(ra, dec))
            elif fn == "sdss2eq":
                lam, _ = _arr(cx, "lam", v, 2, -90, 90)
                eta, _ = _arr(cx, "eta", v, 2, -180, 180)
                _guard(cx, "sdss2eq", lambda: co.sdss2eq(lam, eta))
            elif fn == "rotate":
                _guard(cx, "rotate", lambda: co.rotate(10.0, 20.0, 30.0, ra, dec))
            else:
                _guard(cx, "shiftlon", lambda: co.shiftlon(ra, shift=(cx.real("shift") if cx.flag("with_shift") else None), wrap=cx.flag("wrap")))
        finally:
            trig_.uninstall()
        return
    if fam == "cosmo":
        _, fn, v = cfg
        from vf import cmodels
        import z3
        ufs = {}

        def absfn(nm, nargs):
            f = z3.Function("C_" + nm, *([z3.RealSort()] * (nargs + 1)))

            def g(I, cptr, *zs):
                from vf import cast
                return symx.SReal(f(*[symx.real_term(cast.as_num(z)) for z in zs[:nargs]]))
            return g
        intr = {"ez_inverse": absfn("ez_inverse", 1), "ez_inverse_integral": absfn("ez_inverse_integral", 2)}
        for nm in ("sinh", "sin", "log10"):
            symnp._TRIG[nm] = (lambda n_: (lambda c: symx.SReal(z3.Function(n_, z3.RealSort(), z3.RealSort())(symx.real_term(c)))))(nm)
        tables = {5: ([cx.real("gx%d" % i) for i in range(5)], [cx.real("gw%d" % i) for i in range(5)]),
                  10: ([cx.real("vx%d" % i) for i in range(10)], [cx.real("vw%d" % i) for i in range(10)])}
        M = cmodels.cosmolib_module(tables, intr)
        mod = loader.Loader(stubs={"esutil.cosmology._cosmolib": M}).get("esutil.cosmology.cosmology")
        c = mod.Cosmo(H0=70.0, flat=cx.flag("flat"), omega_m=0.3, omega_l=0.6, omega_k=0.1)
        z1, _ = _arr(cx, "za", v, 2, 0, 5)
        z2, _ = _arr(cx, "zb", v, 2, 0, 5)
        if fn == "dV":
            _guard(cx, "Cosmo.dV", lambda: c.dV(z1))
        else:
            which = cx.choice("args", 3)
            f = getattr(c, fn)
            sc = cx.real("zs", 0, 5)
            _guard(cx, "Cosmo.%s" % fn, lambda: f(z1, sc) if which == 0 else (f(sc, z2) if which == 1 else f(z1, z2)))
        return
    if fam == "htm":
        _, fn, v = cfg

        class HTMC(object):
            """contract of the compiled base class: reads its inputs, fills the output array it is given"""

            def __init__(self, depth=10):
                self._depth = depth

            def get_depth(self):
                return self._depth

            def lookup_id(self, ra, dec, out):
                for i in range(out.size):
                    out[i] = cx.int("id%d_%d" % (i, cx.fresh_id()), 0, 3)

            def cmatch(self, *a):
                return symnp.array([0], dtype="i8"), symnp.array([0], dtype="i8"), symnp.array([0.0])

            def cbincount(self, rmin, rmax, nbin, ra1, dec1, ra2, dec2, htmrev2, minmax_ids, scale, verb):
                return symnp.zeros(int(nbin), dtype="i8")

            def intersect(self, *a):
                return symnp.array([0], dtype="i8")

        class CMatcher(object):
            def __init__(self, depth, ra, dec):
                pass

            def match(self, *a):
                return symnp.array([0], dtype="i8"), symnp.array([0], dtype="i8"), symnp.array([0.0])

            def get_depth(self):
                return 10

        class HtmcMod(object):
            pass
        HtmcMod.HTMC = HTMC
        HtmcMod.Matcher = CMatcher
        st_mod = loader.Loader().get("esutil.stat.util")
        st_mod.have_chist = False

        class StatPkg(object):
            histogram = staticmethod(st_mod.histogram)
        ld = loader.Loader(stubs={"esutil.htm.htmc": HtmcMod, "esutil.stat": StatPkg})
        hm = ld.get("esutil.htm.htm")
        h = hm.HTM(10)
        ra, _ = _arr(cx, "ra", v, 2, 0, 360)
        dec, _ = _arr(cx, "dec", v, 2, -90, 90)
        ra2, _ = _arr(cx, "rb", v, 2, 0, 360)
        dec2, _ = _arr(cx, "db", v, 2, -90, 90)
        if fn == "lookup_id":
            _guard(cx, "HTM.lookup_id", lambda: h.lookup_id(ra, dec))
        elif fn == "match":
            rad, _ = _arr(cx, "rad", v, 2, 0, 1)
            _guard(cx, "HTM.match", lambda: h.match(ra, dec, ra2, dec2, rad, maxmatch=cx.choice("maxmatch", 2)), allow=(ValueError, TypeError))
        elif fn == "bincount":
            sc, _ = _arr(cx, "scale", v, 2, 1, 2)
            _guard(cx, "HTM.bincount", lambda: h.bincount(0.01, 1.0, 2, ra, dec, ra2, dec2, scale=sc if cx.flag("scale") else None))
        elif fn == "bincount_ids":
            ids, _ = _arr(cx, "ids", 4 if VARIANTS[v][0] != "f8" or True else v, 2, 0, 3, kind="i8")
            _guard(cx, "HTM.bincount(htmid2=)", lambda: h.bincount(0.01, 1.0, 2, ra, dec, ra2, dec2, htmid2=ids))
        else:
            def run():
                mt = hm.Matcher(10, ra, dec)
                rad, _ = _arr(cx, "rad", v, 2, 0, 1)
                mt.match(ra2, dec2, rad)
            _guard(cx, "Matcher", run, allow=(ValueError, TypeError))
        return
    raise AssertionError(cfg)


def _skip(cx):
    cx.check("variant not applicable to this function", True)


# ----------------------------------------------------------------------------

def _variants_real(n=3):
    import numpy as np
    base = np.linspace(0.5, 2.5, n)
    big = np.linspace(0.5, 2.5, 2 * n)
    return [("f8", base.copy()), ("f8 strided", big[::2]), (">f8", base.astype(">f8")), ("f4", base.astype("f4")), ("i8", (base * 3).astype("i8")), ("0-d", np.array(1.5))]


def replay(cand):
    """a frozen-write candidate is settled by calling the real function on concrete arrays of
    every variant and comparing bytes/dtype before and after"""
    import numpy as np
    import os
    import tempfile
    import shutil
    import warnings
    warnings.simplefilter("ignore")
    import esutil
    import esutil.numpy_util as nu
    import esutil.stat as st
    import esutil.coords as co
    import esutil.sfile as sfile
    import esutil.recfile as recfile
    import esutil.htm as htm
    import esutil.cosmology as cosmology
    cfg = cand["cfg"]
    fam = cfg[0]
    no = {"reproduced": False, "what": "agrees", "key": None}

    def snap(a):
        return (a.tobytes(), a.dtype, a.shape, a.strides)

    def changed(args, snaps):
        for (nm, a), s in zip(args, snaps):
            if snap(a) != s:
                return nm
        return None

    def trial(desc, key, args, call, allow=(ValueError, IndexError, TypeError)):
        snaps = [snap(a) for _, a in args]
        try:
            call()
        except allow:
            pass
        nm = changed(args, snaps)
        if nm:
            return {"reproduced": True, "key": key, "what": "%s modified its argument %s" % (desc, nm)}
        return None
    if fam == "fieldops":
        # every table the C07 replay builds is an input that must come back bit-for-bit
        from props import C07
        made = []
        orig = C07._real_table

        def spy(*a, **k):
            t = orig(*a, **k)
            made.append((t, t.tobytes(), t.dtype, t.shape, t.strides))
            return t
        C07._real_table = spy
        try:
            try:
                C07.replay(dict(cand, cfg=cfg[1]))
            except Exception:
                pass
        finally:
            C07._real_table = orig
        for t, b, dt, sh, st_ in made:
            if t.tobytes() != b or t.dtype != dt or t.shape != sh or t.strides != st_:
                return {"reproduced": True, "key": "fieldops:%s:input-modified" % cfg[1][0],
                        "what": "field operation %r modified an input table of dtype %s" % (cfg[1][0], dt)}
        return no
    if fam == "byteorder":
        from props import C16
        c = cfg[1]
        c = tuple(tuple(x) if isinstance(x, list) else x for x in c)
        c = (c[0], c[1], c[2], tuple(c[3]))
        mdl = cand["model"] or {}
        arr = C16._real_input(c, mdl)
        for func in ([C16.FUNCS[int(mdl.get("func", 0))]] + list(C16.FUNCS)):
            for keep in (bool(mdl.get("keep_dtype", False)), True, False):
                for view in (False, True):
                    if view and arr.ndim == 0:
                        continue
                    owner = arr.copy()
                    a = owner[:] if view else owner
                    before = (owner.tobytes(), owner.dtype, a.dtype, a.strides)
                    try:
                        getattr(nu, func)(a, inplace=False, keep_dtype=keep)
                    except Exception:
                        pass
                    if (owner.tobytes(), owner.dtype, a.dtype, a.strides) != before:
                        return {"reproduced": True, "key": "byteorder:%s:input-modified" % func,
                                "what": "%s(<%s array shape %s>, inplace=False, keep_dtype=%s) modified its input" % (func, arr.dtype, arr.shape, keep)}
        return no
    if fam == "recwrite":
        _, delim, order, how = cfg
        d = tempfile.mkdtemp(prefix="c15-")
        try:
            t = np.zeros(3, dtype=[("x", order + "i4"), ("y", order + "f8"), ("s", "S3")])
            t["x"] = [1, 2, 3]
            t["y"] = [0.5, 1.5, 2.5]
            t["s"] = [b"a", b"bc", b"def"]
            fn = os.path.join(d, "w.rec")

            def call():
                if how == "sfile.write":
                    sfile.write(t, fn, delim=delim)
                elif how == "SFile.write":
                    with sfile.SFile(fn, mode="w", delim=delim) as h:
                        h.write(t)
                else:
                    with recfile.Recfile(fn, mode="w", delim=delim) as r:
                        r.write(t)
            r = trial("%s of a %s-endian table to a %s file" % (how, "big" if order == ">" else "little", "text" if delim else "binary"),
                      "recwrite:%s:%s" % ("text" if delim else "binary", "swapped" if order == ">" else "native"), [("table", t)], call, allow=())
            if r:
                return r
            # the same through arguments that do not own their memory: a row slice, a recarray view, a reshape
            big = np.zeros(5, dtype=t.dtype)
            big[:3] = t
            for nm, v in (("a row slice", big[0:3]), ("a recarray view", big.view(np.recarray)), ("a reshaped view", big.reshape(5, 1)[:, 0])):
                t = v
                r = trial("%s of a %s-endian table that is %s to a %s file" % (how, "big" if order == ">" else "little", nm, "text" if delim else "binary"),
                          "recwrite:%s:%s:view" % ("text" if delim else "binary", "swapped" if order == ">" else "native"), [("table", v), ("its base", big)], call, allow=())
                if r:
                    return r
            return no
        finally:
            shutil.rmtree(d, ignore_errors=True)
    if fam == "cxx_textwrite":
        d = tempfile.mkdtemp(prefix="c15-")
        try:
            t = np.zeros(3, dtype=[("s", "S3"), ("u", "S2")])
            t["s"] = [b"a", b"bc", b""]
            t["u"] = [b"", b"x", b"yz"]
            for padnull in (True, False):
                for ignorenull in (True, False):
                    fn = os.path.join(d, "w_%s_%s.rec" % (padnull, ignorenull))

                    def call():
                        with recfile.Recfile(fn, mode="w", delim=",", padnull=padnull, ignorenull=ignorenull) as r:
                            r.write(t)
                    r = trial("Recfile.write (text, padnull=%s, ignorenull=%s) of a table with short strings" % (padnull, ignorenull),
                              "recwrite:text:cxx-strings", [("table", t)], call, allow=())
                    if r:
                        return r
            return no
        finally:
            shutil.rmtree(d, ignore_errors=True)
    V = _variants_real()
    if fam == "numpy_util":
        fn = cfg[1]
        for nm, a in V:
            b = a.copy() if a.ndim else a
            if fn == "match":
                aa = np.unique(a) if a.ndim else a
                r = trial("match(%s)" % nm, "match", [("arr1", aa), ("arr2", b)], lambda: nu.match(aa, b))
            elif fn == "unique":
                if not a.ndim:
                    continue
                r = trial("unique(%s)" % nm, "unique", [("arr", a)], lambda: nu.unique(a))
            elif fn == "rem_dup":
                if not a.ndim:
                    continue
                r = trial("rem_dup(%s)" % nm, "rem_dup", [("arr", a), ("flag", b)], lambda: nu.rem_dup(a, b))
            else:
                r = trial("splitarray(%s)" % nm, "splitarray", [("arr", a)], lambda: nu.splitarray(1, a))
            if r:
                return r
        return no
    if fam == "stat":
        fn = cfg[1]
        Vn = list(V)
        for nm, a in V:
            if a.dtype.kind == "f" and a.ndim and a.size > 1:
                b = a.copy()
                b.flat[0] = np.nan
                b.flat[-1] = np.inf
                Vn.append((nm + " with NaN/inf", b))
        for nm, a in Vn:
            w = (a.copy() if a.ndim else np.array(1.0)) * 0 + np.arange(1, a.size + 1).reshape(a.shape)
            w = w.astype(a.dtype)
            args = [("data", a), ("weights", w)]
            calls = {
                "histogram": lambda: [st.histogram(a, binsize=1.0, rev=True, more=True)],
                "histogram_weights": lambda: [st.histogram(a, weights=w, nbin=2)],
                "binner_xy": lambda: (lambda b: (b.dohist(nperbin=1), b.calc_stats()))(st.Binner(a, y=a.copy(), weights=w)),
                "wmom": lambda: st.wmom(a, w, calcerr=True, sdev=True),
                "wmedian": lambda: st.wmedian(a, w),
                "sigma_clip": lambda: st.sigma_clip(a, weights=w, nsig=2.0, niter=2, silent=True, extra={}),
                "interplin": lambda: st.interplin(w, a, a),
                "get_stats": lambda: st.get_stats(a, weights=w),
            }
            for eng in (True, False):
                old = st.util.have_chist
                st.util.have_chist = eng and old
                try:
                    r = trial("stat.%s(%s)" % (fn, nm), "stat:" + fn, args, calls[fn], allow=(ValueError, IndexError, TypeError, ZeroDivisionError))
                finally:
                    st.util.have_chist = old
                if r:
                    return r
        return no
    if fam == "coords":
        fn = cfg[1]
        for nm, a in V:
            ra = (a * 40) if a.dtype.kind != "i" else a * 10
            ra = ra.astype(a.dtype) if a.ndim else np.array(float(ra))
            dec = (ra / 5 - 20).astype(ra.dtype) if ra.ndim else np.array(float(ra) / 5 - 20)
            for stomp in (False, True):
                for units in ("deg", "rad"):
                    args = [("ra", ra), ("dec", dec)]
                    calls = {
                        "euler": lambda: co.euler(ra, dec, 1),
                        "eq2xyz_deg": lambda: co.eq2xyz(ra, dec, stomp=stomp, units=units),
                        "eq2xyz_rad_stomp": lambda: co.eq2xyz(ra, dec, stomp=stomp, units=units),
                        "xyz2eq": lambda: co.xyz2eq(ra / 400.0 if ra.dtype.kind == "f" else ra, dec / 400.0 if dec.dtype.kind == "f" else dec, ra * 0, stomp=stomp, units=units),
                        "sphdist": lambda: co.sphdist(ra, dec, dec, ra / 10, units=[units, units]),
                        "gcirc": lambda: co.gcirc(ra, dec, dec, ra / 10, getangle=stomp),
                        "eq2sdss": lambda: co.eq2sdss(ra, dec),
                        "sdss2eq": lambda: co.sdss2eq(dec, ra / 3),
                        "rotate": lambda: co.rotate(10.0, 20.0, 30.0, ra, dec),
                        "shiftlon": lambda: (co.shiftlon(ra, shift=33.0), co.shiftlon(ra)),
                    }
                    r = trial("coords.%s(%s, stomp=%s, units=%s)" % (fn.split("_")[0], nm, stomp, units), "coords:" + fn.split("_")[0], args, calls[fn])
                    if r:
                        return r
        return no
    if fam == "cosmo":
        fn = cfg[1]
        c = cosmology.Cosmo(H0=70.0, flat=False, omega_m=0.3, omega_l=0.6, omega_k=0.1)
        for nm, a in V:
            if not a.ndim:
                continue
            z1 = (a / 5).astype(a.dtype) if a.dtype.kind == "f" else a
            z2 = z1 + 1
            args = [("zmin", z1), ("zmax", z2)]
            f = getattr(c, fn)
            calls = [lambda: f(z1)] if fn == "dV" else [lambda: f(z1, 3.0), lambda: f(0.1, z2), lambda: f(z1, z2)]
            for call in calls:
                r = trial("Cosmo.%s(%s)" % (fn, nm), "cosmo:" + fn, args, call)
                if r:
                    return r
        return no
    if fam == "htm":
        fn = cfg[1]
        h = htm.HTM(8)
        for nm, a in V:
            if not a.ndim:
                continue
            ra = (a * 40).astype(a.dtype) if a.dtype.kind == "f" else a * 10
            dec = (ra / 5 - 20).astype(ra.dtype)
            ids = h.lookup_id(ra.astype("f8"), dec.astype("f8"))
            for idv in (ids.copy(), ids.astype("i4"), ids.astype(">i8")):
                args = [("ra", ra), ("dec", dec), ("htmid2", idv)]
                calls = {
                    "lookup_id": lambda: h.lookup_id(ra, dec),
                    "match": lambda: h.match(ra, dec, ra, dec, 1.0, maxmatch=0),
                    "bincount": lambda: h.bincount(0.01, 10.0, 3, ra, dec, ra, dec, scale=np.ones(ra.size)),
                    "bincount_ids": lambda: (h.bincount(0.01, 10.0, 3, ra, dec, ra, dec, htmid2=idv), h.bincount(0.01, 10.0, 3, ra, dec, ra, dec, htmid2=idv)),
                    "Matcher": lambda: htm.Matcher(8, ra, dec).match(ra, dec, 1.0),
                }
                r = trial("htm %s(%s, ids %s)" % (fn, nm, idv.dtype), "htm:" + fn, args, calls[fn])
                if r:
                    return r
        return no
    raise AssertionError(fam)


MANIFEST_ENTRY = {
    "engine": "symx+cast",
    "technique": "write monitor inside the symbolic executors (symx/z3 for the Python sources, cast for the interpreted C wrappers): every buffer reachable from an argument is frozen and each store through any alias, view, out=, augmented assignment, byteswap(True), dtype assignment or C pointer is checked on every feasible path, with the argument's dtype class, byte order, layout and dimensionality and the path-selecting options as forked choices; the string branch of the C++ text writer interpreted from clang's AST (castxx) with the row memory frozen; finiteness tests answer arbitrarily so that NaN/inf branches are explored for stores; candidates are replayed on real arrays of every variant (incl. views that do not own their memory, NaN/inf data) comparing bytes, dtype and strides before and after",
    "text": "On every feasible path of the listed functions (record-file writes text/binary, match/unique/rem_dup/splitarray, extract/remove/reorder/add/combine/copy/split fields and compare_arrays over the C07 table layouts, to_native/to_big_endian/to_little_endian/byteswap with inplace off over the C16 plain and structured layouts with keep_dtype on and off, histogram/Binner with weights on both engines, wmom/wmedian/sigma_clip/interplin/get_stats, the coordinate conversions with their unit/stomp options, the Cosmo distance methods down to the C wrappers, the Python layers of HTM lookup/match/bincount/Matcher) and for every argument variant (f8/f4/i8, native/swapped, contiguous/strided, 0-d/1-d) no store reaches a caller-owned buffer.",
    "note": "field operations and byte-order conversions are explored through the harnesses of C07 / C16 with their functional oracles switched off and only the write monitor armed (the oracles themselves are decided under C07 / C16), WCS under C10; the string branch of the C++ text writer (Records::WriteRows/WriteField/WriteStringAsAscii) is interpreted with the row memory frozen; the rest of records.cpp and htmc.cc are behind contracts (a store made there is not seen)",
}
