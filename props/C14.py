"""C14 -- per-bin statistics and equal-occupancy bins equal direct computation."""
import itertools

from vf import symx, symnp, loader
from vf.symx import sym_and, sym_or, sym_not, sym_ite, sym_sum, wrap, is_sym
import z3

PROPERTY = "C14"
LEVEL = "model_checking"
NEEDS_BUILD = True
FUNCTIONS = [("esutil/stat/util.py", n) for n in
             ("Binner.dohist", "Binner.calc_stats", "Binner._hist_by_num", "Binner._merge_last",
              "Binner._hist_by_binsize_or_nbin", "Binner._do_hist", "Binner._get_minmax_and_indices",
              "_dohist", "wmom", "histogram")]
ASSUMPTIONS = [
    "float64 arithmetic is exact real arithmetic; roots compared on squares",
    "weights > 0",
    "array length and number of bins bounded as listed; data, second variable, weights, limits and bin size are unbounded reals",
    "the pure-Python histogram engine is used (the engines are proved identical under C05)",
    "error values of single-member bins are not constrained (the statement constrains them for >= 2 members)",
    "NumPy primitives as modelled by vf.symnp (conformance pass)",
]
BOUNDS = {"quick": {"N": "1..3", "bins": "<=3", "nperbin": "1..N"},
          "thorough": {"N": "1..4", "bins": "<=3", "nperbin": "1..N"}}
EXPLORE_OPTS = {"max_paths": 100000, "query_timeout_ms": 20000}
TIER_OPTS = {"quick": {"time_budget": 300}, "thorough": {"time_budget": 2400}}
SENT = -9999


def configs(tier):
    q = tier == "quick"
    out = []
    Ns = (1, 2, 3) if q else (1, 2, 3, 4)
    for N in Ns:
        for have_y, have_w in ((False, False), (True, False), (False, True), (True, True)):
            if q and N == 3 and have_y and have_w:
                continue
            out.append(("binsize", N, have_y, have_w, 3, False, False))
            if N >= 2:
                out.append(("nbin", N, have_y, have_w, 2, False, False))
        out.append(("binsize", N, False, True, 2, True, True))
        for nper in range(1, N + 1):
            for ml in (False, True):
                out.append(("nperbin", N, False, False, nper, ml, False))
                if N >= 2:
                    out.append(("nperbin", N, True, True, nper, ml, False))
        if N >= 2:
            out.append(("nperbin", N, False, False, 1, True, True))
            out.append(("nperbin", N, False, False, 2, True, True))
    out.append(("histogram_more", 2, False, True, 2, False, False))
    out.append(("histogram_more", 3, False, False, 2, False, False))
    # one Binner used for several binnings: each result as from a fresh object
    out.append(("binner_reuse", 2, True, False, 2, False, False))
    out.append(("binner_reuse", 3, False, False, 2, False, False))
    # weighted deviation of a bin of tied values, over IEEE floats (half precision; double width does not finish)
    out.append(("fpwstd", 2, False, True, 16, False, False))
    return out


def _mod():
    return loader.Loader().get("esutil.stat.util")


def check_sqrt(cx, label, got, want_sq):
    cx.check(label + " (non-negative)", got >= 0)
    cx.check_eq(label, got * got, want_sq)


def harness_fpwstd(cx, cfg):
    """per-bin weighted deviation (wmom, what Binner stores as wstd) on a bin whose members are tied, in IEEE
    arithmetic: the deviation about the weighted mean is never NaN -- which a variance written as
    <x^2> - <x>^2 does not deliver (its radicand goes negative)"""
    import z3
    sort = z3.Float16()
    m = _mod()
    v = cx.fp("v", 1.0, 64.0, sort=sort)
    w0 = cx.fp("w0", 0.0625, 16.0, sort=sort)
    w1 = cx.fp("w1", 0.0625, 16.0, sort=sort)
    wmean, werr, wsdev = m.wmom(symnp.array([v, v]), symnp.array([w0, w1]), sdev=True)
    sd = wsdev if not isinstance(wsdev, symnp.SArr) else wsdev.tolist()
    sd = sd[0] if isinstance(sd, list) else sd
    nan = symx.wrap(z3.fpIsNaN(sd.t))
    cx.check("IEEE arithmetic (f16): weighted deviation of tied values is not NaN", symx.sym_not(nan))
    # its size (a few units in the last place of the value) is not decided: that query does not finish in
    # z3 even at half precision (300 s); the replay measures it on doubles


def _same(cx, label, a, b):
    if isinstance(a, symnp.SArr) or isinstance(b, symnp.SArr):
        la = a.tolist() if isinstance(a, symnp.SArr) else a
        lb = b.tolist() if isinstance(b, symnp.SArr) else b
        la = la if isinstance(la, list) else [la]
        lb = lb if isinstance(lb, list) else [lb]
        if not cx.check(label + " (length)", len(la) == len(lb)):
            return
        for u, v in zip(la, lb):
            cx.check_eq(label, u, v)
    else:
        cx.check(label, (a is b) or (not symx.is_sym(a) and not symx.is_sym(b) and a == b) or (symx.is_sym(a) and symx.is_sym(b) and a.t.eq(b.t)))


def harness_binner_reuse(cx, cfg):
    """a Binner that already did one binning (equal occupancy / fixed width) is asked for another: every entry
    it then holds equals what a fresh Binner of the same data computes (no left-overs of the earlier run)"""
    _, N, have_y, have_w, k, _f, _l = cfg
    m = _mod()
    m.have_chist = False
    x = [cx.real("x%d" % i) for i in range(N)]
    y = [cx.real("y%d" % i) for i in range(N)] if have_y else None
    w = [cx.real("w%d" % i) for i in range(N)] if have_w else None
    if have_w:
        for wi in w:
            cx.assume(wi > 0)
    bs = cx.real("binsize")
    cx.assume(bs > 0)
    lo, hi = symnp._minimum_cells(x), symnp._maximum_cells(x)
    cx.assume(hi - lo < 2 * bs)

    def mk():
        return m.Binner(symnp.array(x), y=symnp.array(y) if have_y else None, weights=symnp.array(w) if have_w else None)
    first = cx.choice("first", 2)
    steps = [dict(nperbin=1), dict(binsize=bs)] if first == 0 else [dict(binsize=bs), dict(nperbin=1)]
    b = mk()
    b.dohist(rev=True, **steps[0])
    b.calc_stats()
    b.dohist(rev=True, **steps[1])
    b.calc_stats()
    f = mk()
    f.dohist(rev=True, **steps[1])
    f.calc_stats()
    kb, kf = sorted(b.keys()), sorted(f.keys())
    cx.check("a reused Binner holds the same entries as a fresh one (%s after %s)" % (list(steps[1])[0], list(steps[0])[0]), kb == kf, detail="%r vs %r" % (kb, kf))
    for key in kf:
        if key in b:
            _same(cx, "a reused Binner: entry '%s' equals the fresh object's" % key, b[key], f[key])
    cx.drop_obligations("numerical domain conditions are decided in the single-binning configurations")


def harness(cx, cfg):
    mode, N, have_y, have_w, k, flag, limits = cfg
    if mode == "fpwstd":
        return harness_fpwstd(cx, cfg)
    if mode == "binner_reuse":
        return harness_binner_reuse(cx, cfg)
    m = _mod()
    m.have_chist = False
    x = [cx.real("x%d" % i) for i in range(N)]
    y = [cx.real("y%d" % i) for i in range(N)] if have_y else None
    w = [cx.real("w%d" % i) for i in range(N)] if have_w else None
    if have_w:
        for wi in w:
            cx.assume(wi > 0)
    mn = cx.real("min") if limits else None
    mx = cx.real("max") if limits else None
    lo = mn if limits else symnp._minimum_cells(x)
    hi = mx if limits else symnp._maximum_cells(x)
    inrange = [sym_and(xi >= lo, xi <= hi) for xi in x]
    kw = {}
    if mode in ("binsize", "histogram_more") and mode != "nbin":
        if mode == "binsize" or True:
            bs = cx.real("binsize")
            cx.assume(bs > 0)
            cx.assume(hi >= lo)
            cx.assume(hi - lo < k * bs)
            kw["binsize"] = bs
    if mode == "nbin":
        cx.assume(hi > lo)
        kw = {"nbin": k}
        bs = (hi - lo) / k
    if mode == "nperbin":
        kw = {"nperbin": k, "mergelast": flag}
    try:
        if mode == "histogram_more":
            res = m.histogram(symnp.array(x), weights=symnp.array(w) if have_w else None, more=True, min=mn, max=mx, **kw)
            xpref = ""
        else:
            b = m.Binner(symnp.array(x), y=symnp.array(y) if have_y else None, weights=symnp.array(w) if have_w else None)
            b.dohist(min=mn, max=mx, rev=True, **kw)
            b.calc_stats()
            res = b
            xpref = "x" if have_y else ""
    except ValueError as e:
        if "No data in specified min/max range" in str(e):
            cx.check("ValueError only when no datum lies within the limits", sym_not(sym_or(*inrange)))
            return
        raise
    hist = res["hist"].tolist()
    nbin = len(hist)
    rev = [int(v) for v in res["rev"].tolist()]
    members = []
    ok = True
    for i in range(nbin):
        a, e = rev[i], rev[i + 1]
        if not (nbin + 1 <= a <= e <= len(rev)):
            cx.check("reverse-index offsets delimit slices inside rev", False)
            ok = False
            members.append([])
            continue
        mem = rev[a:e]
        if any(not (0 <= j < N) for j in mem):
            cx.check("reverse indices refer to the original array", False)
            ok = False
            mem = [j for j in mem if 0 <= j < N]
        members.append(mem)
        cx.check_eq("hist[i] = size of the reverse-index slice", hist[i], len(mem))
    if not ok:
        return
    allm = [j for mem in members for j in mem]
    cx.check("no datum is in two bins", len(set(allm)) == len(allm))
    if mode == "nperbin":
        # counted = data within the limits, all of them, in sorted order
        for j in range(N):
            cx.check("equal-occupancy bins hold exactly the data within the limits",
                     inrange[j] if j in allm else sym_not(inrange[j]))
        for a, b_ in zip(allm, allm[1:]):
            cx.check("equal-occupancy bins hold consecutive sorted data", x[a] <= x[b_])
        sizes = [len(mem) for mem in members]
        nc = len(allm)
        want = [k] * (nc // k) + ([nc % k] if nc % k else [])
        if flag and len(want) >= 2 and want[-1] != k:
            want = want[:-2] + [want[-2] + want[-1]]
        cx.check("every bin holds exactly nperbin data (short last bin merged into its predecessor when asked)",
                 sizes == want)
        low, high = res["low"].tolist(), res["high"].tolist()
        cx.check("low/high have one entry per bin", len(low) == nbin and len(high) == nbin)
        if len(low) == nbin and len(high) == nbin:
            for i, mem in enumerate(members):
                if mem:
                    cx.check_eq("low = smallest member", low[i], symnp._minimum_cells([x[j] for j in mem]))
                    cx.check_eq("high = largest member", high[i], symnp._maximum_cells([x[j] for j in mem]))
    else:
        # membership from the definition (as in C05) and bin geometry
        bidx = [wrap(z3.ToInt(symx.real_term((xi - lo) / bs))) for xi in x]
        for i, mem in enumerate(members):
            for j in range(N):
                inbin = sym_and(inrange[j], bidx[j] == i)
                cx.check("bin membership follows floor((x-min)/binsize)", inbin if j in mem else sym_not(inbin))
        low = res[xpref + "low"].tolist()
        high = res[xpref + "high"].tolist()
        cen = res[xpref + "center"].tolist()
        for i in range(nbin):
            cx.check_eq("bin low edge", low[i], lo + i * bs)
            cx.check_eq("bin high edge", high[i], lo + (i + 1) * bs)
            cx.check_eq("bin centre", cen[i], lo + (i + 0.5) * bs)

    def per_var(pref, vals, wpref):
        mean = res[pref + "mean"].tolist()
        std = res[pref + "std"].tolist()
        err = res[pref + "err"].tolist()
        med = res[pref + "median"].tolist()
        for i, mem in enumerate(members):
            n = len(mem)
            if n == 0:
                for name, arr in (("mean", mean), ("std", std), ("err", err), ("median", med)):
                    cx.check_eq("empty bin carries the sentinel in %s%s" % (pref, name), arr[i], SENT)
                continue
            v = [vals[j] for j in mem]
            mu = sym_sum(v) / n
            var = sym_sum([(c - mu) * (c - mu) for c in v]) / n
            cx.check_eq("%smean = mean of the bin's members" % pref, mean[i], mu)
            va = symnp.array(v)
            cx.check_root("%sstd = population deviation of the bin's members" % pref, std[i], var, alts=(lambda: va.std(),))
            if n >= 2:
                cx.check_root("%serr = std/sqrt(n)" % pref, err[i], var, symnp.sqrt(n), alts=(lambda: va.std() / symnp.sqrt(n),))
            # median: middle of the sorted members (mean of the two middle ones for even n)
            g = med[i]
            le = [sym_sum([sym_ite(c <= g, 1, 0) for c in v])]
            ge = [sym_sum([sym_ite(c >= g, 1, 0) for c in v])]
            cx.check("%smedian splits the members in halves" % pref, sym_and(2 * le[0] >= n, 2 * ge[0] >= n))
            if n % 2 == 1:
                cx.check("%smedian is a member (odd count)" % pref, sym_or(*[g == c for c in v]))
            else:
                cx.check("%smedian is the mean of two members (even count)" % pref,
                         sym_or(*[2 * g == v[a] + v[b_] for a in range(n) for b_ in range(a + 1, n)]))
        if have_w:
            whist = res["whist"].tolist()
            wmean = res["w" + pref + "mean"].tolist()
            wstd = res["w" + pref + "std"].tolist()
            werr = res["w" + pref + "err"].tolist()
            werr2 = res["w" + pref + "err2"].tolist()
            for i, mem in enumerate(members):
                n = len(mem)
                if n == 0:
                    cx.check_eq("empty bin has zero summed weight", whist[i], 0)
                    for name, arr in (("mean", wmean), ("std", wstd), ("err", werr), ("err2", werr2)):
                        cx.check_eq("empty bin carries the sentinel in w%s%s" % (pref, name), arr[i], SENT)
                    continue
                v = [vals[j] for j in mem]
                ww = [w[j] for j in mem]
                wtot = sym_sum(ww)
                mu = sym_sum([a * b_ for a, b_ in zip(ww, v)]) / wtot
                var = sym_sum([a * (c - mu) * (c - mu) for a, c in zip(ww, v)]) / wtot
                # the same quantities written with array operations (the usual spelling):
                # tried first as term identities, the formulas above decide otherwise
                wa, va = symnp.array(ww), symnp.array(v)
                a_tot = wa.sum()
                a_mu = (wa * va).sum() / a_tot
                cx.check_eq("whist = summed weight of the bin's members", whist[i], wtot)
                cx.check_eq("w%smean = weighted mean of the bin's members" % pref, wmean[i], mu)
                cx.check_root("w%sstd = weighted deviation of the bin's members" % pref, wstd[i], var,
                              alts=(lambda: symnp.sqrt((wa * (va - a_mu) ** 2).sum() / a_tot),))
                if n >= 2:
                    if not (is_sym(werr[i]) and symx.real_term(werr[i]).eq(symx.real_term(1.0 / symnp.sqrt(a_tot)))):
                        cx.check("w%serr = 1/sqrt(sum w) (sign)" % pref, werr[i] >= 0)
                        cx.check_eq("w%serr = 1/sqrt(sum w)" % pref, werr[i] * werr[i] * wtot, 1)
                    else:
                        cx.check("w%serr = 1/sqrt(sum w)" % pref, True)
                    cx.check_root("w%serr2 = sqrt(sum w^2 (v-mean)^2)/sum w" % pref, werr2[i],
                                  sym_sum([a * a * (c - mu) * (c - mu) for a, c in zip(ww, v)]), wtot,
                                  alts=(lambda: symnp.sqrt((wa ** 2 * (va - a_mu) ** 2).sum()) / a_tot,))
    per_var(xpref, x, xpref)
    if have_y:
        per_var("y", y, "y")


# ----------------------------------------------------------------------------

def conformance():
    import numpy as np
    import importlib
    import sys
    import warnings
    warnings.simplefilter("ignore")
    sys.path.insert(0, loader.repo())
    try:
        real = importlib.import_module("esutil.stat.util")
    finally:
        sys.path.pop(0)
    m = _mod()
    m.have_chist = False
    rng = np.random.RandomState(4)
    n = 0
    for _ in range(30):
        N = rng.randint(2, 7)
        x = np.round(rng.uniform(0, 4, N), 2)
        y = np.round(rng.normal(size=N), 2)
        w = np.round(rng.uniform(0.5, 2, N), 2)
        for kw in ({"binsize": 1.0, "min": 0.0, "max": 4.0}, {"nbin": 3}, {"nperbin": 2, "mergelast": True}, {"nperbin": 2, "mergelast": False}):
            rb = real.Binner(x, y=y, weights=w)
            rb.dohist(**kw)
            rb.calc_stats()
            sb = m.Binner(symnp.array(x.tolist()), y=symnp.array(y.tolist()), weights=symnp.array(w.tolist()))
            sb.dohist(**kw)
            sb.calc_stats()
            for key in rb:
                a = np.asarray(rb[key], dtype=float)
                b = sb[key]
                b = np.asarray(b.tolist() if hasattr(b, "tolist") else b, dtype=float)
                assert a.shape == b.shape and np.allclose(a, b, rtol=1e-9, atol=1e-12), (key, kw, x, a, b)
            n += 1
    return n


def replay(cand):
    import numpy as np
    import warnings
    import esutil.stat.util as su
    from vf.symx import model_float
    warnings.simplefilter("ignore")
    mode, N, have_y, have_w, k, flag, limits = cand["cfg"]
    mdl = cand["model"] or {}
    no = {"reproduced": False, "what": "agrees", "key": None}
    if mode == "binner_reuse":
        rs = np.random.RandomState(2)
        xs = [np.array([model_float(mdl.get("x%d" % i, float(i))) for i in range(N)], dtype="f8"), rs.uniform(0, 10, 12), np.arange(7.0)]
        for x_ in xs:
            y_ = x_ * 2 + 1
            w_ = np.linspace(0.5, 2.0, x_.size)
            for steps in ([dict(nperbin=2), dict(binsize=1.5)], [dict(binsize=1.5), dict(nperbin=3)], [dict(nperbin=1), dict(nbin=2)]):
                if x_.max() <= x_.min():
                    continue
                b = su.Binner(x_, y=y_ if have_y else None, weights=w_ if have_w else None)
                b.dohist(rev=True, **steps[0])
                b.calc_stats()
                b.dohist(rev=True, **steps[1])
                b.calc_stats()
                f = su.Binner(x_, y=y_ if have_y else None, weights=w_ if have_w else None)
                f.dohist(rev=True, **steps[1])
                f.calc_stats()
                if sorted(b.keys()) != sorted(f.keys()):
                    return {"reproduced": True, "key": "binner:reuse", "what": "Binner reused (%r after %r): entries %r, a fresh Binner has %r" % (steps[1], steps[0], sorted(b.keys()), sorted(f.keys()))}
                for key in f.keys():
                    if not np.array_equal(np.asarray(b[key]), np.asarray(f[key])):
                        return {"reproduced": True, "key": "binner:reuse", "what": "Binner reused (%r after %r): entry %r = %r, a fresh Binner gives %r" % (steps[1], steps[0], key, np.asarray(b[key]).tolist(), np.asarray(f[key]).tolist())}
        return no
    if mode == "fpwstd":
        # the counterexample lives in half precision; in doubles the same effect shows on tied values of any
        # size: the model's values first, then a family of tied bins through histogram(weights=)
        trials = []
        try:
            trials.append((model_float(mdl["v"]), [model_float(mdl["w0"]), model_float(mdl["w1"])]))
        except Exception:
            pass
        rng = np.random.RandomState(3)
        for v in (0.1, 1.0 / 3.0, 1.7, 123.456, 1e6 + 0.1, 3.3e8, 0.7, 2.2e-3):
            for _ in range(25):
                n = int(rng.randint(2, 6))
                trials.append((v, rng.uniform(0.1, 3.0, n).tolist()))
        for v, ws in trials:
            x = np.full(len(ws), v, dtype="f8")
            wmean, werr, wsdev = su.wmom(x, np.array(ws), sdev=True)
            if not np.isfinite(wsdev) or wsdev > 64 * np.finfo("f8").eps * abs(v):
                h = su.histogram(x, weights=np.array(ws), nbin=1, min=v - 1.0, max=v + 1.0, more=True)
                return {"reproduced": True, "key": "ieee:wstd-tied",
                        "what": "a bin of %d tied values %r with weights %r: weighted deviation %r (wmom) / wstd %r (histogram), expected 0 up to a few ulp"
                                % (len(ws), v, ws, float(wsdev), h.get("wstd", [None])[0] if isinstance(h, dict) else None)}
        return no

    def vec(name, default=0.0):
        return np.array([model_float(mdl.get("%s%d" % (name, i), default)) for i in range(N)], dtype="f8")
    x = vec("x")
    y = vec("y") if have_y else None
    w = vec("w", 1.0) if have_w else None
    if have_w and (w <= 0).any():
        return no
    kw = {}
    if limits:
        kw["min"] = model_float(mdl.get("min", 0))
        kw["max"] = model_float(mdl.get("max", 0))
    lo = kw.get("min", x.min())
    hi = kw.get("max", x.max())
    if mode in ("binsize", "histogram_more"):
        kw["binsize"] = model_float(mdl.get("binsize", 1))
        bs = kw["binsize"]
    elif mode == "nbin":
        kw["nbin"] = k
        bs = float(hi - lo) / k
    else:
        kw["nperbin"] = k
        kw["mergelast"] = bool(flag)
    call = "Binner(x=%r%s%s).dohist(%s); calc_stats()" % (
        x.tolist(), ", y=%r" % y.tolist() if have_y else "", ", weights=%r" % w.tolist() if have_w else "",
        ", ".join("%s=%r" % kv for kv in sorted(kw.items())))
    old = su.have_chist
    results = []
    for eng in ((False, True) if old else (False,)):
        su.have_chist = eng
        try:
            if mode == "histogram_more":
                res = su.histogram(x, weights=w, more=True, **kw)
                xpref = ""
            else:
                b = su.Binner(x, y=y, weights=w)
                b.dohist(rev=True, **kw)
                b.calc_stats()
                res = b
                xpref = "x" if have_y else ""
        except ValueError as e:
            su.have_chist = old
            if "No data" in str(e) and not ((x >= lo) & (x <= hi)).any():
                return no
            return {"reproduced": True, "key": "raises", "what": "%s raised %r" % (call, e)}
        finally:
            su.have_chist = old
        results.append((res, xpref))
    for res, xpref in results:
        inr = [j for j in range(N) if lo <= x[j] <= hi]
        s = sorted(inr, key=lambda j: (x[j], j))
        if mode == "nperbin":
            chunks = [s[i:i + k] for i in range(0, len(s), k)]
            if flag and len(chunks) >= 2 and len(chunks[-1]) != k:
                chunks = chunks[:-2] + [chunks[-2] + chunks[-1]]
        else:
            nbin = len(res["hist"])
            chunks = [[j for j in s if 0 <= int(np.floor((x[j] - lo) / bs)) == i] for i in range(nbin)]
        hist = np.asarray(res["hist"]).tolist()
        rev = np.asarray(res["rev"])
        nbin = len(hist)
        if hist != [len(c) for c in chunks]:
            return {"reproduced": True, "key": "hist:" + mode, "what": "%s: hist %r, expected %r" % (call, hist, [len(c) for c in chunks])}
        for i in range(nbin):
            if int(rev[i + 1]) - int(rev[i]) != hist[i] or sorted(rev[rev[i]:rev[i + 1]].tolist()) != sorted(chunks[i]):
                return {"reproduced": True, "key": "rev:" + mode, "what": "%s: rev %r does not give bin %d = %r" % (call, rev.tolist(), i, chunks[i])}

        def close(a, b):
            return np.allclose(np.asarray(a, dtype=float), np.asarray(b, dtype=float), rtol=1e-7, atol=1e-10)
        if mode == "nperbin":
            for i, c in enumerate(chunks):
                if not close(res["low"][i], x[c].min()) or not close(res["high"][i], x[c].max()):
                    return {"reproduced": True, "key": "lowhigh", "what": "%s: low/high of bin %d = %r/%r, members %r" % (call, i, res["low"][i], res["high"][i], x[c].tolist())}
        else:
            for i in range(nbin):
                if not close([res[xpref + "low"][i], res[xpref + "high"][i], res[xpref + "center"][i]], [lo + i * bs, lo + (i + 1) * bs, lo + (i + .5) * bs]):
                    return {"reproduced": True, "key": "edges", "what": "%s: wrong edges/centre for bin %d" % (call, i)}
        for pref, vals in ((xpref, x),) + ((("y", y),) if have_y else ()):
            for i, c in enumerate(chunks):
                got = {q_: res[pref + q_][i] for q_ in ("mean", "std", "err", "median")}
                if not c:
                    if any(v != SENT for v in got.values()):
                        return {"reproduced": True, "key": "sentinel", "what": "%s: empty bin %d has %r" % (call, i, got)}
                    continue
                v = vals[c]
                want = {"mean": v.mean(), "std": v.std(), "median": np.median(v)}
                if len(c) >= 2:
                    want["err"] = v.std() / np.sqrt(len(c))
                for q_, wv in want.items():
                    if not close(got[q_], wv):
                        return {"reproduced": True, "key": "stat:%s%s" % (pref and "v", q_),
                                "what": "%s: %s%s of bin %d (members %r) = %r, direct computation gives %r" % (call, pref, q_, i, v.tolist(), float(got[q_]), float(wv))}
                if have_w:
                    ww = w[c]
                    mu = (ww * v).sum() / ww.sum()
                    wwant = {"whist": ww.sum(), "w%smean" % pref: mu, "w%sstd" % pref: np.sqrt((ww * (v - mu) ** 2).sum() / ww.sum())}
                    if len(c) >= 2:
                        wwant["w%serr" % pref] = 1 / np.sqrt(ww.sum())
                        wwant["w%serr2" % pref] = np.sqrt((ww ** 2 * (v - mu) ** 2).sum()) / ww.sum()
                    for q_, wv in wwant.items():
                        if not close(res[q_][i], wv):
                            return {"reproduced": True, "key": "wstat:%s:%s" % (q_ if q_ == "whist" else q_.replace(pref, "v", 1) if pref else q_, "single" if len(c) == 1 else "multi"),
                                    "what": "%s: %s of bin %d (members %r, weights %r) = %r, direct computation gives %r"
                                            % (call, q_, i, v.tolist(), ww.tolist(), float(res[q_][i]), float(wv))}
    return no


MANIFEST_ENTRY = {
    "engine": "symx",
    "technique": "bounded symbolic execution (symx/z3, nonlinear real arithmetic) of Binner.dohist/calc_stats/_hist_by_num/_merge_last and histogram(more=True) with data, second variable, weights, limits and bin size as solver variables; bin membership from the definition, every per-bin statistic compared with its direct formula (roots on squares), occupancy pattern, low/high and sentinel asserted per path; one Binner reused for two binnings compared with a fresh one (non-interference); the weighted deviation of tied values over z3's FloatingPoint sort (half precision) for NaN-freedom; counterexamples replayed on the real library (both engines)",
    "text": "On every feasible path within the size bound: bin membership follows the definition, edges/centres are min+i*binsize (+1/2), mean/std/median and (n>=2) the standard errors of x and y equal direct computation from the members, whist and the weighted mean/deviation/both errors likewise, empty bins carry -9999; equal-occupancy bins hold exactly nperbin consecutive sorted data (short last bin merged on request), low/high are the extreme members and rev indexes the original array.",
    "note": "N<=3/4, <=3 bins, nperbin 1..N; pure-Python engine (C05 proves the engines identical); single-member bins: error columns unconstrained; floats as reals except one kernel: the weighted deviation of a bin of two tied values is never NaN in IEEE half precision (its size is not decided)",
}
