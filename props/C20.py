"""C20 -- sorts, chunking, progress / parallel wrappers preserve items and order."""
import itertools

from vf import symx, symnp, loader
from vf.symx import sym_and, sym_or, sym_not, SInt, SReal
import z3

PROPERTY = "C20"
LEVEL = "model_checking"
NEEDS_BUILD = False
FUNCTIONS = ([("esutil/algorithm.py", n) for n in ("isplit", "quicksort", "_quicksort", "partition",
                                                    "quicksort_keyvalue", "partition_keyvalue",
                                                    "_quicksort_keyvalue")]
             + [("esutil/numpy_util.py", "splitarray")]
             + [("esutil/pbar.py", n) for n in ("pbar", "_pbar_full", "sbar", "prange", "pmap",
                                                "format_interval", "format_meter", "StatusPrinter", "_pnn")])
ASSUMPTIONS = [
    "list cells / keys are unbounded mathematical integers (or reals); sizes bounded as listed",
    "isplit: num is an unbounded Int >= 0, nchunks concrete in the listed range (it sizes the result)",
    "splitarray: nper is an unbounded Int >= 1",
    "time.time() returns arbitrary non-decreasing reals (fresh solver variable per call)",
    "string formatting of symbolic values is opaque (the comparisons, divisions, int() and divmod around it are executed)",
    "pmap: ProcessPoolExecutor.map is replaced by its documented contract (a length-less iterator yielding fn(x) in input order); real process scheduling is outside the claim",
    "floats are reals",
]
BOUNDS = {"quick": {"sort": "N<=5", "isplit": "nchunks 1..6", "splitarray": "N<=5", "pbar": "items<=2 (simple: 3), total in 1..items+2 or absent, n_bars 0..2"},
          "thorough": {"sort": "N<=6 (keyvalue 6)", "isplit": "nchunks 1..12", "splitarray": "N<=7", "pbar": "items<=3 (simple: 4), total in 1..items+2 or absent, n_bars 0..3"}}
EXPLORE_OPTS = {"max_paths": 300000}
TIER_OPTS = {"quick": {"time_budget": 400}, "thorough": {"time_budget": 3000}}


def configs(tier):
    q = tier == "quick"
    out = []
    for n in range(0, 6 if q else 7):
        out.append(("quicksort", "int", n))
        out.append(("quicksort_kv", "int", n))
    out.append(("quicksort", "real", 4))
    for k in range(1, 7 if q else 13):
        out.append(("isplit", k))
    out.append(("isplit_bad", 0))
    for n in range(0, 6 if q else 8):
        out.append(("splitarray", n))
    out.append(("splitarray_scalar", 1))
    nit = (0, 1, 2, 3) if q else (0, 1, 2, 3, 4)
    for kind in ("list", "gen", "range"):
        for n in nit:
            for simple in (False, True):
                if not simple and n > (2 if q else 3):
                    continue
                out.append(("pbar", kind, n, simple))
    out.append(("prange", 2 if q else 3))
    out.append(("prange_args", 0))
    for n in (0, 1, 2):
        out.append(("pmap", n))
    out.append(("format_meter",))
    out.append(("format_interval",))
    return out


_LD = None


def _mods():
    global _LD
    ld = loader.Loader(stubs={"time": _TimeStub(), "concurrent.futures": _FuturesStub()})
    return ld


class _TimeStub(object):
    """time.time(): arbitrary non-decreasing symbolic instants"""

    def time(self):
        cx = symx.Ctx.current
        k = cx.notes.setdefault("clock", [])
        t = cx.real("t%d" % len(k))
        if k:
            cx.assume(t >= k[-1])
        k.append(t)
        return t

    def sleep(self, s):
        pass


class _Executor(object):
    def __init__(self, max_workers=None):
        self.max_workers = max_workers

    def __enter__(self):
        return self

    def __exit__(self, *a):
        return False

    def map(self, fn, iterable, chunksize=1):
        # documented contract of Executor.map: results in input order, no len()
        return (fn(x) for x in list(iterable))


    def submit(self, fn, *a, **k):
        return _Future(fn(*a, **k))


class _Future(object):
    def __init__(self, r):
        self._r = r

    def result(self, timeout=None):
        return self._r

    def done(self):
        return True

    def add_done_callback(self, cb):
        cb(self)


def _any_order(fs):
    """completion order of concurrently running tasks is the scheduler's choice: every
    permutation is possible (nondeterministic, forked by the path controller)"""
    cx = symx.Ctx.current
    rest = list(fs)
    while rest:
        k = 0
        while k + 1 < len(rest) and cx.nondet("sched"):
            k += 1
        yield rest.pop(k)


class _FuturesStub(object):
    ProcessPoolExecutor = _Executor
    ThreadPoolExecutor = _Executor
    Future = _Future
    FIRST_COMPLETED = "FIRST_COMPLETED"
    ALL_COMPLETED = "ALL_COMPLETED"

    @staticmethod
    def as_completed(fs, timeout=None):
        return _any_order(list(fs))

    @staticmethod
    def wait(fs, timeout=None, return_when="ALL_COMPLETED"):
        return set(fs), set()


class _File(object):
    def __init__(self):
        self.log = []

    def write(self, s):
        self.log.append(s)

    def flush(self):
        pass


class Item(object):
    def __init__(self, i):
        self.i = i

    def __repr__(self):
        return "item%d" % self.i


def _sorted_perm(cx, before, after, what):
    cx.check("%s: same length" % what, len(before) == len(after))
    ids_b = sorted(id(x) if not isinstance(x, (int,)) else ("i", x) for x in before)
    # the sort only moves objects: a permutation of the input terms
    tb = sorted(str(symx.term_of(x)) for x in before)
    ta = sorted(str(symx.term_of(x)) for x in after)
    cx.check("%s: result is a permutation of the input" % what, tb == ta)
    for i in range(len(after) - 1):
        cx.check("%s: result is non-decreasing" % what, after[i] <= after[i + 1])


def harness(cx, cfg):
    what = cfg[0]
    ld = _mods()
    if what in ("quicksort", "quicksort_kv"):
        alg = ld.get("esutil.algorithm")
        kind, n = cfg[1], cfg[2]
        cells = [(cx.int("a%d" % i) if kind == "int" else cx.real("a%d" % i)) for i in range(n)]
        data = list(cells)
        if what == "quicksort":
            alg.quicksort(data)
            _sorted_perm(cx, cells, data, "quicksort")
        else:
            vals = [Item(i) for i in range(n)]
            v = list(vals)
            alg.quicksort_keyvalue(data, v)
            _sorted_perm(cx, cells, data, "quicksort_keyvalue")
            cx.check("quicksort_keyvalue: values are a permutation", sorted(x.i for x in v) == list(range(n)))
            for k, x in zip(data, v):
                cx.check_eq("quicksort_keyvalue: pairs kept together", k, cells[x.i])
        return
    if what == "isplit":
        alg = ld.get("esutil.algorithm")
        k = cfg[1]
        num = cx.int("num", 0)
        subs = alg.isplit(num, k)
        st = subs["start"].tolist()
        en = subs["end"].tolist()
        cx.check("isplit: requested number of ranges", len(st) == k and len(en) == k)
        cx.check_eq("isplit: first range starts at 0", st[0], 0)
        cx.check_eq("isplit: last range ends at num", en[-1], num)
        for i in range(k):
            cx.check("isplit: start <= end", st[i] <= en[i])
            if i + 1 < k:
                cx.check_eq("isplit: ranges are contiguous", en[i], st[i + 1])
                cx.check("isplit: larger chunks first", en[i] - st[i] >= en[i + 1] - st[i + 1])
        cx.check("isplit: sizes differ by at most one", (en[0] - st[0]) - (en[-1] - st[-1]) <= 1)
        return
    if what == "isplit_bad":
        alg = ld.get("esutil.algorithm")
        num = cx.int("num", 0)
        try:
            alg.isplit(num, 0)
        except ValueError:
            cx.check("isplit: nchunks=0 rejected", True)
            return
        cx.fail("isplit accepted nchunks=0")
        return
    if what in ("splitarray", "splitarray_scalar"):
        nu = ld.get("esutil.numpy_util")
        n = cfg[1]
        nper = cx.int("nper", 1)
        cells = [cx.int("a%d" % i) for i in range(n)]
        arr = cells[0] if what == "splitarray_scalar" else symnp.array(cells, dtype="i8")
        chunks = nu.splitarray(nper, arr)
        flat = []
        for ic, c in enumerate(chunks):
            cl = c.tolist()
            if ic + 1 < len(chunks):
                cx.check_eq("splitarray: every chunk but the last has exactly nper elements", len(cl), nper)
            else:
                cx.check("splitarray: last chunk has 1..nper elements", sym_and(len(cl) >= 1, len(cl) <= nper))
            flat.extend(cl)
        cx.check("splitarray: concatenation has the input's length", len(flat) == n)
        if len(flat) == n:
            for a, b in zip(flat, cells):
                cx.check_eq("splitarray: concatenation of the chunks is the input, in order", a, b)
        return
    if what == "prange_args":
        # every way of calling range: prange(stop), prange(start, stop), prange(start, stop, step), the bounds
        # chosen by the solver among small integers (0 included: an explicit stop of 0 is a stop)
        class _Clock(object):
            """a concrete clock: the timing behaviour is decided in the prange / pbar configurations"""
            t = 0.0

            def time(self):
                self.t += 1.0
                return self.t
        pb = loader.Loader(stubs={"time": _Clock(), "concurrent.futures": _FuturesStub()}).get("esutil.pbar")
        f = _File()
        vals = (-3, -1, 0, 1, 2, 4)
        form = cx.choice("form", 3)
        a = vals[cx.choice("a", len(vals))]
        args = (a,)
        if form >= 1:
            args = (a, vals[cx.choice("b", len(vals))])
        if form == 2:
            args = args + ((-2, -1, 1, 2)[cx.choice("step", 4)],)
        kw = {"simple": cx.flag("simple"), "file": f}
        got = list(pb.prange(*args, **kw))
        cx.check("prange(*args) yields exactly range(*args)", got == list(range(*args)), detail=repr(args))
        return
    if what in ("pbar", "prange"):
        pb = ld.get("esutil.pbar")
        f = _File()
        log = []
        if what == "prange":
            n = cfg[1]
            items = list(range(n))
            src = None
            kind = "range"
            simple = cx.flag("simple")
        else:
            kind, n, simple = cfg[1], cfg[2], cfg[3]
            items = [Item(i) for i in range(n)] if kind != "range" else list(range(n))

        def gen():
            for i, it in enumerate(items):
                log.append(("pull", i))
                yield it

        class Lst(list):
            def __iter__(self):
                return gen()
        if kind == "list":
            src = Lst(items)
        elif kind == "gen":
            src = gen()
        else:
            src = range(n)
        kw = {}
        # total: absent, or any integer >= 1 (for a generator under simple=True a total is
        # required by the documentation)
        need_total = (kind == "gen" and simple)
        if need_total or cx.flag("have_total"):
            kw["total"] = cx.int("total", 1, n + 2)
        if cx.flag("have_desc"):
            kw["desc"] = "d"
        kw["leave"] = cx.flag("leave")
        kw["mininterval"] = cx.real("mininterval", 0)
        kw["miniters"] = cx.int("miniters", 0)
        kw["n_bars"] = cx.choice("n_bars", 3 if n <= 3 else 4)
        kw["simple"] = simple
        kw["file"] = f
        if what == "prange":
            it = pb.prange(n, **kw)
        else:
            it = pb.pbar(src, **kw)
        got = []
        for x in it:
            got.append(x)
            log.append(("got", len(got) - 1))
        cx.check("pbar: yields exactly the items of the iterable, in order",
                 len(got) == len(items) and all(a is b or a == b for a, b in zip(got, items)))
        if kind != "range":
            want = []
            for i in range(n):
                want += [("pull", i), ("got", i)]
            cx.check("pbar: lazy, one pull per item interleaved with the yields", log == want)
        return
    if what == "pmap":
        pb = ld.get("esutil.pbar")
        n = cfg[1]
        items = [Item(i) for i in range(n)]
        f = _File()
        kw = {"file": f}
        if cx.flag("have_total"):
            kw["total"] = cx.int("total", 1, n + 2)
        kw["simple"] = False
        kw["leave"] = cx.flag("leave")
        res = pb.pmap(lambda x: ("f", x.i), items, chunksize=cx.int("chunksize", 1), nproc=cx.int("nproc", 1, 8), **kw)
        cx.check("pmap: equals list(map(fn, items))", res == [("f", i) for i in range(n)])
        return
    if what == "format_meter":
        pb = ld.get("esutil.pbar")
        # domain = what the wrappers can pass: before the first item (n=0) no time has
        # elapsed; afterwards n >= 1 and any elapsed time
        n = cx.int("n", 0)
        has_total = cx.flag("have_total")
        total = cx.int("total", 0) if has_total else None
        elapsed = cx.real("elapsed", 0)
        cx.assume(sym_or(n >= 1, elapsed == 0))
        n_bars = cx.choice("n_bars", 4)
        r = pb.format_meter(n, total, elapsed, n_bars=n_bars)
        cx.check("format_meter returns text", isinstance(r, str))
        return
    if what == "format_interval":
        pb = ld.get("esutil.pbar")
        t = cx.real("t", 0)
        r = pb.format_interval(t)
        cx.check("format_interval returns text", isinstance(r, str))
        return
    raise AssertionError(what)


# ----------------------------------------------------------------------------

def conformance():
    """shim vs the real library on concrete inputs"""
    import numpy as np
    import importlib
    import sys
    import io
    sys.path.insert(0, loader.repo())
    try:
        for m in [k for k in sys.modules if k == "esutil" or k.startswith("esutil.")]:
            pass
        ralg = importlib.import_module("esutil.algorithm")
        rnu = importlib.import_module("esutil.numpy_util")
    finally:
        sys.path.pop(0)
    ld = loader.Loader()
    alg = ld.get("esutil.algorithm")
    nu = ld.get("esutil.numpy_util")
    n = 0
    for num in range(0, 23):
        for k in range(1, 8):
            w = ralg.isplit(num, k)
            g = alg.isplit(num, k)
            assert g["start"].tolist() == w["start"].tolist() and g["end"].tolist() == w["end"].tolist(), (num, k)
            n += 1
    rng = np.random.RandomState(5)
    for _ in range(30):
        a = rng.randint(0, 5, rng.randint(0, 8)).tolist()
        b = list(a)
        c = list(a)
        ralg.quicksort(b)
        alg.quicksort(c)
        assert b == c == sorted(a)
        n += 1
    for size in range(1, 9):
        for nper in range(1, 10):
            w = [x.tolist() for x in rnu.splitarray(nper, np.arange(size))]
            g = [x.tolist() for x in nu.splitarray(nper, symnp.arange(size))]
            assert w == g, (size, nper, w, g)
            n += 1
    return n


def slow_first(x):
    """task with per-item latency (first item slowest) so that completion order differs
    from submission order; module level so worker processes can unpickle it"""
    import time
    time.sleep(0.15 * abs(x))      # items are -n..-1: the first is the slowest
    return abs(x)


def replay(cand):
    import io
    import numpy as np
    import esutil.algorithm as alg
    import esutil.numpy_util as nu
    import esutil.pbar as pb
    from vf.symx import model_float
    cfg = cand["cfg"]
    mdl = cand["model"] or {}
    what = cfg[0]
    no = {"reproduced": False, "what": "agrees", "key": None}

    def mv(name, default=None):
        v = mdl.get(name, default)
        return v

    if what in ("quicksort", "quicksort_kv"):
        kind, n = cfg[1], cfg[2]
        a = [model_float(mdl["a%d" % i]) if kind == "real" else int(mdl["a%d" % i]) for i in range(n)]
        d = list(a)
        if what == "quicksort":
            try:
                alg.quicksort(d)
            except Exception as e:
                return {"reproduced": True, "key": "quicksort-raises", "what": "quicksort(%r) raised %r" % (a, e)}
            if d != sorted(a):
                return {"reproduced": True, "key": "quicksort-wrong", "what": "quicksort(%r) -> %r" % (a, d)}
            return no
        v = list(range(n))
        try:
            alg.quicksort_keyvalue(d, v)
        except Exception as e:
            return {"reproduced": True, "key": "quicksort_kv-raises", "what": "quicksort_keyvalue(%r) raised %r" % (a, e)}
        if d != sorted(a) or sorted(v) != list(range(n)) or any(a[v[i]] != d[i] for i in range(n)):
            return {"reproduced": True, "key": "quicksort_kv-wrong",
                    "what": "quicksort_keyvalue(%r, range) -> keys %r values %r" % (a, d, v)}
        return no
    if what in ("isplit", "isplit_bad"):
        k = cfg[1]
        num = int(mdl.get("num", 0))
        if num > 10**12:
            return {"reproduced": False, "what": "num too large to replay", "key": None}
        try:
            s = alg.isplit(num, k)
        except ValueError as e:
            if k <= 0:
                return no
            return {"reproduced": True, "key": "isplit-raises", "what": "isplit(%d,%d) raised %r" % (num, k, e)}
        except Exception as e:
            return {"reproduced": True, "key": "isplit-raises", "what": "isplit(%d,%d) raised %r" % (num, k, e)}
        if k <= 0:
            return {"reproduced": True, "key": "isplit-accepts-0", "what": "isplit(%d,%d) accepted" % (num, k)}
        st, en = s["start"].tolist(), s["end"].tolist()
        sizes = [e - b for b, e in zip(st, en)]
        q, r = divmod(num, k)
        want = [q + 1] * r + [q] * (k - r)
        ok = len(st) == k and st[0] == 0 and en[-1] == num and all(en[i] == st[i + 1] for i in range(k - 1)) and sizes == want
        if not ok:
            return {"reproduced": True, "key": "isplit-wrong", "what": "isplit(%d,%d) -> start %r end %r" % (num, k, st, en)}
        return no
    if what in ("splitarray", "splitarray_scalar"):
        n = cfg[1]
        nper = int(mdl.get("nper", 1))
        a = np.array([int(mdl.get("a%d" % i, 0)) for i in range(n)], dtype="i8")
        arg = a[0] if what == "splitarray_scalar" else a
        try:
            ch = nu.splitarray(nper, arg)
        except Exception as e:
            return {"reproduced": True, "key": "splitarray-raises", "what": "splitarray(%d, %r) raised %r" % (nper, a.tolist(), e)}
        want = [a[i:i + nper].tolist() for i in range(0, n, nper)]
        got = [c.tolist() for c in ch]
        if got != want:
            return {"reproduced": True, "key": "splitarray-wrong", "what": "splitarray(%d, %r) -> %r" % (nper, a.tolist(), got)}
        return no
    if what == "prange_args":
        import io as _io
        import esutil.pbar as pb
        vals = (-3, -1, 0, 1, 2, 4)
        for form in range(3):
            for a in vals:
                for b in (vals if form >= 1 else (None,)):
                    for st in ((-2, -1, 1, 2) if form == 2 else (None,)):
                        args = (a,) if form == 0 else ((a, b) if form == 1 else (a, b, st))
                        for simple in (True, False):
                            got = list(pb.prange(*args, simple=simple, file=_io.StringIO()))
                            if got != list(range(*args)):
                                return {"reproduced": True, "key": "prange:args", "what": "prange%r yields %r, range%r is %r" % (args, got, args, list(range(*args)))}
        return no
    if what in ("pbar", "prange", "pmap", "format_meter", "format_interval"):
        import time as _time
        f = io.StringIO()
        kw = {"file": f}
        if "total" in mdl and mdl.get("have_total", True):
            kw["total"] = int(mdl["total"])
        if mdl.get("have_desc"):
            kw["desc"] = "d"
        if what == "format_meter":
            tot = int(mdl["total"]) if mdl.get("have_total") else None
            try:
                pb.format_meter(int(mdl.get("n", 0)), tot, model_float(mdl.get("elapsed", 0)), n_bars=int(mdl.get("n_bars", 0)))
            except Exception as e:
                return {"reproduced": True, "key": "format_meter-raises-%s" % type(e).__name__,
                        "what": "format_meter(%s, %r, %s, n_bars=%s) raised %r" % (mdl.get("n"), tot, mdl.get("elapsed"), mdl.get("n_bars"), e)}
            return no
        if what == "format_interval":
            try:
                pb.format_interval(model_float(mdl.get("t", 0)))
            except Exception as e:
                return {"reproduced": True, "key": "format_interval-raises", "what": "format_interval raised %r" % (e,)}
            return no
        if what == "pmap":
            n = cfg[1]
            kw["leave"] = bool(mdl.get("leave", True))
            items = list(range(-n, 0))
            # the model's schedule (completion order) is realised by per-item latency:
            # the first item is the slowest, with at least two workers
            for nproc, fn in ((int(mdl.get("nproc", 1)), abs), (max(2, int(mdl.get("nproc", 1))), slow_first)):
                try:
                    r = pb.pmap(fn, items, chunksize=max(1, min(int(mdl.get("chunksize", 1)), 5)),
                                nproc=nproc, **dict(kw, file=io.StringIO()))
                except Exception as e:
                    return {"reproduced": True, "key": "pmap-raises-%s" % type(e).__name__,
                            "what": "pmap(abs, %r, nproc=%d...) raised %r" % (items, nproc, e)}
                if r != list(map(abs, items)):
                    return {"reproduced": True, "key": "pmap-wrong",
                            "what": "pmap(fn, %r, nproc=%d) with the first item slowest -> %r" % (items, nproc, r)}
            return no
        # pbar / prange: replay the clock through a patched time.time
        if what == "prange":
            n = cfg[1]
            kind, simple = "range", bool(mdl.get("simple", False))
        else:
            kind, n, simple = cfg[1], cfg[2], cfg[3]
        kw["leave"] = bool(mdl.get("leave", True))
        kw["mininterval"] = model_float(mdl.get("mininterval", 0))
        kw["miniters"] = int(mdl.get("miniters", 0))
        kw["n_bars"] = int(mdl.get("n_bars", 0))
        kw["simple"] = simple
        ts = []
        i = 0
        while ("t%d" % i) in mdl:
            ts.append(model_float(mdl["t%d" % i]))
            i += 1
        clock = {"i": 0}

        def fake_time():
            j = clock["i"]
            clock["i"] += 1
            if j < len(ts):
                return ts[j]
            return (ts[-1] if ts else 0.0) + 1.0 * (j - len(ts) + 1)
        items = list(range(n))
        log = []

        def gen():
            for k, it in enumerate(items):
                log.append(("pull", k))
                yield it
        src = {"list": items, "gen": gen(), "range": range(n)}[kind]
        orig = pb.time.time
        pb.time.time = fake_time
        try:
            got = []
            try:
                it = pb.prange(n, **kw) if what == "prange" else pb.pbar(src, **kw)
                for x in it:
                    got.append(x)
                    log.append(("got", len(got) - 1))
            except Exception as e:
                return {"reproduced": True, "key": "pbar-raises-%s" % type(e).__name__,
                        "what": "pbar(%s of %d items, %s) raised %s: %s"
                                % (kind, n, {k: v for k, v in kw.items() if k != "file"}, type(e).__name__, e)}
        finally:
            pb.time.time = orig
        if got != items:
            return {"reproduced": True, "key": "pbar-wrong-items", "what": "pbar yielded %r for %r" % (got, items)}
        if kind == "gen":
            want = []
            for k in range(n):
                want += [("pull", k), ("got", k)]
            if log != want:
                return {"reproduced": True, "key": "pbar-not-lazy", "what": "pull/yield interleaving %r" % (log,)}
        return no
    raise AssertionError(what)


MANIFEST_ENTRY = {
    "engine": "symx",
    "technique": "bounded symbolic execution (symx/z3) of the unmodified sort, isplit, splitarray and pbar sources: list cells, num, nper, totals, option flags and every clock reading are solver variables; sortedness/permutation, contiguity/coverage/balance, chunk laws and yield-order/laziness are asserted per path; counterexamples replayed on the real library",
    "text": "Every feasible path of quicksort/quicksort_keyvalue on lists up to the size bound (cells unconstrained), of isplit for an unbounded num and each nchunks in range, of splitarray for an unbounded nper, and of pbar/sbar/prange/pmap over every option combination, total, and non-decreasing clock is shown to satisfy the stated laws; exhaustive in values inside the bound.",
    "note": "sort N<=5/6, nchunks<=6/12, splitarray N<=5/7, pbar items<=3/4 and n_bars<=2/3; string formatting opaque; Executor.map replaced by its ordering contract (process scheduling is outside what a solver can see)",
}
