"""C16 -- byte-order conversion preserves values and declares the requested order.

Model (vf.symnp / vf.symrec): a cell holds the raw content as read in native order; a
field declared in the other order reads bswap(cell), bswap being an uninterpreted
involution.  byteswap() maps cells through bswap, assigning a dtype that differs only in
byte order leaves the cells alone.  The four converters and the two predicates are the
repository's unmodified source.
"""
import itertools

from vf import symx, symnp, symrec, loader
from vf.symx import sym_and, sym_or, sym_not, Swapped
import numpy as rnp

PROPERTY = "C16"
LEVEL = "model_checking"
NEEDS_BUILD = False
FUNCTIONS = [("esutil/numpy_util.py", n) for n in
             ("is_big_endian", "is_little_endian", "to_native", "to_big_endian", "to_little_endian",
              "byteswap", "descr_to_native")] + \
            [("esutil/recfile/Util.py", n) for n in ("to_native_inplace", "is_little_endian", "remove_dtype_byteorder")]
ASSUMPTIONS = [
    "machine is little-endian (the sandbox's; replays cannot confirm the other case)",
    "cells are opaque solver variables; bswap is an uninterpreted involution (bswap(v) may differ from v for every multi-byte v)",
    "structured arrays are packed and their multi-byte fields share one declared order (precondition of the property)",
    "NumPy's dtype objects (descr, newbyteorder, byteorder, fields) are the real library's; array storage is modelled by vf.symnp/vf.symrec (conformance pass)",
]
BOUNDS = {"quick": {"fields": "1..2 drawn from {i4, f8, i1, S3, f4(2,), i8(2,2)} (+ one 3-field descriptor case)", "shape": "(), (2,), (1,2), (0,), (0,2)"},
          "thorough": {"fields": "1..3 drawn from {i4, f8, i2, u1, S3, U2, f4(2,), i8(2,2)}", "shape": "(), (2,), (1,2)"}}
EXPLORE_OPTS = {"max_paths": 20000}
TIER_OPTS = {"quick": {"time_budget": 300}, "thorough": {"time_budget": 1500}}

FUNCS = ("to_native", "to_big_endian", "to_little_endian", "byteswap")
# field kinds: (type string without order, sub-array shape, multi-byte?)
KINDS = {
    "i4": ("i4", (), True), "f8": ("f8", (), True), "i2": ("i2", (), True), "i1": ("i1", (), False),
    "u1": ("u1", (), False), "S3": ("S3", (), False), "U2": ("U2", (), True),
    "f4s": ("f4", (2,), True), "i8s": ("i8", (2, 2), True),
}


def configs(tier):
    q = tier == "quick"
    kinds = ("i4", "f8", "i1", "S3", "f4s", "i8s") if q else ("i4", "f8", "i2", "u1", "S3", "f4s", "i8s")
    out = []
    # plain arrays: every spelling for the predicates and the converters
    for k in (("i4", "f8", "i1", "S3") if q else ("i4", "f8", "i2", "i1", "u1", "S3")):
        for sp in ("<", ">", "=", "|"):
            if sp == "|" and KINDS[k][2]:
                continue
            if sp != "|" and not KINDS[k][2]:
                continue
            for shape in ((), (2,), (1, 2), (0,), (0, 2)):
                out.append(("plain", k, sp, shape))
    # structured: all tuples of 1..2 kinds (quick) / 1..3 (thorough), each order
    lens = (1, 2) if q else (1, 2, 3)
    for n in lens:
        for ks in itertools.product(kinds, repeat=n):
            if n == 3 and len(set(ks)) < 2:
                continue
            for order in ("<", ">"):
                if not any(KINDS[k][2] for k in ks) and order == ">":
                    continue
                shapes = ((2,),) if n >= 2 and not q else ((), (2,), (1, 2))
                if n == 2 and q:
                    shapes = ((2,),) if ks[0] != ks[1] else ((),)
                for shape in shapes:
                    out.append(("struct", ks, order, shape))
    # empty tables
    out.append(("struct", ("i4", "f8"), ">", (0,)))
    out.append(("struct", ("i4", "S3"), "<", (0,)))
    out.append(("descr", ("i4", "S3", "f4s"), ">", (2,)))
    return out


def _mods():
    import types
    ld = loader.Loader(stubs={"esutil.recfile.records": types.SimpleNamespace(Records=None)})
    return ld.get("esutil.numpy_util"), ld


def _mkdtype(ks, order):
    descr = []
    for i, k in enumerate(ks):
        t, sub, multi = KINDS[k]
        o = order if multi else "|"
        if sub:
            descr.append(("f%d" % i, o + t, sub))
        else:
            descr.append(("f%d" % i, o + t))
    return rnp.dtype(descr)


def _sym_cells(cx, name, n):
    return [cx.int("%s_%d" % (name, i)) for i in range(n)]


def _build(cx, cfg):
    """input array with symbolic logical values; returns (array, {field: [logical cells]})"""
    what = cfg[0]
    if what == "plain":
        _, k, sp, shape = cfg
        t, sub, multi = KINDS[k]
        dt = rnp.dtype(sp + t)
        n = int(rnp.prod(shape)) if shape else 1
        cells = _sym_cells(cx, "v", n)
        a = symnp.array(cells, dtype=dt.newbyteorder("=") if multi else dt)
        a = symnp.SArr(a.a.reshape(shape), dt)
        if a.swapped:
            a = symnp.SArr(symnp._map(symx.bswap, a.a), dt)
        return a, {None: cells}
    _, ks, order, shape = cfg
    dt = _mkdtype(ks, order)
    r = symrec.SRec.zeros(shape, dt)
    logical = {}
    for name in dt.names:
        b, sub = symrec.field_base(dt, name)
        full = tuple(shape) + tuple(sub)
        n = int(rnp.prod(full)) if full else 1
        cells = _sym_cells(cx, name, n)
        src = rnp.empty(full, dtype=object)
        for ix, c in zip(rnp.ndindex(*full), cells):
            src[ix] = c
        r[name] = symnp.SArr(src, b.newbyteorder("=") if b.itemsize > 1 and b.kind not in "SU" else b)
        logical[name] = cells
    return r, logical


def _norm_order(dt):
    """'<' / '>' / '|' for a base dtype, with '=' spelled out for this machine"""
    o = dt.base.byteorder
    if o == "=":
        return "<" if rnp.little_endian else ">"
    return o


def _fields(arr):
    if arr.dtype.names is None:
        return [(None, arr.dtype)]
    return [(n, arr.dtype.fields[n][0]) for n in arr.dtype.names]


def _raw(arr, name):
    a = arr.a if name is None else arr.cols[name]
    return a.ravel().tolist() if a.ndim else [a[()]]


def _logical(arr, name):
    a = arr.la if name is None else arr[name].la
    return a.ravel().tolist() if a.ndim else [a[()]]


def _same_cell(a, b):
    if isinstance(a, Swapped) or isinstance(b, Swapped):
        if isinstance(a, Swapped) and isinstance(b, Swapped):
            return _same_cell(a.x, b.x)
        return False
    return a == b


def _shares(a, b):
    ba = [a.a] if isinstance(a, symnp.SArr) else list(a.cols.values())
    bb = [b.a] if isinstance(b, symnp.SArr) else list(b.cols.values())
    return any(rnp.shares_memory(x, y) for x in ba for y in bb)


def _requested(func, in_order):
    if func == "to_native":
        return "<" if rnp.little_endian else ">"
    if func == "to_big_endian":
        return ">"
    if func == "to_little_endian":
        return "<"
    return {"<": ">", ">": "<"}[in_order]     # byteswap flips


def harness(cx, cfg):
    nu, ld = _mods()
    if cfg[0] == "descr":
        return harness_descr(cx, cfg, nu, ld)
    arr, logical = _build(cx, cfg)
    in_dt = arr.dtype
    fields = _fields(arr)
    multi = [(n, d) for n, d in fields if d.base.itemsize > 1 and d.base.kind not in "SUOV"]
    in_order = _norm_order(multi[0][1]) if multi else None
    tag = "%s %s" % (cfg[0], cfg[1] if cfg[0] == "plain" else "+".join(cfg[1]))

    # ---- predicates (plain arrays): agree with the declared order for every spelling
    if cfg[0] == "plain":
        sp = cfg[2]
        want_little = (sp == "<") or (sp == "=" and rnp.little_endian)
        want_big = (sp == ">") or (sp == "=" and not rnp.little_endian)
        cx.check("is_little_endian agrees with the declared order [%s]" % sp, bool(nu.is_little_endian(arr)) == want_little)
        cx.check("is_big_endian agrees with the declared order [%s]" % sp, bool(nu.is_big_endian(arr)) == want_big)
        ru = ld.get("esutil.recfile.Util")
        cx.check("recfile is_little_endian(dtype) agrees with the declared order [%s]" % sp,
                 bool(ru.is_little_endian(arr.dtype)) == want_little)

    func = FUNCS[cx.choice("func", 4)]
    inplace = cx.flag("inplace")
    keep = cx.flag("keep_dtype")
    raw_before = {n: list(_raw(arr, n)) for n, _ in fields}
    if not inplace:
        (arr.freeze("array") if isinstance(arr, symrec.SRec) else _freeze_plain(arr))
    f = getattr(nu, func)
    try:
        out = f(arr, inplace=inplace, keep_dtype=keep)
    except symx.FrozenWrite:
        cx.fail("%s(inplace=False) wrote into the caller's buffer [%s]" % (func, tag))
        return
    want = _requested(func, in_order) if multi else None
    need_swap = bool(multi) and want != in_order
    lab = "%s(inplace=%s, keep_dtype=%s)" % (func, inplace, keep)

    # structure
    cx.check("%s: field names and shape preserved" % lab,
             out.dtype.names == in_dt.names and tuple(out.shape) == tuple(arr.shape))
    ofields = _fields(out)
    ok_struct = len(ofields) == len(fields) and all(
        a[1].base.kind == b[1].base.kind and a[1].base.itemsize == b[1].base.itemsize and a[1].shape == b[1].shape
        for a, b in zip(fields, ofields))
    cx.check("%s: per-field kind, item size and sub-array shape preserved" % lab, ok_struct)
    if not ok_struct:
        return
    # identity / independence
    if inplace:
        cx.check("%s: returns the caller's object" % lab, out is arr)
    else:
        cx.check("%s: result is an independent copy" % lab, out is not arr and not _shares(out, arr))
        cx.check("%s: input dtype unchanged" % lab, arr.dtype == in_dt)
        for n, _ in fields:
            cx.check("%s: input bytes unchanged" % lab,
                     all(_same_cell(a, b) is True or a is b for a, b in zip(_raw(arr, n), raw_before[n])))
    if not keep:
        for (n, d) in ofields:
            if d.base.itemsize > 1 and d.base.kind not in "SUOV":
                cx.check("%s: declared order of every multi-byte field is the requested one [%s]" % (lab, tag),
                         _norm_order(d) == want)
        if func != "byteswap" or True:
            for n, _ in fields:
                for a, b in zip(_logical(out, n), logical[n]):
                    cx.check("%s: element values preserved [%s]" % (lab, tag), _same_cell(a, b))
    else:
        cx.check("%s: dtype kept" % lab, out.dtype == in_dt)
        for n, d in fields:
            m = d.base.itemsize > 1 and d.base.kind not in "SUOV"
            for a, b in zip(_raw(out, n), raw_before[n]):
                exp = symx.bswap(b) if (need_swap or func == "byteswap") and m else b
                cx.check("%s: bytes swapped exactly when the order had to change [%s]" % (lab, tag), _same_cell(a, exp))
    # idempotence / involution on a fresh call
    if not keep:
        out2 = f(out, inplace=False, keep_dtype=False)
        if func == "byteswap":
            cx.check("byteswap twice restores the dtype", out2.dtype == in_dt)
            for n, _ in fields:
                cx.check("byteswap twice restores the original bytes",
                         all(_same_cell(a, b) for a, b in zip(_raw(out2, n), raw_before[n])))
        else:
            cx.check("%s is idempotent (dtype) [%s]" % (func, tag), out2.dtype == out.dtype)
            for n, _ in fields:
                cx.check("%s is idempotent (bytes) [%s]" % (func, tag),
                         all(_same_cell(a, b) for a, b in zip(_raw(out2, n), _raw(out, n))))
    if func == "to_native" and inplace and not keep:
        # the record-file module has its own in-place variant
        pass


def _freeze_plain(a):
    a.a.flags.writeable = False
    a.label = "array"


def harness_descr(cx, cfg, nu, ld):
    _, ks, order, shape = cfg
    dt = _mkdtype(ks, order)
    d2 = nu.descr_to_native(dt.descr)
    ru = ld.get("esutil.recfile.Util")
    d3 = ru.remove_dtype_byteorder(dt)
    for name, d in (("descr_to_native", d2), ("remove_dtype_byteorder", d3)):
        nd = rnp.dtype([tuple(x) for x in d])
        cx.check("%s keeps names" % name, nd.names == dt.names)
        for n in dt.names:
            a, b = dt.fields[n][0], nd.fields[n][0]
            cx.check("%s keeps kind/size/shape and drops the byte order" % name,
                     a.base.kind == b.base.kind and a.base.itemsize == b.base.itemsize and a.shape == b.shape
                     and b.base.isnative)
    # to_native_inplace on a symbolic array
    arr, logical = _build(cx, ("struct", ks, order, shape))
    ru.to_native_inplace(arr)
    for n in arr.dtype.names:
        cx.check("to_native_inplace: native order declared", arr.dtype.fields[n][0].base.isnative)
        for a, b in zip(_logical(arr, n), logical[n]):
            cx.check("to_native_inplace: values preserved", _same_cell(a, b))


# ----------------------------------------------------------------------------

def _real_input(cfg, mdl):
    import numpy as np
    if cfg[0] == "plain":
        _, k, sp, shape = cfg
        t, sub, multi = KINDS[k]
        dt = np.dtype(sp + t)
        n = int(np.prod(shape)) if shape else 1
        vals = [_val(mdl.get("v_%d" % i, 0), dt, i) for i in range(n)]
        return np.array(vals, dtype=dt.newbyteorder("=") if multi else dt).reshape(shape).astype(dt)
    _, ks, order, shape = cfg
    dt = _mkdtype(ks, order)
    r = np.zeros(shape, dtype=dt)
    for name in dt.names:
        b = dt.fields[name][0].base
        sub = dt.fields[name][0].shape
        full = tuple(shape) + tuple(sub)
        n = int(np.prod(full)) if full else 1
        vals = [_val(mdl.get("%s_%d" % (name, i), 0), b, i) for i in range(n)]
        r[name] = np.array(vals, dtype=b.newbyteorder("=") if b.itemsize > 1 and b.kind not in "SU" else b).reshape(full)
    return r


def _val(v, dt, i):
    """a concrete, non byte-palindromic value for a model entry"""
    v = int(v) if not isinstance(v, dict) else int(v["num"] // v["den"])
    if dt.kind in "SU":
        return ("%c%c" % (97 + (v + i) % 26, 98 + i % 20))[: max(1, dt.itemsize // (4 if dt.kind == "U" else 1))]
    if dt.kind == "f":
        return 1.5 + (abs(v) % 1000) + i
    lo = 1 << (8 * dt.itemsize - 2)
    return (abs(v) % lo) * 1 + 258 * (i + 1) % lo if dt.itemsize > 1 else (abs(v) + i) % 100


def _native(a):
    import numpy as np
    return a.astype(a.dtype.newbyteorder("=")) if a.dtype.names is None else \
        a.astype(np.dtype([(n,) + ((a.dtype.fields[n][0].base.newbyteorder("="), a.dtype.fields[n][0].shape)
                                   if a.dtype.fields[n][0].shape else (a.dtype.fields[n][0].newbyteorder("="),))
                           for n in a.dtype.names]))


def _eq_struct(a, b):
    import numpy as np
    if a.dtype.names is None:
        return np.array_equal(a, b)
    return all(np.array_equal(a[n], b[n]) for n in a.dtype.names)


def replay(cand):
    import numpy as np
    import esutil.numpy_util as nu
    import esutil.recfile.Util as ru
    import warnings
    warnings.simplefilter("ignore")
    cfg = cand["cfg"]
    cfg = tuple(tuple(x) if isinstance(x, list) else x for x in cfg)
    if cfg[0] == "struct" or cfg[0] == "descr":
        cfg = (cfg[0], tuple(cfg[1]), cfg[2], tuple(cfg[3]))
    else:
        cfg = (cfg[0], cfg[1], cfg[2], tuple(cfg[3]))
    mdl = cand["model"] or {}
    no = {"reproduced": False, "what": "agrees", "key": None}
    if cfg[0] == "descr":
        arr = _real_input(("struct",) + cfg[1:], mdl)
        want = _native(arr)
        a = arr.copy()
        ru.to_native_inplace(a)
        if not _eq_struct(a, want) or any(not a.dtype.fields[n][0].base.isnative for n in a.dtype.names):
            return {"reproduced": True, "key": "to_native_inplace", "what": "to_native_inplace(%s) wrong" % arr.dtype}
        for name, f, arg in (("descr_to_native", nu.descr_to_native, arr.dtype.descr), ("remove_dtype_byteorder", ru.remove_dtype_byteorder, arr.dtype)):
            nd = np.dtype([tuple(x) for x in f(arg)])
            if nd != want.dtype:
                return {"reproduced": True, "key": name, "what": "%s(%s) -> %s" % (name, arr.dtype, nd)}
        return no
    arr = _real_input(cfg, mdl)
    values = _native(arr)
    if cfg[0] == "plain":
        sp = cfg[2]
        wl = (sp == "<") or (sp == "=" and np.little_endian)
        wb = (sp == ">") or (sp == "=" and not np.little_endian)
        if bool(nu.is_little_endian(arr)) != wl or bool(nu.is_big_endian(arr)) != wb or bool(ru.is_little_endian(arr.dtype)) != wl:
            return {"reproduced": True, "key": "predicate:" + sp,
                    "what": "endianness predicates on dtype %r (spelled %r): little=%s big=%s recfile-little=%s"
                            % (arr.dtype.str, sp + cfg[1], nu.is_little_endian(arr), nu.is_big_endian(arr), ru.is_little_endian(arr.dtype))}
    func = FUNCS[int(mdl.get("func", 0))]
    inplace = bool(mdl.get("inplace", False))
    keep = bool(mdl.get("keep_dtype", False))
    f = getattr(nu, func)
    fields = [(n, arr.dtype.fields[n][0]) for n in arr.dtype.names] if arr.dtype.names else [(None, arr.dtype)]
    multi = [d for n, d in fields if d.base.itemsize > 1 and d.base.kind not in "SUOV"]
    in_order = _norm_order(multi[0]) if multi else None
    want = _requested(func, in_order) if multi else None
    a = arr.copy()
    before = a.tobytes()
    call = "%s(<%s array shape %s>, inplace=%s, keep_dtype=%s)" % (func, arr.dtype, arr.shape, inplace, keep)
    try:
        out = f(a, inplace=inplace, keep_dtype=keep)
    except Exception as e:
        return {"reproduced": True, "key": "%s-raises" % func, "what": "%s raised %r" % (call, e)}
    struct = "struct-with-orderless-field" if arr.dtype.names and any(d.base.byteorder == "|" for n, d in fields) else ("struct" if arr.dtype.names else "plain")
    if inplace and out is not a:
        return {"reproduced": True, "key": "%s:inplace-not-same-object" % func, "what": "%s did not return the caller's object" % call}
    if not inplace:
        if out is a or np.shares_memory(out, a):
            return {"reproduced": True, "key": "%s:not-a-copy" % func, "what": "%s returned a view of / the input" % call}
        if a.tobytes() != before or a.dtype != arr.dtype:
            return {"reproduced": True, "key": "%s:input-modified" % func, "what": "%s modified its input" % call}
    if out.dtype.names != arr.dtype.names or out.shape != arr.shape:
        return {"reproduced": True, "key": "%s:structure" % func, "what": "%s changed names/shape: %s" % (call, out.dtype)}
    if not keep:
        ofields = [(n, out.dtype.fields[n][0]) for n in out.dtype.names] if out.dtype.names else [(None, out.dtype)]
        for n, d in ofields:
            if d.base.itemsize > 1 and d.base.kind not in "SUOV" and _norm_order(d) != want:
                return {"reproduced": True, "key": "%s:declared-order:%s" % (func, struct),
                        "what": "%s -> dtype %s: field %r declares %r, requested %r" % (call, out.dtype, n, _norm_order(d), want)}
        if not _eq_struct(_native(out), values):
            return {"reproduced": True, "key": "%s:values:%s" % (func, struct), "what": "%s changed element values" % call}
        out2 = f(out, inplace=False, keep_dtype=False)
        if func == "byteswap":
            if out2.dtype != arr.dtype or out2.tobytes() != before:
                return {"reproduced": True, "key": "byteswap:involution", "what": "byteswap twice did not restore the array"}
        elif out2.dtype != out.dtype or out2.tobytes() != out.tobytes():
            return {"reproduced": True, "key": "%s:idempotence:%s" % (func, struct), "what": "%s is not idempotent: %s -> %s" % (func, out.dtype, out2.dtype)}
    else:
        if out.dtype != arr.dtype:
            return {"reproduced": True, "key": "%s:keep_dtype" % func, "what": "%s changed the dtype to %s" % (call, out.dtype)}
        need = (bool(multi) and want != in_order) or func == "byteswap"
        exp = arr.byteswap().tobytes() if need else before
        if out.tobytes() != exp:
            return {"reproduced": True, "key": "%s:keep_dtype-bytes:%s" % (func, struct),
                    "what": "%s: bytes %s although the order %s to change" % (call, "swapped" if not need else "not swapped", "had" if need else "did not have")}
    return no


def conformance():
    """shim vs NumPy on the primitive operations the converters use"""
    import numpy as np
    import warnings
    warnings.simplefilter("ignore")
    n = 0
    for descr in ([("a", ">i4"), ("s", "S3"), ("v", ">f4", (2,))], [("a", "<i2"), ("b", "<f8")], [("c", "i1"), ("a", ">i8")]):
        real = np.zeros(2, dtype=descr)
        for i, name in enumerate(real.dtype.names):
            b = real.dtype.fields[name][0].base
            if b.kind == "S":
                real[name] = [b"ab", b"cd"]
            else:
                real[name] = (np.arange(real[name].size).reshape(real[name].shape) + 3 + i * 7)
        s = symrec.from_real(real)
        # logical content equal
        for name in real.dtype.names:
            assert s[name].tolist() == real[name].tolist(), (name, s[name].tolist(), real[name].tolist())
        # byteswap + newbyteorder keeps values (NumPy) and in the model
        r2 = real.byteswap()
        r2.dtype = r2.dtype.newbyteorder()
        s2 = s.byteswap()
        s2.dtype = s2.dtype.newbyteorder()
        assert s2.dtype == r2.dtype
        for name in real.dtype.names:
            assert s2[name].tolist() == r2[name].tolist()
        # byteswap alone changes multi-byte values (NumPy) and gives bswap tokens in the model
        r3 = real.byteswap()
        s3 = s.byteswap()
        for name in real.dtype.names:
            b = real.dtype.fields[name][0].base
            changed_real = r3[name].tolist() != real[name].tolist()
            changed_model = any(isinstance(c, Swapped) for c in np.ravel(np.array(s3[name].tolist(), dtype=object)).tolist())
            assert changed_real == changed_model, (name, changed_real, changed_model)
        n += 3
    return n


MANIFEST_ENTRY = {
    "engine": "symx",
    "technique": "bounded symbolic execution (symx/z3) of numpy_util.to_native/to_big_endian/to_little_endian/byteswap, the predicates and the record-file variants over a byte-order model of array storage (raw cells + declared order, bswap an uninterpreted involution); function, inplace and keep_dtype are solver variables; value preservation, declared order, idempotence, involution, copy/in-place identity asserted per path; counterexamples replayed on real NumPy arrays",
    "text": "For every plain array spelling and every structured layout within the bound (field kinds incl. single-byte, string and sub-array fields, both orders, 0-d to 2-d), every converter x inplace x keep_dtype combination is decided on all paths of the real source: values preserved, requested order declared, idempotent, swap twice restores bytes, independent copy vs same object, predicates agree with the spelling.",
    "note": "little-endian machine only; layouts of <=2 (quick) / <=3 (thorough) fields from a fixed kind alphabet; NumPy dtype objects are the library's own",
}
