"""C01 -- binary record files reproduce the written table bit-for-bit (framing and data path).

What the property rests on in this code base, and what is decided here:
  * records.cpp (interpreted from clang's AST, vf.castxx): read_sfile_header returns
    exactly the header bytes and the data offset for *every* header body (symbolic
    bytes) framed by the writer's END line; write_header_and_update_offset writes the
    text verbatim and records its length; update_row_count rewrites only the fixed-width
    SIZE line; Write appends the array buffer at the end of the file; the binary readers
    deliver file byte (offset + row*rowsize + j) to output byte (row, j) (whole-table read
    = slice 0:n:1, decided with C02's cursor harnesses).
  * sfile.py / recfile (vf.symx over the virtual file): only the reserved keys are removed
    from / added to the user header, the header dictionary and dtype description survive
    the pprint -> text -> eval round trip for tricky texts (concrete library behaviour),
    the low-level reader's row count is (file size - offset) / row size.
"""
import pprint

from vf import symx, symnp, symrec, loader, recmodel
from vf.symx import sym_and, sym_or, sym_not, is_sym
import numpy as rnp
from props import recxx

PROPERTY = "C01"
LEVEL = "model_checking"
NEEDS_BUILD = True
FUNCTIONS = [("esutil/sfile.py", n) for n in ("SFile._make_header", "SFile._write_header", "SFile._get_size_string", "SFile.read_header",
                                              "SFile._extract_size_from_string", "SFile.get_nrows", "SFile.open", "write", "read", "read_header")] + \
            [("esutil/recfile/Util.py", n) for n in ("Recfile.open", "Recfile._count_nrows", "Recfile.read", "Recfile._read_binary_slice")]
ASSUMPTIONS = [
    "header bodies are arbitrary byte strings over 1..127 of bounded length that do not themselves contain the framing line (newline END newline) -- the Python layer writes repr()-quoted text, so a bare END line cannot occur in a body",
    "stdio is an abstract FILE (byte cells + position); data rows are opaque byte tokens, so bit-for-bit equality of rows is equality of tokens (NaN payloads, -0.0, embedded NULs are covered because bytes are never interpreted)",
    "pprint.pformat / eval of literal dictionaries and numpy.dtype(descr) are library behaviour, exercised concretely on a list of tricky headers",
    "numpy C-API accessors, PyArg parsing and get_object_as_string are intrinsics",
]
BOUNDS = {"quick": {"header body": "0..6 symbolic bytes", "rows": "<=4, row size 3..6 bytes"},
          "thorough": {"header body": "0..9 symbolic bytes", "rows": "<=5"}}
EXPLORE_OPTS = {"max_paths": 60000}
TIER_OPTS = {"quick": {"time_budget": 300}, "thorough": {"time_budget": 2400}}

TRICKY = [
    {"note": "the END", "END": 1, "SIZE": "SIZE = 3"},
    {"q": "it's \"quoted\"", "nl": "line1\nEND\nline2", "b": b"by\x00tes", "none": None, "t": (1, 2.5, [True, {"k": "v"}])},
    {"percent": "100% of %s and %d", "long": "x" * 200, "f": -0.0, "big": 2 ** 70},
    {"observer": "Ångström, José", "\u03b1": [1, "\u03b2\u03b3"], "note": "d\u00e9c \u2264 90\u00b0"},
]
DESCRS = [
    [("END", "<i4"), ("SIZE", ">f8"), ("x_END_y", "S5")],
    [("a", "<u1"), ("b", ">i2", (2,)), ("c", "<c16"), ("d", "?"), ("e", "<f4", (2, 3))],
    [("p", ">i4"), ("q", ">f8"), ("r", ">u2", (2,))],
]


def configs(tier):
    q = tier == "quick"
    out = []
    for L in (range(0, 7) if q else range(0, 10)):
        out.append(("xx_read_header", L))
    for L in ((1, 2, 3) if q else (1, 2, 3, 4, 5)):
        out.append(("xx_write_header", L))
    for n in (1, 2):
        out.append(("xx_update_row_count", n))
        for k in (1, 2):
            out.append(("xx_write_binary", n, k))
    for sizes in ((2, 1, 3), (4,), (1, 1)):
        out.append(("xx_whole_table", 3 if q else 4, sizes))
    for i in range(len(TRICKY)):
        for j in range(len(DESCRS)):
            out.append(("py_header_roundtrip", i, j))
    out.append(("py_make_header",))
    out.append(("py_count_nrows",))
    for how in ("sfile.write", "SFile.write", "Recfile.write"):
        for layout in ("contiguous", "every-other-row", "reversed"):
            out.append(("py_write_layout", how, layout))
    return out


def extra_functions():
    return recxx.functions()


def _env():
    vfs = recmodel.VFS()
    mod = recmodel.make_module(vfs)

    class OsPath(object):
        exists = staticmethod(lambda p: vfs.exists(p))
        expanduser = staticmethod(lambda p: p)
        expandvars = staticmethod(lambda p: p)

    class Os(object):
        path = OsPath
    ld = loader.Loader(stubs={"esutil.recfile.records": mod, "os": Os, "os.path": OsPath}, builtin_overrides={"open": recmodel.make_open(vfs)})
    return vfs, ld


def harness(cx, cfg):
    what = cfg[0]
    if what == "xx_read_header":
        return recxx.h_read_header(cx, cfg[1])
    if what == "xx_write_header":
        return recxx.h_write_header(cx, cfg[1])
    if what == "xx_update_row_count":
        return recxx.h_update_row_count(cx, cfg[1])
    if what == "xx_write_binary":
        return recxx.h_write_binary(cx, cfg[1], cfg[2])
    if what == "xx_whole_table":
        # whole-table read = slice 0:n:1 through the same reader
        _, n, sizes = cfg
        hdr, data, rowsize = recxx._table_file(n, sizes, 6)
        from vf import castxx
        f = castxx.CFile(hdr + data, pos=cx.choice("pos", 3))
        offs = [sum(sizes[:i]) for i in range(len(sizes))]
        I = recxx.interp({"mFptr": f, "mAction": recxx.READ, "mFileType": 0, "mFileOffset": len(hdr), "mNrows": n, "mRowSize": rowsize,
                          "mSizes": list(sizes), "mOffsets": offs, "mNfields": len(sizes)})
        out = recxx.OutArr(n, rowsize)
        I.method("read_binary_slice", out, 0, n, 1)
        cx.check("whole-table read delivers every byte of every row to its place", out.region.cells == data)
        return
    vfs, ld = _env()
    sf = ld.get("esutil.sfile")
    if what == "py_header_roundtrip":
        hdr_user = TRICKY[cfg[1]]
        descr = DESCRS[cfg[2]]
        dt = rnp.dtype(descr)
        n = 2
        t = symrec.SRec.zeros((n,), dt)
        for name in dt.names:
            b, sub = symrec.field_base(dt, name)
            full = (n,) + tuple(sub)
            src = rnp.empty(full, dtype=object)
            for ix in rnp.ndindex(*full):
                src[ix] = cx.int("c_%s_%s" % (name, "_".join(map(str, ix))))
            t[name] = symnp.SArr(src, b.newbyteorder("=") if b.itemsize > 1 and b.kind not in "SU" else b)
        sf.write(t, "/virtual/h.rec", header=dict(hdr_user))
        h = sf.read_header("/virtual/h.rec")
        for k, v in hdr_user.items():
            cx.check("every user key comes back with an equal value", k in h and h[k] == v and type(h[k]) is type(v))
        cx.check("row count in the header = rows written", h.get("_SIZE") == n)
        cx.check("dtype description reconstructs the dtype (names, types, shapes, byte order)", rnp.dtype(h.get("_DTYPE")) == dt)
        back = sf.read("/virtual/h.rec")
        cx.check("read back: same dtype", isinstance(back, symrec.SRec) and back.dtype == dt and back.size == n)
        if isinstance(back, symrec.SRec) and back.dtype == dt:
            for name in dt.names:
                a, b_ = back[name].a.ravel().tolist(), t[name].a.ravel().tolist()
                cx.check("read back: identical raw cells in every row", len(a) == len(b_) and all(x is y or x == y for x, y in zip(a, b_)))
        return
    if what == "py_write_layout":
        # the table as the caller holds it: contiguous, or a strided view of a larger table
        from vf import recmodel
        _, how, layout = cfg
        dt = rnp.dtype(DESCRS[0])
        n = 4
        t = symrec.SRec.zeros((n,), dt)
        for name in dt.names:
            b, sub = symrec.field_base(dt, name)
            full = (n,) + tuple(sub)
            src = rnp.empty(full, dtype=object)
            for ix in rnp.ndindex(*full):
                src[ix] = cx.int("c_%s_%s" % (name, "_".join(map(str, ix))))
            t[name] = symnp.SArr(src, b.newbyteorder("=") if b.itemsize > 1 and b.kind not in "SU" else b)
        v = {"contiguous": t, "every-other-row": t[::2], "reversed": t[::-1]}[layout]
        rf = ld.get("esutil.recfile")
        try:
            if how == "sfile.write":
                sf.write(v, "/virtual/l.rec")
            elif how == "SFile.write":
                with sf.SFile("/virtual/l.rec", mode="w") as h:
                    h.write(v)
            else:
                with rf.Recfile("/virtual/l.rec", mode="w") as r:
                    r.write(v)
        except recmodel.ContractViolation as e:
            cx.fail("%s of a table that is a %s view: %s" % (how, layout, e))
            return
        back = sf.read("/virtual/l.rec") if how != "Recfile.write" else rf.Recfile("/virtual/l.rec", mode="r", dtype=dt, nrows=v.size).read()
        cx.check("%s (%s view): rows read back are the rows of the view" % (how, layout), isinstance(back, symrec.SRec) and back.size == v.size)
        if isinstance(back, symrec.SRec) and back.size == v.size:
            for name in dt.names:
                a, b_ = back[name].a.ravel().tolist(), v[name].a.ravel().tolist()
                cx.check("%s (%s view): identical raw cells in every row" % (how, layout), len(a) == len(b_) and all(x is y or x == y for x, y in zip(a, b_)))
        return
    if what == "py_make_header":
        s = sf.SFile()
        s._delim = None
        dt = rnp.dtype(DESCRS[0])
        t = symrec.SRec.zeros((1,), dt)
        reserved = ["_size", "_nrows", "_delim", "_shape", "_has_fields"]
        user = {"size": 1, "shape": (2,), "NROWS": 3, "Delim": ",", "x": 5, "_mine": 6}
        for r in reserved:
            user[r] = 0
            user[r.upper()] = 0
        h = s._make_header(t, header=user)
        for k in ("size", "shape", "NROWS", "Delim", "x", "_mine"):
            cx.check("only the reserved underscore names are removed from the user header", k in h and h[k] == user[k])
        for r in reserved:
            cx.check("reserved names do not survive from the user header", r not in h and (r.upper() not in h or r.upper() in ("_DELIM",)))
        cx.check("the dtype description and version are added", h.get("_DTYPE") == dt.descr and "_VERSION" in h)
        cx.check("the user's dictionary is not modified", "_size" in user)
        return
    if what == "py_count_nrows":
        ru = ld.get("esutil.recfile.Util")
        offset = cx.int("offset", 0, 500)
        rowsize = cx.choice("rowsize", 3) * 4 + 4
        nrows = cx.int("nrows", 0, 50)
        size = offset + nrows * rowsize

        class F(object):
            def __init__(self, *a, **k):
                self.pos = 0

            def __enter__(self):
                return self

            def __exit__(self, *a):
                return False

            def seek(self, off, whence=0):
                self.pos = off if whence == 0 else size + off

            def tell(self):
                return self.pos
        r = ru.Recfile.__new__(ru.Recfile)
        r.filename, r.offset, r.delim = "/virtual/x", offset, None
        r.dtype = rnp.dtype([("a", "V%d" % rowsize)])
        ru.__dict__["__builtins__"]["open"] = F
        got = r._count_nrows()
        cx.check_eq("row count of a binary file = (size - data offset) / row size", got, nrows)
        return
    raise AssertionError(cfg)


# ----------------------------------------------------------------------------

def replay(cand):
    """whatever the candidate, the real library is driven through the public API with the
    inputs the symbolic model points at (END/percent in header text, appends, offsets)"""
    import numpy as np
    import os
    import tempfile
    import shutil
    import warnings
    warnings.simplefilter("ignore")
    import esutil.sfile as sfile
    import esutil.recfile as recfile
    import esutil.io as eio
    cfg = cand["cfg"]
    what = cfg[0]
    no = {"reproduced": False, "what": "agrees", "key": None}
    d = tempfile.mkdtemp(prefix="c01-")
    try:
        def table(descr, n=3):
            t = np.zeros(n, dtype=descr)
            rs = np.random.RandomState(5)
            raw = rs.randint(0, 256, t.nbytes).astype("u1")
            t.view("u1")[:] = raw
            for nm in t.dtype.names:
                if t.dtype.fields[nm][0].base.kind == "b":
                    t[nm] = t[nm].view("u1") & 1
            return t

        def roundtrip(hdr_user, descr, tag):
            fn = os.path.join(d, "r_%s.rec" % tag)
            t = table(descr)
            sfile.write(t, fn, header=dict(hdr_user) if hdr_user is not None else None)
            try:
                back, h = sfile.read(fn, header=True)
            except Exception as e:
                return "reading back a table written with header %r raised %s: %s" % (hdr_user, type(e).__name__, e)
            if back.dtype != t.dtype or back.tobytes() != t.tobytes():
                return "table written with header %r / dtype %r does not come back bit-for-bit (dtype %r)" % (hdr_user, t.dtype.descr, back.dtype.descr)
            for k, v in (hdr_user or {}).items():
                if k not in h or h[k] != v:
                    return "user header key %r = %r came back as %r" % (k, v, h.get(k))
            if h["_SIZE"] != t.size or np.dtype(h["_DTYPE"]) != t.dtype:
                return "header row count / dtype wrong: %r %r" % (h["_SIZE"], h["_DTYPE"])
            with sfile.SFile(fn) as s:
                off, dt = s._data_start, s._dtype
            with recfile.Recfile(fn, mode="r", dtype=dt, offset=off) as r:
                if r.nrows != t.size:
                    return "Recfile(offset=%d) counts %d rows, %d were written" % (off, r.nrows, t.size)
                b2 = r.read()
            if b2.tobytes() != t.tobytes():
                return "low-level reader does not return the written bytes"
            b3 = eio.read(fn)
            if b3.tobytes() != t.tobytes():
                return "generic front end does not return the written bytes"
            return None
        if what == "xx_read_header":
            # rows that begin with the newline byte (or any byte the model picked): the header ends where it ends
            from vf.symx import model_float as _mfl
            d0 = int(_mfl((cand.get("model") or {}).get("d0", 10)))
            for first in sorted({d0 % 256, 10}):
                t = np.zeros(3, dtype=[("a", "u1"), ("b", "<i4")])
                t["a"] = [first, 10, 7]
                t["b"] = [10, 2570, -1]
                fn = os.path.join(d, "nl_%d.rec" % first)
                sfile.write(t, fn, header={"k": 1})
                try:
                    back, h = sfile.read(fn, header=True)
                except Exception as e:
                    return {"reproduced": True, "key": "header-offset", "what": "a table whose first row begins with byte %d: reading back raised %s: %s" % (first, type(e).__name__, str(e)[:200])}
                if back.tobytes() != t.tobytes() or h.get("k") != 1:
                    return {"reproduced": True, "key": "header-offset", "what": "a table whose first row begins with byte %d does not come back bit-for-bit" % first}
        if what in ("xx_read_header", "py_header_roundtrip", "py_make_header"):
            for i, hu in enumerate([{"note": "the END"}, {"END": 1}, {"k": "xENDy"}, None] + TRICKY):
                for j, descr in enumerate(DESCRS + [[("x", "<i4")]]):
                    msg = roundtrip(hu, descr, "%d_%d" % (i, j))
                    if msg:
                        key = "header-END" if (hu and ("END" in repr(hu))) or "END" in repr(descr) else "roundtrip"
                        return {"reproduced": True, "key": key, "what": msg}
            return no
        if what == "py_write_layout":
            _, how, layout = cfg
            big = table(DESCRS[1], 6)
            v = {"contiguous": big, "every-other-row": big[::2], "reversed": big[::-1]}[layout]
            want = np.ascontiguousarray(v)
            fn = os.path.join(d, "l.rec")
            if how == "sfile.write":
                sfile.write(v, fn)
            elif how == "SFile.write":
                with sfile.SFile(fn, mode="w") as h:
                    h.write(v)
            else:
                with recfile.Recfile(fn, mode="w") as r:
                    r.write(v)
            if how == "Recfile.write":
                with recfile.Recfile(fn, mode="r", dtype=v.dtype, nrows=v.size) as r:
                    back = r.read()
            else:
                back = sfile.read(fn)
            if back.tobytes() != want.tobytes():
                return {"reproduced": True, "key": "write:non-contiguous",
                        "what": "%s of a table that is a %s view of a larger one: the file holds %s = %r, the view has %r"
                                % (how, layout, back.dtype.names[0], back[back.dtype.names[0]].tolist(), want[want.dtype.names[0]].tolist())}
            return no
        if what == "xx_write_header":
            for i, hu in enumerate([{"p": "100%"}, {"p": "%s"}, {"p": "%%"}, {"p": "a%db"}]):
                msg = roundtrip(hu, DESCRS[1], "p%d" % i)
                if msg:
                    return {"reproduced": True, "key": "header-percent", "what": msg}
            return no
        if what in ("xx_update_row_count", "xx_write_binary", "xx_whole_table"):
            fn = os.path.join(d, "a.rec")
            t1, t2 = table(DESCRS[1], 2), table(DESCRS[1], 3)
            sfile.write(t1, fn, header={"k": 1})
            with sfile.SFile(fn, "r+") as s:
                _ = s[0:1]
                s.write(t2)
            back, h = sfile.read(fn, header=True)
            if back.tobytes() != np.concatenate([t1, t2]).tobytes() or h["_SIZE"] != 5 or h.get("k") != 1:
                return {"reproduced": True, "key": "append-after-read", "what": "read then write on one r+ handle: file holds %d rows (header %r)" % (back.size, h.get("_SIZE"))}
            return no
        if what == "py_count_nrows":
            msg = roundtrip({"pad": "x" * 40}, [("a", "<i2")], "cnt")
            if msg:
                return {"reproduced": True, "key": "count-nrows", "what": msg}
            return no
    finally:
        shutil.rmtree(d, ignore_errors=True)
    raise AssertionError(what)


MANIFEST_ENTRY = {
    "engine": "castxx+symx",
    "technique": "records.cpp interpreted symbolically from clang's JSON AST (vf.castxx/z3) over an abstract FILE: read_sfile_header on every header body of bounded length with symbolic bytes, write_header_and_update_offset on symbolic text (format handling included), update_row_count and Write from an arbitrary file position, whole-table read as byte-token delivery; the Python header logic (reserved keys, row count from file size) executed symbolically (vf.symx) over the virtual file, header/dtype text round trip exercised concretely; counterexamples are replayed through sfile/recfile/io on real files",
    "text": "For every header body up to the bound (bytes symbolic) framed by the writer's END line the C++ reader returns exactly those bytes and the right data offset; the writer stores header text verbatim with offset = its length; the row count rewrite touches only the fixed-width SIZE line and returns to the end; Write appends the buffer at the end from any position; the reader delivers each file byte of each row to its place (rows are opaque byte tokens: bit-for-bit); only reserved keys are dropped/added by the header builder and the row count of a binary file is (size - offset)/rowsize for symbolic sizes.",
    "note": "header bodies <= 6/9 bytes; <=4/5 rows; pprint/eval/np.dtype round trip of literal dictionaries is library behaviour exercised on a fixed list of tricky headers and dtypes; text files are C04 (not applicable)",
}
