"""C08 -- angular separations equal the true great-circle angle (algebraic level)."""
import math
import fractions

from vf import symx, symnp, loader, trig
from vf.symx import sym_and, sym_or, sym_not, sym_ite, is_sym, SReal
import z3

PROPERTY = "C08"
LEVEL = "model_checking"
NEEDS_BUILD = False
FUNCTIONS = [("esutil/coords.py", n) for n in ("sphdist", "gcirc", "eq2xyz", "_thetaphi2xyz")]
ASSUMPTIONS = [
    "floats are reals: every accuracy figure of the statement (1e-11 / 2e-6 degree, conditioning near 0 and 180 degrees) is outside the claim; what is decided is that the returned angle is algebraically the great-circle angle",
    "sin/cos are algebraised (pair per angle atom with s^2+c^2=1, addition formulas), arcsin/arccos return angles with the defining pair and range (vf.trig); side conditions |u| <= 1 are proof obligations",
    "latitudes in [-90, 90]: cos(dec) >= 0 is assumed for the input atoms",
    "array lengths: scalar, 1, 2, 3",
]
BOUNDS = {"quick": {"N": "scalar, 1, 3", "units": "deg (gcirc); deg/deg and rad/rad (sphdist)"},
          "thorough": {"N": "scalar, 1, 2, 3", "units": "all four unit combinations"}}
EXPLORE_OPTS = {"max_paths": 4000, "query_timeout_ms": 5000, "feas_timeout_ms": 2000}
TIER_OPTS = {"quick": {"time_budget": 240}, "thorough": {"time_budget": 1800, "query_timeout_ms": 60000, "feas_timeout_ms": 5000}}


def configs(tier):
    q = tier == "quick"
    out = []
    for n in ((0, 1, 3) if q else (0, 1, 2, 3)):
        out.append(("gcirc", n, ("deg", "rad")))
        for units in ((("deg", "deg"), ("rad", "rad")) if q else (("deg", "deg"), ("rad", "rad"), ("deg", "rad"), ("rad", "deg"))):
            if n > 1 and units != ("deg", "deg"):
                continue
            if q and ((n == 0 and units != ("deg", "deg")) or (n == 1 and units == ("deg", "deg"))):
                continue
            out.append(("sphdist", n, units))
    if q:
        out.append(("sphdist", 1, ("deg", "rad")))
        out.append(("sphdist", 0, ("rad", "deg")))
    out.append(("gcirc_same", 1, ("deg", "rad")))
    out.append(("gcirc_shared", 1, ("deg", "rad")))
    out.append(("sphdist_same", 1, ("deg", "deg")))
    out.append(("gcirc_shift360", 0, ("deg", "rad")))
    if not q:
        out.append(("sphdist_shift360", 0, ("deg", "deg")))
    out.append(("eq2xyz", 1, ("deg", "deg")))
    out.append(("fpclip", 1, ("deg", "rad")))
    return out


COMPANIONS = [[10.0, 20.0, 190.0, -20.0], [30.0, 40.0, 30.0, 40.0]]


class _UnitVectors(object):
    """contract of eq2xyz (proved in the 'eq2xyz' configuration): one unit vector per
    (lon, lat), equal inputs give the same vector, returned as three float arrays"""

    def __init__(self, cx):
        self.cx = cx
        self.memo = {}
        self.calls = []

    def __call__(self, ra, dec, dtype="f8", units="deg", stomp=False):
        ra = symnp.array(ra, ndmin=1, copy=True)
        dec = symnp.array(dec, ndmin=1, copy=True)
        xs, ys, zs = [], [], []
        for a, d in zip(ra.tolist(), dec.tolist()):
            key = (repr(a), repr(d), units)
            v = self.memo.get(key)
            if v is None:
                if isinstance(a, trig.SAng) or isinstance(d, trig.SAng):
                    k = len(self.memo)
                    v = tuple(self.cx.real("%s%d" % (c, k)) for c in "xyz")
                    self.cx.assume(v[0] * v[0] + v[1] * v[1] + v[2] * v[2] == 1)
                    self.cx.rules.append((v[2].t, 2, symx.real_term(1 - v[0] * v[0] - v[1] * v[1])))
                else:
                    a_, d_ = (math.radians(a), math.radians(d)) if units == "deg" else (a, d)
                    v = (math.cos(a_) * math.cos(d_), math.sin(a_) * math.cos(d_), math.sin(d_))
                self.memo[key] = v
            self.calls.append(v)
            xs.append(v[0])
            ys.append(v[1])
            zs.append(v[2])
        return symnp.array(xs, dtype="f8"), symnp.array(ys, dtype="f8"), symnp.array(zs, dtype="f8")


def _points(cx, n, unit):
    pts = []
    for i in range(1):
        p = []
        for nm in ("ra1", "dec1", "ra2", "dec2"):
            a = trig.angle("%s_%d" % (nm, i), unit=unit) if nm.startswith("ra") else trig.angle("%s_%d" % (nm, i), -90, 90, unit=unit)
            if nm.startswith("dec"):
                s, c = trig.pair("%s_%d" % (nm, i))
                cx.assume(c >= 0)          # |dec| <= 90
            p.append(a)
        pts.append(p)
    # longer arrays: one symbolic pair plus concrete companions (an antipodal pair that takes
    # the large-angle branch and an identical pair), so that the array machinery is
    # exercised at length 2 and 3 while the algebra stays that of one pair
    for comp in COMPANIONS[: max(0, n - 1)]:
        pts.append([v if unit == "deg" else math.radians(v) for v in comp])
    return pts


def _vec(ra, dec):
    if not isinstance(ra, trig.SAng):
        raise TypeError("concrete point")
    sr, cr = trig.sincos(ra if ra.k == 0 else trig.deg2rad(ra))
    sd, cd = trig.sincos(dec if dec.k == 0 else trig.deg2rad(dec))
    return cr * cd, sr * cd, sd


def _dot(p, uv=None):
    if uv is not None:
        v1, v2 = uv
    else:
        v1, v2 = _vec(p[0], p[1]), _vec(p[2], p[3])
    return v1[0] * v2[0] + v1[1] * v2[1] + v1[2] * v2[2]


def _args(pts, n):
    if n == 0:
        return list(pts[0])
    return [symnp.array([p[j] for p in pts]) for j in range(4)]


def _ite_leaf(t):
    """the non-constant leaf of nested if-then-else clipping terms"""
    stack = [t]
    while stack:
        e = stack.pop()
        if z3.is_app_of(e, z3.Z3_OP_ITE):
            stack.extend(e.children()[1:])
        elif not z3.is_rational_value(z3.simplify(e)):
            return e
    return t


def _check_sep(cx, what, r, p, out_unit, uv=None):
    """r: returned separation for point pair p"""
    if not isinstance(p[0], trig.SAng):
        # concrete companion: compare with the true separation
        want = _true_sep(*[(v if isinstance(p[0], float) and False else v) for v in p]) if True else None
        if isinstance(r, trig.SAng):
            if r.form:
                return      # concrete trigonometry went through constant atoms: nothing to decide here (replay covers it)
            got = float(r.const) if r.k == 1 else float(r.const)
        else:
            got = math.degrees(float(r)) if out_unit == "rad" else float(r)
        cx.check("%s: companion pair has its true separation" % what, abs(got - want) < 1e-6)
        return
    if not isinstance(r, trig.SAng):
        if is_sym(r):
            cx.check("%s: result is an angle" % what, False)
            return
        # a concrete number: only the documented exact zero for identical inputs
        same = sym_and(p[0] == p[2], p[1] == p[3])
        cx.check("%s: concrete result only for identical inputs" % what, same if float(r) == 0.0 else False)
        return
    want_k = 1 if out_unit == "deg" else 0
    cx.check("%s: result is in the requested units" % what, r.k == want_k)
    if r.k != want_k:
        return
    full = 180
    d = r.deg_term()
    cx.check("%s: result lies in [0, 180] degrees" % what, symx.wrap(z3.And(d >= 0, d <= full)))
    rad = trig.SAng(r.form, r.const, 0)
    cr = trig.cos(rad)
    if uv is None and is_sym(cr) and z3.is_app_of(cr.t, z3.Z3_OP_ITE):
        # the cosine was clipped to [-1,1] before arccos.  That the clip is a no-op is the
        # Cauchy-Schwarz inequality; z3 does not find it unaided, so the certificate
        # (Lagrange's identity |a|^2|b|^2 - (a.b)^2 = |a x b|^2) is proved step by step and
        # each proved step kept as a lemma
        raw = _ite_leaf(cr.t)
        a, b = _vec(p[0], p[1]), _vec(p[2], p[3])
        dot = a[0] * b[0] + a[1] * b[1] + a[2] * b[2]
        X = [cx.define("cross", v) for v in (a[1] * b[2] - a[2] * b[1], a[2] * b[0] - a[0] * b[2], a[0] * b[1] - a[1] * b[0])]
        D = cx.define("dot", dot)
        ok = cx.check_eq("%s: the unclipped cosine is the dot product" % what, SReal(raw), D)
        ok = cx.check_eq("%s: Lagrange identity 1 - (v1.v2)^2 = |v1 x v2|^2 (unit vectors)" % what,
                         1 - D * D, X[0] * X[0] + X[1] * X[1] + X[2] * X[2]) and ok
        if ok:
            hy = [raw == D.t, 1 - D.t * D.t == X[0].t * X[0].t + X[1].t * X[1].t + X[2].t * X[2].t]
            if cx.check("%s: clipping the cosine to [-1,1] is a no-op (Cauchy-Schwarz)" % what,
                        sym_and(SReal(raw) >= -1, SReal(raw) <= 1), hyps=hy):
                cx.axioms.append(z3.And(raw >= -1, raw <= 1))
                cx.check("%s: cos(result) = unit-vector dot product (the great-circle angle)" % what, cr == D,
                         hyps=[raw == D.t, raw >= -1, raw <= 1])
                return
    if uv is not None and is_sym(cr):
        # cross-product branch: cos(result) = -sqrt(1 - |a x b|^2) = -|a.b|, and a.b < 0 there
        # because |a-b|^2 = 2 - 2 a.b >= 3.99.  Proved in steps: the two polynomial identities
        # by normal form, the sign argument by a small query over the unit-vector variables only
        a, b = uv
        D = cx.define("dot", _dot(p, uv))
        C = cx.define("cosr", cr)
        dsq = (a[0] - b[0]) ** 2 + (a[1] - b[1]) ** 2 + (a[2] - b[2]) ** 2
        e1 = cx.check_eq("%s: cos(result)^2 = (v1.v2)^2" % what, C * C, D * D)
        e2 = cx.check_eq("%s: chord^2 = 2 - 2 v1.v2" % what, dsq, 2 - 2 * D)
        if e1 and e2:
            names = set(v.t.decl().name() for v in list(a) + list(b) if is_sym(v))
            sign = cx.check("%s: sign of cos(result) on this branch" % what, sym_or(sym_and(C <= 0, dsq >= 3.99), sym_and(dsq < 3.99, C == D)),
                            hyps=cx.pc_about(names | set(symx.term_vars(C.t)) | set(symx.term_vars(symx.real_term(dsq)))) + [C.t == cr.t])
            hy = [C.t * C.t == D.t * D.t, symx.real_term(dsq) == 2 - 2 * D.t]
            hy += cx.pc_about(names | {C.t.decl().name(), D.t.decl().name()})
            if cx.check("%s: cos(result) = unit-vector dot product (the great-circle angle)" % what, C == D,
                        hyps=hy + [z3.Or(z3.And(C.t <= 0, symx.real_term(dsq) >= z3.RealVal("3.99")), z3.And(symx.real_term(dsq) < z3.RealVal("3.99"), C.t == D.t))] if sign else hy):
                return
    cx.check_eq("%s: cos(result) = unit-vector dot product (the great-circle angle)" % what, cr, _dot(p, uv))


def harness_fpclip(cx, cfg):
    """gcirc over IEEE floats (single precision: the products do not finish at double width): whatever the
    five sines and cosines round to inside [-1, 1], the value handed to arccos lies in [-1, 1], so the result
    is finite.  sin/cos are stubs returning arbitrary floats in [-1, 1] (an over-approximation: no relation
    between them is assumed), arccos records its argument."""
    import z3
    sort = z3.Float32()
    co = loader.Loader().get("esutil.coords")
    k = [0]
    handed = []

    def unit(a, out=None):
        k[0] += 1
        return symnp.array([cx.fp("t%d_%d" % (k[0], i), -1.0, 1.0, sort=sort) for i in range(a.size)])

    def acos(a, out=None):
        handed.extend(a.tolist())
        k[0] += 1
        return symnp.array([cx.fp("acos%d_%d" % (k[0], i), 0.0, 3.1415927, sort=sort) for i in range(a.size)])
    co.sin, co.cos, co.arccos = unit, unit, acos
    co.deg2rad = lambda a, out=None: a
    co.gcirc(10.0, 20.0, 190.0, -20.0)
    cx.check("gcirc (IEEE arithmetic): arccos is called once per pair", len(handed) == 1)
    for v in handed:
        cx.check("gcirc (IEEE arithmetic): the value handed to arccos lies in [-1, 1] whatever the sines and cosines round to (finite result)",
                 sym_and(v >= -1.0, v <= 1.0))


def harness(cx, cfg):
    what, n, units = cfg
    if what == "fpclip":
        return harness_fpclip(cx, cfg)
    trig.install()
    try:
        co = loader.Loader().get("esutil.coords")
        base = what.split("_")[0]
        unit_in, unit_out = units
        if what == "eq2xyz":
            ra = trig.angle("ra", -720, 1080)      # within three turns (a wrap loop in the code terminates)
            dec = trig.angle("dec", -90, 90)
            x, y, z = co.eq2xyz(ra, dec)
            x, y, z = x.tolist()[0], y.tolist()[0], z.tolist()[0]
            cx.check_eq("eq2xyz: unit length", x * x + y * y + z * z, 1)
            v = _vec(ra, dec)
            for a, b in zip((x, y, z), v):
                cx.check_eq("eq2xyz: (cos ra cos dec, sin ra cos dec, sin dec)", a, b)
            x2, y2, z2 = co.eq2xyz(ra + 360, dec)
            for a, b in zip((x, y, z), (x2.tolist()[0], y2.tolist()[0], z2.tolist()[0])):
                cx.check_eq("eq2xyz: unchanged when 360 degrees is added to the longitude", a, b)
            xr, yr, zr = co.eq2xyz(trig.deg2rad(ra), trig.deg2rad(dec), units="rad")
            for a, b in zip((x, y, z), (xr.tolist()[0], yr.tolist()[0], zr.tolist()[0])):
                cx.check_eq("eq2xyz: radian input gives the same vector", a, b)
            # conditioning probe: the statement's accuracy near the poles needs cos(dec) itself; a cosine
            # recovered as sqrt(1 - sin^2) loses half the digits there (settled by the replay near the poles)
            from vf import poly
            for nm in ("ra", "dec"):
                s_, c_ = trig.pair(nm)
                for wname, (kind, rad) in list(cx.witness_defs.items()):
                    if kind == "sqrt" and poly.equal(rad, symx.real_term(c_ * c_), cx.rules):
                        cx.check("eq2xyz: no cosine recovered from the sine through sqrt(1 - sin^2) (ill-conditioned at the poles)", False)
            return
        pts = _points(cx, n, unit_in)
        uvs = None
        if base == "sphdist":
            uvs = co.eq2xyz = _UnitVectors(cx)
        f = getattr(co, base)
        kw = {"units": [unit_in, unit_out]} if base == "sphdist" else {}
        if what.endswith("_shared"):
            # the two points share storage: one float64 array is passed as the latitude of both
            p = pts[0]
            shared = symnp.array([p[1]])
            ra1, ra2 = symnp.array([p[0]]), symnp.array([p[2]])
            keep = [shared.tolist()[0], ra1.tolist()[0], ra2.tolist()[0]]
            r = f(ra1, shared, ra2, shared, **kw)
            cx.check("%s: the caller's arrays still hold degrees after the call" % base,
                     all(a is b for a, b in zip(keep, [shared.tolist()[0], ra1.tolist()[0], ra2.tolist()[0]])))
            _check_sep(cx, base, r.tolist()[0], [p[0], p[1], p[2], p[1]], unit_out, None)
            return
        if what.endswith("_same"):
            p = pts[0]
            r = f(p[0], p[1], p[0], p[1], **kw)
            r0 = r.tolist()[0] if hasattr(r, "tolist") else r
            cx.check("%s: exactly zero for identical inputs" % base, (not is_sym(r0)) and float(r0) == 0.0)
            return
        if what.endswith("_shift360"):
            p = pts[0]
            r1 = f(*p, **kw)
            r2 = f(p[0] + 360, p[1], p[2], p[3], **kw)
            a = r1.tolist()[0] if hasattr(r1, "tolist") else r1
            b = r2.tolist()[0] if hasattr(r2, "tolist") else r2
            if isinstance(a, trig.SAng) and isinstance(b, trig.SAng):
                if uvs is None:
                    # equal cosines and both in [0,180] degrees: equal angles
                    cx.check_eq("%s: unchanged when 360 degrees is added to a longitude (same cosine)" % base,
                                trig.cos(trig.SAng(a.form, a.const, 0)), trig.cos(trig.SAng(b.form, b.const, 0)))
                    _check_sep(cx, base, b, p, unit_out)
                else:
                    # with eq2xyz behind its contract the invariance is eq2xyz's own: checked there
                    cx.check("%s: result in range after the shift" % base, sym_and(b >= 0, b <= 180))
            elif isinstance(a, trig.SAng) or isinstance(b, trig.SAng):
                # one call took the exact-zero shortcut (identical inputs), the other computed it
                ang, num = (a, b) if isinstance(a, trig.SAng) else (b, a)
                cx.check_eq("%s: unchanged when 360 degrees is added to a longitude (cosine)" % base,
                            trig.cos(trig.SAng(ang.form, ang.const, 0)), math.cos(float(num)))
            else:
                cx.check("%s: unchanged when 360 degrees is added to a longitude" % base, (not is_sym(a)) and (not is_sym(b)) and a == b)
            return
        r = f(*_args(pts, n), **kw)
        if uvs is not None and len(uvs.calls) >= 2:
            # sum-of-squares certificates for the domain conditions of the chord and
            # cross-product formulas (unit vectors a, b): 4 - |a-b|^2 = |a+b|^2,
            # 1 - |a x b|^2 = (a.b)^2, |a-b|^2 and |a x b|^2 themselves
            a, b = uvs.calls[0], uvs.calls[len(pts)]
            if is_sym(a[0]) and is_sym(b[0]):
                cr_ = (a[1] * b[2] - a[2] * b[1], a[2] * b[0] - a[0] * b[2], a[0] * b[1] - a[1] * b[0])
                cx.certify_obligations([
                    ("|a+b|^2", [a[0] + b[0], a[1] + b[1], a[2] + b[2]]),
                    ("|a-b|^2", [a[0] - b[0], a[1] - b[1], a[2] - b[2]]),
                    ("(a.b)^2", [a[0] * b[0] + a[1] * b[1] + a[2] * b[2]]),
                    ("|a x b|^2", list(cr_)),
                ])
        if uvs is not None and len(uvs.calls) >= 2 and n <= 1:
            # conditioning probe: the squared chord must be a sum of squared coordinate differences as written
            # (|a-b|^2 = 2 - 2 a.b holds only through |a| = |b| = 1 and cancels catastrophically for close
            # points); a radicand that equals it only modulo the unit-length relations is a candidate that the
            # replay settles on nearly coincident pairs
            from vf import poly
            a, b = uvs.calls[0], uvs.calls[len(pts)]
            if is_sym(a[0]) and is_sym(b[0]):
                chord = symx.real_term((a[0] - b[0]) * (a[0] - b[0]) + (a[1] - b[1]) * (a[1] - b[1]) + (a[2] - b[2]) * (a[2] - b[2]))
                for wname, (kind, rad) in list(cx.witness_defs.items()):
                    if kind == "sqrt" and poly.equal(rad, chord, cx.rules) and not poly.equal(rad, chord, []):
                        cx.check("sphdist: the squared chord is computed as a sum of squared differences (no cancellation for close points)", False)
        if base == "sphdist" and uvs is not None and n <= 1:
            # conditioning probe: sphdist is promised to 1e-11 degree everywhere, which an arccos of a value that
            # can reach +-1 on this path cannot deliver (it loses half the digits at 0 and 180 degrees)
            for pr_ in trig.st().log:
                if pr_[0] == "arccos" and is_sym(pr_[1]):
                    u_ = pr_[1]
                    lim = 1 - fractions.Fraction(1, 10 ** 9)
                    cx.hint(*[z3.Real(nm) == v for nm, v in (("x0", 1), ("y0", 0), ("z0", 0), ("x1", -1), ("y1", 0), ("z1", 0))])
                    cx.hint(*[z3.Real(nm) == v for nm, v in (("x0", 1), ("y0", 0), ("z0", 0), ("x1", 1), ("y1", 0), ("z1", 0))])
                    cx.check("sphdist: no arccos of a value that can reach +-1 (ill-conditioned at 0 / 180 degrees)",
                             sym_and(u_ < lim, u_ > -lim))
        cells = r.tolist() if hasattr(r, "tolist") else [r]
        if not isinstance(cells, list):
            cells = [cells]
        cx.check("%s: one separation per pair" % base, len(cells) == max(n, 1))
        for i, p in enumerate(pts[:len(cells)]):
            uv = (uvs.calls[i], uvs.calls[len(pts) + i]) if uvs is not None and len(uvs.calls) >= 2 * len(pts) else None
            _check_sep(cx, base, cells[i], p if unit_in == "deg" or isinstance(p[0], trig.SAng) else [math.degrees(v) for v in p], unit_out, uv)
        # symmetry in the arguments, first pair (for sphdist it follows from cos(result) = v1.v2
        # and the range; calling it twice only doubles the polynomial side conditions)
        if n <= 1 and base == "gcirc":
            p = pts[0]
            rs = f(p[2], p[3], p[0], p[1], **kw)
            a = cells[0]
            b = rs.tolist()[0] if hasattr(rs, "tolist") else rs
            if isinstance(a, trig.SAng) and isinstance(b, trig.SAng):
                cx.check("%s: symmetric in its arguments" % base, a == b)
            else:
                cx.check("%s: symmetric in its arguments" % base, (not is_sym(a)) and (not is_sym(b)) and float(a) == float(b))
    finally:
        trig.uninstall()


# ----------------------------------------------------------------------------

def _true_sep(ra1, dec1, ra2, dec2):
    """Vincenty formula in extended precision"""
    import numpy as np
    r = np.longdouble
    l1, b1, l2, b2 = [np.deg2rad(r(v)) for v in (ra1, dec1, ra2, dec2)]
    dl = l2 - l1
    num = np.hypot(np.cos(b2) * np.sin(dl), np.cos(b1) * np.sin(b2) - np.sin(b1) * np.cos(b2) * np.cos(dl))
    den = np.sin(b1) * np.sin(b2) + np.cos(b1) * np.cos(b2) * np.cos(dl)
    return float(np.rad2deg(np.arctan2(num, den)))


def replay(cand):
    import numpy as np
    import warnings
    warnings.simplefilter("ignore")
    import esutil.coords as co
    cfg = cand["cfg"]
    mdl = cand["model"] or {}
    what, n, units = cfg[0], cfg[1], tuple(cfg[2])
    base = what.split("_")[0]
    no = {"reproduced": False, "what": "agrees", "key": None}
    if what.endswith("_shared"):
        dec = np.array([20.0, -35.0, 60.0])
        ra1, ra2 = np.array([10.0, 200.0, 359.0]), np.array([15.0, 210.5, 1.0])
        keep = (dec.copy(), ra1.copy(), ra2.copy())
        got = np.rad2deg(co.gcirc(ra1, dec, ra2, dec))
        if not (np.array_equal(dec, keep[0]) and np.array_equal(ra1, keep[1]) and np.array_equal(ra2, keep[2])):
            return {"reproduced": True, "key": "gcirc:shared-storage", "what": "gcirc overwrote its input arrays (dec %r -> %r)" % (keep[0].tolist(), dec.tolist())}
        for i in range(3):
            want = _true_sep(keep[1][i], keep[0][i], keep[2][i], keep[0][i])
            if abs(got[i] - want) > 3e-6:
                return {"reproduced": True, "key": "gcirc:shared-storage", "what": "gcirc(ra1, dec, ra2, dec) with one dec array for both points: %r degrees, true separation %r" % (float(got[i]), want)}
        return no
    if what == "fpclip":
        # realised end to end: pairs whose cosine of the separation rounds to just outside [-1, 1] are
        # (nearly) coincident or antipodal points
        rng = np.random.RandomState(5)
        ras = np.concatenate([rng.uniform(0, 360, 4000), np.arange(0.0, 360.0, 7.3)])
        decs = np.concatenate([rng.uniform(-90, 90, 4000), np.linspace(-89.0, 89.0, ras.size - 4000)])
        for ra2, dec2, tag in ((ras + 180.0, -decs, "antipodal"), ((ras + 180.0) % 360.0, -decs, "antipodal"), (ras + 1e-9, decs, "nearly coincident"),
                               (ras + 360.0, decs, "coincident modulo 360")):
            d = co.gcirc(ras, decs, ra2, dec2)
            badi = np.where(~np.isfinite(d) | (d < 0) | (d > np.pi + 1e-12))[0]
            if badi.size:
                i = int(badi[0])
                return {"reproduced": True, "key": "gcirc:not-finite",
                        "what": "gcirc(%r, %r, %r, %r) = %r (%s pair): not a finite angle in [0, pi]" % (ras[i], decs[i], ra2[i], dec2[i], d[i], tag)}
        return no
    unit_in, unit_out = units
    pts = []
    for i in range(max(n, 1)):
        p = [trig.model_angle(mdl, "%s_%d" % (nm, i)) for nm in ("ra1", "dec1", "ra2", "dec2")]
        p[1] = max(-90.0, min(90.0, p[1]))
        p[3] = max(-90.0, min(90.0, p[3]))
        pts.append(p)
    if what == "eq2xyz":
        ra, dec = trig.model_angle(mdl, "ra"), max(-90.0, min(90.0, trig.model_angle(mdl, "dec")))
        x, y, z = co.eq2xyz(ra, dec)
        w = (math.cos(math.radians(ra)) * math.cos(math.radians(dec)), math.sin(math.radians(ra)) * math.cos(math.radians(dec)), math.sin(math.radians(dec)))
        if not np.allclose([x[0], y[0], z[0]], w, atol=1e-12):
            return {"reproduced": True, "key": "eq2xyz", "what": "eq2xyz(%r, %r) = %r, expected %r" % (ra, dec, (x[0], y[0], z[0]), w)}
        for ra_, dec in [(r_, d_) for r_ in (ra, ra - 360.0, -100.0, -0.5, 400.0, -359.0) for d_ in (dec, 10.0)]:
            vd = co.eq2xyz(ra_, dec)
            vr = co.eq2xyz(math.radians(ra_), math.radians(dec), units="rad")
            vp = co.eq2xyz(ra_ + 360.0, dec)
            if max(abs(float(a[0]) - float(b[0])) for a, b in zip(vd, vr)) > 1e-12 or max(abs(float(a[0]) - float(b[0])) for a, b in zip(vd, vp)) > 1e-12:
                return {"reproduced": True, "key": "eq2xyz:units-periodicity",
                        "what": "eq2xyz(%r, %r): degrees %r, the same point in radians %r, one turn later %r" % (ra_, dec, [float(v[0]) for v in vd], [float(v[0]) for v in vr], [float(v[0]) for v in vp])}
        L = np.longdouble
        d2r = np.arctan(L(1)) * 4 / 180
        for ra_, dec_ in ((33.0, 89.9999), (211.5, -89.999999), (100.0, 89.99999999), (7.0, 89.9), (300.0, -89.99)):
            x, y, z = co.eq2xyz(ra_, dec_)
            w = (np.cos(L(ra_) * d2r) * np.cos(L(dec_) * d2r), np.sin(L(ra_) * d2r) * np.cos(L(dec_) * d2r), np.sin(L(dec_) * d2r))
            err = max(abs(float(L(a[0]) - b)) for a, b in zip((x, y, z), w))
            if err > 1e-13:
                return {"reproduced": True, "key": "eq2xyz:polar-accuracy",
                        "what": "eq2xyz(%r, %r) is off by %.3g near the pole (1e-13 corresponds to the 1e-11 degree the separations are promised to)" % (ra_, dec_, err)}
        return no
    # adversarial companions of the model's points: the same call shapes with extra pairs
    extra = [[10.0, 20.0, 190.0, -20.0], [0.0, 0.0, 179.5, 0.0], [359.9, 45.0, 0.1, 45.0], [123.0, 89.9999, 303.0, 89.9999], [50.0, -30.0, 50.0, -30.0],
             [200.0, 35.0, 200.00001, 35.000004], [77.7, -12.0, 77.7000001, -12.0],
             [10.0, 20.0, 190.00001, -20.000005], [300.0, -45.0, 120.000002, 44.999999]]

    def conv(v, unit):
        return np.deg2rad(v) if unit == "rad" else v

    def call(pp, scalar):
        cols = [[conv(p[j], unit_in) for p in pp] for j in range(4)]
        args = [c[0] for c in cols] if scalar else [np.array(c, dtype="f8") for c in cols]
        if base == "sphdist":
            return co.sphdist(*args, units=[unit_in, unit_out])
        return co.gcirc(*args)
    tol = 1e-9 if base == "sphdist" else 3e-6
    for pp, scalar in ((pts, n == 0), (pts + extra[: max(0, 3 - len(pts))], False), (extra[:3], False), (extra[1:2], True), (extra[3:5], False), (extra[5:7], False), (extra[5:6], True), (extra[7:9], False), (extra[8:9], True)):
        if scalar and len(pp) != 1:
            continue
        if what.endswith("_same"):
            pp = [[p[0], p[1], p[0], p[1]] for p in pp]
        desc = "%s(%s%s)" % (base, "scalars " if scalar else "arrays ", [tuple(round(v, 6) for v in p) for p in pp])
        try:
            r = np.atleast_1d(call(pp, scalar))
        except Exception as e:
            return {"reproduced": True, "key": "%s:raises:%s:%s" % (base, "scalar" if scalar else "N=%d" % len(pp), type(e).__name__),
                    "what": "%s raised %s: %s" % (desc, type(e).__name__, e)}
        r = np.rad2deg(r) if unit_out == "rad" else r
        if len(r) != len(pp):
            return {"reproduced": True, "key": "%s:length" % base, "what": "%s returned %d values" % (desc, len(r))}
        for got, p in zip(r, pp):
            want = _true_sep(*p)
            if not np.isfinite(got) or got < -1e-12 or got > 180 + 1e-9 or abs(got - want) > tol:
                return {"reproduced": True, "key": "%s:value:%s" % (base, "N=3" if len(pp) == 3 else "other"),
                        "what": "%s -> %r degrees for the pair %r, true separation %r" % (desc, float(got), tuple(p), want)}
            if p[0] == p[2] and p[1] == p[3] and got != 0.0:
                return {"reproduced": True, "key": "%s:identical" % base, "what": "%s: identical inputs give %r" % (desc, float(got))}
        if what.endswith("_shift360") or True:
            pp2 = [[p[0] + 360.0, p[1], p[2], p[3]] for p in pp]
            try:
                r2 = np.atleast_1d(call(pp2, scalar))
                r2 = np.rad2deg(r2) if unit_out == "rad" else r2
                if np.max(np.abs(r2 - r)) > tol:
                    return {"reproduced": True, "key": "%s:shift360" % base, "what": "%s changes by %r when 360 is added to ra1" % (desc, float(np.max(np.abs(r2 - r))))}
            except Exception:
                pass
    return no


MANIFEST_ENTRY = {
    "engine": "symx+trig",
    "technique": "bounded symbolic execution (symx/z3) of coords.sphdist/gcirc/eq2xyz with the angles as solver variables and sin/cos/arcsin/arccos algebraised exactly (vf.trig: unit pairs, addition formulas, defining identities of the inverse functions); cos(result) = v1.v2, range, symmetry, exact zero, +360 invariance, scalar = array decided as nonlinear real arithmetic queries per path; domain side conditions (|u|<=1) are proof obligations; an IEEE (FloatingPoint, single precision) kernel for the arccos guard of gcirc and conditioning probes (cosine recovered as sqrt(1-sin^2), chord written as 2-2a.b, arccos of a value that can reach +-1) raise candidates at the float level; counterexamples rebuilt from the (sin,cos) pairs and replayed against an extended-precision Vincenty formula",
    "text": "For all point pairs (all longitudes, latitudes in [-90,90]) and input shapes scalar/1/3, on both the chord and the cross-product branch of sphdist and on gcirc, the returned angle lies in [0,180] degrees, its cosine equals the dot product of the unit vectors, it is symmetric, exactly 0 for identical inputs, unchanged under ra+360 and in the requested units; no path raises.",
    "note": "algebraic level only: all accuracy figures (1e-11 / 2e-6 degree) and conditioning near 0/180 degrees are float effects outside a real-arithmetic encoding; N <= 3",
}
