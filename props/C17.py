"""C17 -- Gauss-Legendre rules are exact to degree 2n-1 and the integrators use them.

  rule   : PyCGauleg_cgauleg interpreted from clang's AST (vf.cast) for a concrete npts and
           *symbolic* interval ends; the Newton iteration has no symbolic input and is run in
           IEEE double by the interpreter, the affine map is decided symbolically
  exact  : polynomial exactness as a linear query over symbolic Legendre coefficients
  qgauss : QGauss.integrate_func / integrate_data / cache invariant with gauleg(-1,1,n) an
           uninterpreted table and the integrand an uninterpreted function
  qgauss2: QGauss2(nx, ny) tensor product for nx, ny independently
"""
import itertools
import math

from vf import symx, symnp, loader, cmodels, cast
from vf.symx import sym_and, sym_or, sym_not, sym_ite, sym_sum, is_sym, SReal
import z3

PROPERTY = "C17"
LEVEL = "model_checking"
NEEDS_BUILD = True
CONFORMANCE_BUILD = True
FUNCTIONS = [("esutil/integrate/cgauleg_pywrap.c", "PyCGauleg_cgauleg")] + \
            [("esutil/integrate/util.py", n) for n in
             ("gauleg", "qgauss", "QGauss.__init__", "QGauss.setup", "QGauss.integrate", "QGauss.integrate_func",
              "QGauss.integrate_data", "QGauss2.__init__", "QGauss2._setup", "QGauss2.integrate_func")] + \
            [("esutil/stat/util.py", "interplin")]
ASSUMPTIONS = [
    "the interval ends are symbolic reals; npts is concrete per configuration (it sizes the arrays); the Newton iteration on Legendre polynomials has no symbolic input and is executed in IEEE double by the interpreter (its results enter the symbolic part at their shortest decimal representation)",
    "libm cos/fabs are the machine's",
    "integrators: gauleg(-1,1,n) is an uninterpreted table (fresh symbols per n), the integrand an uninterpreted function; that the table is the Gauss-Legendre rule is the 'rule' part",
    "polynomial exactness: |a_k| <= sqrt(2k+1) max|p| for the Legendre coefficients of p on the interval (Cauchy-Schwarz with ||P_k||^2 = 2/(2k+1)); the rule's error on each P_k, k <= 2n-1, is computed in double on [-1,1] and the claim for an arbitrary p and interval follows from linearity and the affine map, both decided by the solver",
    "floats as reals in the symbolic part",
]
BOUNDS = {"quick": {"npts": "1..12 (rule), 1..3 (integrators)", "data table": "2..3 points"},
          "thorough": {"npts": "1..48 (rule), 1..3 (integrators)", "data table": "2..4 points"}}
EXPLORE_OPTS = {"max_paths": 5000, "query_timeout_ms": 20000}
TIER_OPTS = {"quick": {"time_budget": 240}, "thorough": {"time_budget": 1500}}


def configs(tier):
    q = tier == "quick"
    out = []
    for n in (range(1, 13) if q else range(1, 49)):
        out.append(("rule", n))
    out.append(("wrapper",))
    out.append(("qgauss_func",))
    for nd in ((2, 3) if q else (2, 3, 4)):
        for n in (1, 2):
            out.append(("qgauss_data", nd, n))
    out.append(("qgauss_data", -4, 2))
    out.append(("qgauss_data", 2, -2))      # tabulated values of integer type (counts)
    out.append(("qgauss_data", -4, -1))
    out.append(("qgauss_data", -4, 1))
    out.append(("qgauss_cache",))
    out.append(("qgauss_nonpts",))
    for nx in (1, 2, 3):
        for ny in (1, 2, 3):
            out.append(("qgauss2", nx, ny))
            if nx <= 2 and ny <= 2:
                out.append(("qgauss2_const", nx, ny))
    return out


# ---- the rule ----------------------------------------------------------------

def _legendre(k, x):
    p0, p1 = 1.0, x
    if k == 0:
        return p0
    for j in range(2, k + 1):
        p0, p1 = p1, ((2 * j - 1) * x * p1 - (j - 1) * p0) / j
    return p1


def h_rule(cx, cfg):
    n = cfg[1]
    M = cmodels.cgauleg_module()
    x1, x2 = cx.real("x1"), cx.real("x2")
    cx.assume(x1 != x2)
    r = M.cgauleg(x1, x2, n)
    xs, ws = r[0].tolist(), r[1].tolist()
    cx.check("n abscissae and n weights", len(xs) == n and len(ws) == n)
    a_lt_b = bool(x1 < x2)
    lo, hi = (x1, x2) if a_lt_b else (x2, x1)
    for i in range(n):
        cx.check("abscissae strictly inside the interval", sym_and(xs[i] > lo, xs[i] < hi))
        cx.check_eq("abscissae symmetric about the midpoint", xs[i] + xs[n - 1 - i], x1 + x2)
        cx.check_eq("weights symmetric", ws[i], ws[n - 1 - i])
        cx.check("weights have the sign of b-a (positive for a<b)", ws[i] > 0 if a_lt_b else ws[i] < 0)
        if i + 1 < n:
            cx.check("abscissae in ascending order (descending for a>b)", xs[i] < xs[i + 1] if a_lt_b else xs[i] > xs[i + 1])
    tot = sym_sum(ws)
    w_ab = x2 - x1
    cx.check("weights sum to b-a (1e-10 relative)", sym_and(tot - w_ab <= abs(w_ab) * 1e-10, w_ab - tot <= abs(w_ab) * 1e-10))
    # affine map: x_i = xm - xl z_i, w_i = xl w_i^ref with the reference rule on [-1,1]
    ref = cmodels.cgauleg_module().cgauleg(-1.0, 1.0, n)
    zr = [float(v) for v in ref[0].tolist()]
    wr = [float(v) for v in ref[1].tolist()]
    xm, xl = (x1 + x2) / 2, (x2 - x1) / 2
    for i in range(n):
        cx.check_eq("abscissa = midpoint + half-width * reference abscissa", xs[i], xm + xl * zr[i])
        d = ws[i] - xl * wr[i]
        tol = abs(xl) * wr[i] * 1e-12
        cx.check("weight = half-width * reference weight (1e-12 relative)", sym_and(d <= tol, -d <= tol))
    # the reference rule against an independent Gauss-Legendre computation
    import numpy as np
    gx, gw = np.polynomial.legendre.leggauss(n)
    cx.check("reference abscissae agree with an independent Gauss-Legendre rule (1e-12)",
             all(abs(a - b) <= 1e-12 for a, b in zip(zr, gx.tolist())))
    cx.check("reference weights agree with an independent Gauss-Legendre rule (1e-9)",
             all(abs(a - b) <= 1e-9 for a, b in zip(wr, gw.tolist())))
    # exactness for every polynomial of degree <= 2n-1: p = sum a_k P_k((x-xm)/xl), error of
    # the rule = xl * sum a_k e_k, e_k the reference rule's error on P_k over [-1,1]
    deg = 2 * n - 1
    e = []
    for k in range(deg + 1):
        exact = 2.0 if k == 0 else 0.0
        e.append(math.fsum(w * _legendre(k, z) for w, z in zip(wr, zr)) - exact)
    if n > 30:
        return          # the statement quantifies polynomial exactness over n <= 30
    Mx = cx.real("maxp")
    cx.assume(Mx > 0)
    a = [cx.real("a%d" % k) for k in range(deg + 1)]
    for k in range(deg + 1):
        # |a_k| = (2k+1)/2 |<p,P_k>| <= (2k+1)/2 * sqrt(2) max|p| * sqrt(2/(2k+1)) = sqrt(2k+1) max|p|
        ck = math.sqrt(2 * k + 1) * (1 + 1e-12)
        cx.assume(sym_and(a[k] <= ck * Mx, a[k] >= -ck * Mx))
    err = xl * sym_sum([a[k] * e[k] for k in range(deg + 1)])
    bound = 1e-9 * abs(w_ab) * Mx
    cx.check("every polynomial of degree <= 2n-1 is integrated with error below 1e-9 (b-a) max|p|",
             sym_and(err <= bound, -err <= bound))


def h_wrapper(cx, cfg):
    u, T = _integ(cx)
    npts = cx.int("npts", -2, 3)
    x1, x2 = -1.0, 1.0
    try:
        x, w = u.gauleg(x1, x2, npts)
    except ValueError:
        cx.check("gauleg rejects exactly npts <= 0", npts <= 0)
        return
    cx.check("gauleg rejects npts <= 0", npts > 0)
    cx.check("gauleg returns npts abscissae and weights", x.size == int(npts) and w.size == int(npts))


# ---- integrators ---------------------------------------------------------------

class _Tables(object):
    """gauleg(-1,1,n) as an uninterpreted table: fresh symbols per n"""

    def __init__(self, cx):
        self.cx = cx
        self.calls = []

    def cgauleg(self, x1, x2, npts):
        n = int(npts)
        self.calls.append((x1, x2, n))
        if not (symx.term_of(x1).eq(symx.term_of(-1.0)) if is_sym(x1) else x1 == -1.0) or not (x2 == 1.0):
            raise symx.Unsupported("integrators are expected to ask for the rule on [-1,1]")
        return self.table(n)

    def table(self, n):
        xs = [SReal(z3.Real("gx_%d_%d" % (n, i))) for i in range(n)]
        ws = [SReal(z3.Real("gw_%d_%d" % (n, i))) for i in range(n)]
        return symnp.array(xs), symnp.array(ws)


def _stat_stub():
    class S(object):
        pass
    s = S()
    s.interplin = loader.Loader().get("esutil.stat.util").interplin
    return s


def _integ(cx):
    T = _Tables(cx)
    ld = loader.Loader(stubs={"esutil.integrate._cgauleg": T, "esutil.stat": _stat_stub(), "esutil.numpy_util": object()})
    return ld.get("esutil.integrate.util"), T


_F = z3.Function("f", z3.RealSort(), z3.RealSort())
_F2 = z3.Function("f2", z3.RealSort(), z3.RealSort(), z3.RealSort())


def ffunc(x):
    x = symnp.asarray(x)
    return symnp.SArr(symnp._map(lambda c: SReal(_F(symx.real_term(c))), x.a), x.dt)


def ffunc2(x, y):
    x, y = symnp.asarray(x), symnp.asarray(y)
    return symnp.SArr(symnp._map2(lambda a, b: SReal(_F2(symx.real_term(a), symx.real_term(b))), x.a, y.a), x.dt)


def _want_func(T, n, a, b):
    xs, ws = T.table(n)
    f1, f2 = (b - a) / 2, (b + a) / 2
    return f1 * sym_sum([SReal(_F(symx.real_term(x * f1 + f2))) * w for x, w in zip(xs.tolist(), ws.tolist())])


def h_qgauss(cx, cfg):
    what = cfg[0]
    u, T = _integ(cx)
    a, b = cx.real("a"), cx.real("b")
    if what == "qgauss_func":
        n = cx.int("npts", 1, 3)
        q = u.QGauss(n)
        via = cx.choice("via", 2)
        r = q.integrate([a, b], _as_function(ffunc)) if via == 0 else q.integrate_func(symnp.array([a, b]), ffunc)
        cx.check_eq("integrate_func = half-width * sum of weights * f(mapped abscissae)", r, _want_func(T, int(n), a, b))
        try:
            q.integrate_func([a, b, b], ffunc)
        except ValueError:
            cx.check("a range that is not [xmin,xmax] is rejected", True)
        else:
            cx.fail("integrate_func accepted a 3-element range")
        return
    if what == "qgauss_nonpts":
        q = u.QGauss()
        try:
            q.integrate_func([a, b], ffunc)
        except ValueError:
            cx.check("no point count anywhere is rejected", True)
        else:
            cx.fail("integrate_func ran without a point count")
        return
    if what == "qgauss_data":
        _, nd, n = cfg
        import fractions
        if nd < 0:
            # a fixed uneven grid at a scale s chosen by the solver among tiny, ordinary and huge: the table
            # integrator must not depend on the units of x
            nd = -nd
            base = [fractions.Fraction(0), fractions.Fraction(1), fractions.Fraction(5), fractions.Fraction(7)][:nd]
            sc = [fractions.Fraction(1, 10 ** 9), fractions.Fraction(1), fractions.Fraction(10 ** 6), fractions.Fraction(1, 10 ** 12)][cx.choice("scale", 4)]
            off = [fractions.Fraction(0), fractions.Fraction(5, 2)][cx.choice("offset", 2)]
            xv = [off + b * sc for b in base]
        else:
            xv = [cx.real("x%d" % i) for i in range(nd)]
        int_table = cfg[2] < 0
        n = abs(n)
        yv = [cx.int("y%d" % i, -50, 50) if int_table else cx.real("y%d" % i) for i in range(nd)]
        for i in range(nd - 1):
            cx.assume(xv[i] < xv[i + 1])
        q = u.QGauss(n)
        xs, ws = T.table(n)
        # the rule's abscissae lie inside (-1,1) (established by the 'rule' part)
        for x in xs.tolist():
            cx.assume(sym_and(x > -1, x < 1))
        via_q = cx.flag("via_qgauss_function")
        ya = symnp.array(yv, dtype="i8") if int_table else symnp.array(yv)
        if via_q:
            r = u.qgauss(symnp.array(xv), ya, n)
        else:
            r = q.integrate(symnp.array(xv), ya)
        f1, f2 = (xv[-1] - xv[0]) / 2, (xv[-1] + xv[0]) / 2

        def interp(t):
            def seg(k):
                return yv[k] + (t - xv[k]) * (yv[k + 1] - yv[k]) / (xv[k + 1] - xv[k])
            want = seg(nd - 2)
            for k in range(nd - 3, -1, -1):
                want = sym_ite(t <= xv[k + 1], seg(k), want)
            return want
        want = f1 * sym_sum([interp(x * f1 + f2) * w for x, w in zip(xs.tolist(), ws.tolist())])
        cx.check_eq("integrate_data = half-width * sum of weights * linearly interpolated data at the mapped abscissae", r, want)
        return
    if what == "qgauss_cache":
        # invariant + one step: from any state (npts0, tables of npts0) reachable by the
        # constructor, a call with npts in {None, n1} uses the rule of the effective point
        # count and re-establishes the invariant -- hence histories of any length
        have0 = cx.flag("constructed_with_npts")
        n0 = cx.int("n0", 1, 3) if have0 else None
        q = u.QGauss(n0)
        for step in range(2):
            have1 = cx.flag("call%d_sends_npts" % step)
            n1 = cx.int("n%d" % (step + 1), 1, 3) if have1 else None
            eff = n1 if have1 else q.npts
            if eff is None:
                try:
                    q.integrate_func([a, b], ffunc, n1)
                except ValueError:
                    continue
                cx.fail("integrate_func ran without a point count")
                return
            eff = int(eff)
            via = cx.choice("via%d" % step, 2)
            r = q.integrate_func([a, b], ffunc, n1) if via == 0 else q.integrate([a, b], _as_function(ffunc), n1)
            cx.check_eq("call %d uses the rule of the requested point count, whatever was used before" % (step + 1), r, _want_func(T, eff, a, b))
            xs, ws = T.table(eff)
            cx.check("invariant: cached point count is the one last requested", q.npts is not None and int(q.npts) == eff)
            cx.check("invariant: cached abscissae/weights belong to the cached point count",
                     [symx.term_of(v).sexpr() for v in q.xxi.tolist()] == [symx.term_of(v).sexpr() for v in xs.tolist()]
                     and [symx.term_of(v).sexpr() for v in q.wii.tolist()] == [symx.term_of(v).sexpr() for v in ws.tolist()])
        return
    raise AssertionError(cfg)


def _as_function(f):
    def g(x):
        return f(x)
    return g


def h_qgauss2(cx, cfg):
    kind, nx, ny = cfg
    u, T = _integ(cx)
    q = u.QGauss2(nx, ny)
    x1, x2, y1, y2 = cx.real("x1"), cx.real("x2"), cx.real("y1"), cx.real("y2")
    if kind == "qgauss2_const":
        # an integrand that returns a scalar (a constant density) rather than a grid
        c = cx.real("c")
        r = q.integrate_func([x1, x2], [y1, y2], lambda x, y: c)
        gx, wx = T.table(nx)
        gy, wy = T.table(ny)
        want = c * sym_sum([wa * wb for wa in wx.tolist() for wb in wy.tolist()])
        cx.check_eq("QGauss2 of a constant = constant * sum of the product weights", r, (x2 - x1) / 2 * ((y2 - y1) / 2) * want)
        return
    r = q.integrate_func([x1, x2], [y1, y2], ffunc2)
    gx, wx = T.table(nx)
    gy, wy = T.table(ny)
    xf1, xf2, yf1, yf2 = (x2 - x1) / 2, (x2 + x1) / 2, (y2 - y1) / 2, (y2 + y1) / 2
    want = 0
    for i, (xa, wa) in enumerate(zip(gx.tolist(), wx.tolist())):
        for j, (ya, wb) in enumerate(zip(gy.tolist(), wy.tolist())):
            want = want + SReal(_F2(symx.real_term(xa * xf1 + xf2), symx.real_term(ya * yf1 + yf2))) * wa * wb
    cx.check_eq("QGauss2 = tensor-product sum over the two rules", r, xf1 * yf1 * want)


def harness(cx, cfg):
    what = cfg[0]
    if what == "rule":
        return h_rule(cx, cfg)
    if what == "wrapper":
        return h_wrapper(cx, cfg)
    if what in ("qgauss2", "qgauss2_const"):
        return h_qgauss2(cx, cfg)
    return h_qgauss(cx, cfg)


# ----------------------------------------------------------------------------

def conformance():
    """the C interpreter against the compiled extension"""
    import importlib
    import sys
    sys.path.insert(0, loader.real_repo())
    try:
        real = importlib.import_module("esutil.integrate.util")
    finally:
        sys.path.pop(0)
    M = cmodels.cgauleg_module()
    n = 0
    for npts in (2, 3, 4, 7, 10):
        for a, b in ((-1.0, 1.0), (0.5, 3.25), (2.0, -1.0)):
            rx, rw = real.gauleg(a, b, npts)
            mx, mw = M.cgauleg(a, b, npts)
            assert [float(v) for v in mx.tolist()] == rx.tolist(), (npts, a, b, mx.tolist(), rx.tolist())
            assert [float(v) for v in mw.tolist()] == rw.tolist(), (npts, a, b)
            n += 1
    return n


def replay(cand):
    import numpy as np
    import warnings
    warnings.simplefilter("ignore")
    import esutil.integrate.util as iu
    import esutil.stat as st
    from vf.symx import model_float
    cfg = cand["cfg"]
    mdl = cand["model"] or {}
    what = cfg[0]
    no = {"reproduced": False, "what": "agrees", "key": None}

    def mf(name, d):
        v = mdl.get(name)
        return model_float(v) if v is not None else d

    def rule_ok(n, a, b):
        x, w = iu.gauleg(a, b, n)
        gx, gw = np.polynomial.legendre.leggauss(n)
        wx = (a + b) / 2 + (b - a) / 2 * gx
        ww = (b - a) / 2 * gw
        if x.size != n or w.size != n or not np.all(np.isfinite(x)) or not np.all(np.isfinite(w)):
            return "gauleg(%r, %r, %d) -> x=%r w=%r (not finite / wrong size)" % (a, b, n, x.tolist(), w.tolist())
        if not np.allclose(x, wx, rtol=0, atol=1e-11 * abs(b - a)) or not np.allclose(w, ww, rtol=0, atol=1e-9 * abs(b - a)):
            return "gauleg(%r, %r, %d) -> x=%r w=%r, Gauss-Legendre rule is x=%r w=%r" % (a, b, n, x.tolist(), w.tolist(), wx.tolist(), ww.tolist())
        if abs(w.sum() - (b - a)) > 1e-9 * abs(b - a):
            return "gauleg(%r, %r, %d): weights sum to %r" % (a, b, n, w.sum())
        return None
    if what == "rule":
        n = cfg[1]
        a, b = mf("x1", -1.0), mf("x2", 1.0)
        if a == b:
            a, b = -1.0, 1.0
        for aa, bb in ((a, b), (-1.0, 1.0), (0.25, 7.5)):
            msg = rule_ok(n, aa, bb)
            if msg:
                return {"reproduced": True, "key": "rule:n=%s" % ("1" if n == 1 else "odd" if n % 2 else "even"), "what": msg}
        return no
    if what == "wrapper":
        npts = int(mdl.get("npts", 0))
        try:
            iu.gauleg(0.0, 1.0, npts)
        except ValueError:
            return no if npts <= 0 else {"reproduced": True, "key": "wrapper", "what": "gauleg(0,1,%d) raised ValueError" % npts}
        return no if npts > 0 else {"reproduced": True, "key": "wrapper", "what": "gauleg(0,1,%d) accepted" % npts}

    def f(x):
        return np.exp(0.3 * x) + 0.5 * x ** 3

    def direct(n, a, b, func=f):
        gx, gw = np.polynomial.legendre.leggauss(n)
        return (b - a) / 2 * np.sum(gw * func(gx * (b - a) / 2 + (b + a) / 2))
    a, b = mf("a", 0.0), mf("b", 2.0)
    if not (abs(a) < 50 and abs(b) < 50):
        a, b = 0.0, 2.0
    if what == "qgauss_func":
        n = int(mdl.get("npts", 2))
        for call in (lambda q: q.integrate([a, b], f), lambda q: q.integrate_func(np.array([a, b]), f)):
            got = call(iu.QGauss(n))
            if not np.isclose(got, direct(n, a, b), rtol=1e-9, atol=1e-12):
                return {"reproduced": True, "key": "integrate_func", "what": "QGauss(%d).integrate([%r,%r], f) = %r, rule gives %r" % (n, a, b, got, direct(n, a, b))}
        return no
    if what == "qgauss_nonpts":
        try:
            iu.QGauss().integrate_func([a, b], f)
        except ValueError:
            return no
        return {"reproduced": True, "key": "nonpts", "what": "integrate_func ran without npts"}
    if what == "qgauss_data":
        _, nd, n = cfg
        if nd < 0:
            nd = -nd
            sc = [1e-9, 1.0, 1e6, 1e-12][int(mdl.get("scale", 0) or 0)]
            off = [0.0, 2.5][int(mdl.get("offset", 0) or 0)]
            xv = off + np.array([0.0, 1.0, 5.0, 7.0][:nd]) * sc
        else:
            xv = np.array([mf("x%d" % i, float(i)) for i in range(nd)])
        yv = np.array([mf("y%d" % i, float(i * i)) for i in range(nd)])
        if n < 0:
            n = -n
            yv = np.array([int(round(v)) for v in yv], dtype="i8")
            if len(set(yv.tolist())) < 2:
                yv = np.arange(nd, dtype="i8") * 3 + 1
        if not (np.diff(xv) > 0).all():
            xv = np.arange(nd, dtype=float)
        want = direct(n, xv[0], xv[-1], lambda t: np.interp(t, xv, yv))
        for name, got in (("QGauss.integrate", iu.QGauss(n).integrate(xv, yv)), ("qgauss", iu.qgauss(xv, yv, n))):
            if not np.isclose(got, want, rtol=1e-8, atol=1e-10 * abs(xv[-1] - xv[0]) * max(1.0, float(np.abs(yv).max()))):
                return {"reproduced": True, "key": "integrate_data", "what": "%s(x=%r, y=%r, npts=%d) = %r, rule on the interpolated data gives %r" % (name, xv.tolist(), yv.tolist(), n, got, want)}
        return no
    if what == "qgauss_cache":
        pts = [int(mdl[k]) for k in ("n0", "n1", "n2") if k in mdl and mdl[k] is not None]
        seqs = [[None if not mdl.get("constructed_with_npts") else int(mdl.get("n0", 2)),
                 int(mdl["n1"]) if mdl.get("call0_sends_npts") else None, int(mdl["n2"]) if mdl.get("call1_sends_npts") else None]]
        # the invariant speaks about every later call: also run A,B,A style continuations
        for n0 in (1, 2, 3):
            for n1 in (1, 2, 3):
                seqs.append([n0, n1, n0])
                seqs.append([n0, n1, None])
                seqs.append([None, n0, n1])
        for seq in seqs:
            q = iu.QGauss(seq[0])
            cur = seq[0]
            for step, k in enumerate(seq[1:]):
                eff = k if k is not None else cur
                if eff is None:
                    try:
                        q.integrate_func([a, b], f, k)
                    except ValueError:
                        continue
                    return {"reproduced": True, "key": "cache", "what": "integrate_func ran without a point count"}
                got = q.integrate_func([a, b], f, k) if step % 2 == 0 else q.integrate([a, b], f, k)
                cur = eff
                if not np.isclose(got, direct(eff, a, b), rtol=1e-9, atol=1e-12):
                    return {"reproduced": True, "key": "cache", "what": "QGauss(%r) then calls with npts=%r: call %d returned %r, the %d-point rule gives %r"
                            % (seq[0], seq[1:], step + 1, got, eff, direct(eff, a, b))}
        return no
    if what in ("qgauss2", "qgauss2_const"):
        _, nx, ny = cfg
        x1, x2, y1, y2 = mf("x1", 0.0), mf("x2", 1.0), mf("y1", -1.0), mf("y2", 2.0)
        if max(abs(v) for v in (x1, x2, y1, y2)) > 50:
            x1, x2, y1, y2 = 0.0, 1.0, -1.0, 2.0

        def g(x, y):
            return np.exp(0.2 * x - 0.1 * y) + x * y ** 2
        try:
            got = iu.QGauss2(nx, ny).integrate_func([x1, x2], [y1, y2], g)
        except Exception as e:
            return {"reproduced": True, "key": "qgauss2-raises:" + ("nx!=ny" if nx != ny else "nx=ny"), "what": "QGauss2(%d,%d).integrate_func raised %s: %s" % (nx, ny, type(e).__name__, e)}
        gx, wx = np.polynomial.legendre.leggauss(nx)
        gy, wy = np.polynomial.legendre.leggauss(ny)
        want = 0.0
        for xa, wa in zip(gx, wx):
            for ya, wb in zip(gy, wy):
                want += wa * wb * g(xa * (x2 - x1) / 2 + (x2 + x1) / 2, ya * (y2 - y1) / 2 + (y2 + y1) / 2)
        want *= (x2 - x1) / 2 * (y2 - y1) / 2
        if not np.isclose(got, want, rtol=1e-9, atol=1e-12):
            return {"reproduced": True, "key": "qgauss2-value", "what": "QGauss2(%d,%d) over [%r,%r]x[%r,%r] = %r, tensor-product rule gives %r" % (nx, ny, x1, x2, y1, y2, got, want)}
        # an integrand that returns a scalar (constant) must integrate to c * area-weight sum
        try:
            got_c = iu.QGauss2(nx, ny).integrate_func([x1, x2], [y1, y2], lambda x, y: 1.0)
        except Exception as e:
            return {"reproduced": True, "key": "qgauss2-constant", "what": "QGauss2(%d,%d) of the constant 1 raised %s: %s" % (nx, ny, type(e).__name__, e)}
        if not np.isclose(got_c, (x2 - x1) * (y2 - y1), rtol=1e-9, atol=1e-12):
            return {"reproduced": True, "key": "qgauss2-constant", "what": "QGauss2(%d,%d) of the constant 1 = %r, area is %r" % (nx, ny, got_c, (x2 - x1) * (y2 - y1))}
        return no
    raise AssertionError(what)


MANIFEST_ENTRY = {
    "engine": "cast+symx",
    "technique": "PyCGauleg_cgauleg interpreted from clang's AST (vf.cast/z3) with symbolic interval ends per concrete npts: containment, order, symmetry, positivity, sum and the affine map are SMT queries, polynomial exactness a linear query over symbolic Legendre coefficients; QGauss/QGauss2 executed symbolically (vf.symx) with the rule an uninterpreted table and the integrand an uninterpreted function; cache independence by invariant + symbolic steps; counterexamples replayed on a scratch build against numpy's leggauss",
    "text": "For each npts in range and every interval (a<b and a>b) the rule's nodes lie strictly inside, ordered, symmetric, weights signed like b-a, symmetric and summing to b-a, equal to the affine image of the [-1,1] rule, which matches an independent Gauss-Legendre rule and integrates every polynomial of degree <= 2n-1 within 1e-9 (b-a) max|p|; the integrators return the rule's weighted sum over the mapped abscissae (interpolated data for tables, tensor product for QGauss2 with nx, ny independent) and depend only on the point count in force, for call histories of any length.",
    "note": "npts 1..12 (quick) / 1..48 (thorough); Newton iteration evaluated in IEEE double (no symbolic input); integrator point counts 1..3, tables of 2..3/4 points",
}
