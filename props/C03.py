"""C03 -- appends accumulate: the file equals the concatenation of all writes (Python layers).

sfile.SFile / sfile.write and recfile.Recfile are executed symbolically over the virtual
file of vf.recmodel.  A file's state after any history is (header text, rows); every
operation of the property's alphabet is applied to such a state with 1..3 rows already in
it, with chunks of 1..2 rows whose cells are solver variables.  Because no operation
depends on cell values and the row count enters only through `size + k` and the
fixed-width SIZE line, one step from an arbitrary state of this shape covers histories of
any length (induction on the history); two consecutive writes through one handle cover
the handle's cached row count.
"""
import pprint

from vf import symx, symnp, symrec, loader, recmodel
from vf.symx import sym_and, sym_or, sym_not, is_sym
import numpy as rnp

PROPERTY = "C03"
LEVEL = "model_checking"
NEEDS_BUILD = True
FUNCTIONS = [("esutil/sfile.py", n) for n in
             ("SFile.open", "SFile.close", "SFile.write", "SFile._write_header", "SFile._make_header", "SFile._update_size",
              "SFile._ensure_compatible_dtype", "SFile._ensure_open_for_writing", "SFile._get_size_string", "SFile.read_header",
              "SFile._extract_size_from_string", "SFile.get_nrows", "write", "read", "read_header")] + \
            [("esutil/recfile/Util.py", n) for n in ("Recfile.open", "Recfile.write", "Recfile.close", "to_native_inplace")]
ASSUMPTIONS = [
    "records.Records is replaced by its contract (vf.recmodel): Write appends the rows at the end of the file whatever was read before, update_row_count rewrites the fixed-width SIZE line in place, write_header_and_update_offset writes the header of a new file; that records.cpp implements this is not decided here",
    "cells are solver variables; chunk sizes 1..2, prior row count 1..3 (concrete: they size arrays and the SIZE line)",
    "the header dictionary travels through pprint.pformat / eval concretely (library behaviour)",
]
BOUNDS = {"quick": {"prior rows": "1..2", "chunks": "1..2 rows, up to 2 writes per handle"},
          "thorough": {"prior rows": "1..3", "chunks": "1..2 rows, up to 3 writes per handle"}}
EXPLORE_OPTS = {"max_paths": 20000}
TIER_OPTS = {"quick": {"time_budget": 300}, "thorough": {"time_budget": 1800}}

DESCR = [("x", "<i4"), ("y", "<f8"), ("v", "<f4", (2,))]
FNAME = "/virtual/a.rec"
HDR = {"author": "someone", "n": 3, "SIZE_note": "SIZE = 7"}
BAD = {
    "name": [("x", "<i4"), ("z", "<f8"), ("v", "<f4", (2,))],
    "type": [("x", "<i4"), ("y", "<f4"), ("v", "<f4", (2,))],
    "shape": [("x", "<i4"), ("y", "<f8"), ("v", "<f4", (3,))],
    "count": [("x", "<i4"), ("y", "<f8")],
    "dims": [("x", "<i4"), ("y", "<f8"), ("v", "<f4")],
    "order": [("x", ">i4"), ("y", ">f8"), ("v", ">f4", (2,))],
}


def configs(tier):
    q = tier == "quick"
    out = []
    for delim in (None, ","):
        for k1 in (1, 2):
            out.append(("create_write_again", delim, k1, 1))
            out.append(("create_write_again", delim, k1, 2))
        for n in ((1, 2) if q else (1, 2, 3)):
            out.append(("append_reopen", delim, n, 1))
            out.append(("append_reopen_twice", delim, n, 2))
            out.append(("append_rplus_two_writes", delim, n, 1))
            out.append(("overwrite", delim, n, 2))
            for what in sorted(BAD):
                out.append(("incompatible", delim, n, what))
        out.append(("append_missing", delim, 0, 2))
        out.append(("recfile_append", delim, 2, 1))
        out.append(("spelled_path", delim, 1, 1))
    # text: chunks in either byte order through one handle (byte order is not part of a text file's dtype)
    for first in ("native", "swapped"):
        out.append(("handle_mixed_order", ",", 1, first))
    # records.cpp itself: rows always go to the end of the file, the row count is rewritten in place
    for n in (1, 2):
        out.append(("xx_update_row_count", None, n, 0))
        for k in (1, 2):
            out.append(("xx_write_binary", None, n, k))
    return out


def _chunk(cx, descr, k, tag):
    dt = rnp.dtype(descr)
    t = symrec.SRec.zeros((k,), dt)
    cells = {}
    for name in dt.names:
        b, sub = symrec.field_base(dt, name)
        full = (k,) + tuple(sub)
        src = rnp.empty(full, dtype=object)
        for ix in rnp.ndindex(*full):
            src[ix] = cx.int("%s_%s_%s" % (tag, name, "_".join(map(str, ix))))
        t[name] = symnp.SArr(src, b.newbyteorder("=") if b.itemsize > 1 and b.kind not in "SU" else b)
        cells[name] = src.reshape(k, -1).tolist()
    return t, cells


def _env(cx):
    vfs = recmodel.VFS()
    mod = recmodel.make_module(vfs)

    class OsPath(object):
        @staticmethod
        def exists(p):
            return vfs.exists(p)

        @staticmethod
        def expanduser(p):
            return HOME + p[1:] if p.startswith("~/") else p

        @staticmethod
        def expandvars(p):
            return p.replace("$DATA", "/data").replace("${DATA}", "/data")

    class Os(object):
        path = OsPath
    ld = loader.Loader(stubs={"esutil.recfile.records": mod, "os": Os, "os.path": OsPath}, builtin_overrides={"open": recmodel.make_open(vfs)})
    return vfs, ld


HOME = "/home/u"


def OsExpand(p):
    p = HOME + p[1:] if p.startswith("~/") else p
    return p.replace("$DATA", "/data").replace("${DATA}", "/data")


def _rows(f, name):
    t = f.table()
    if t is None:
        return []
    a = t[name].la
    return a.reshape(a.shape[0], -1).tolist()


def _check_file(cx, what, f, ld, chunks, delim, hdr_user):
    """file == header + concatenation of chunks; SIZE line and read-back agree"""
    n = sum(len(c["x"]) for c in chunks)
    cx.check("%s: number of rows in the file = total rows written" % what, f.nrows == n)
    first = f.header.split("\n")[0]
    cx.check("%s: SIZE line holds the total row count" % what, first == "SIZE = %20d" % n)
    if f.nrows == n:
        for name in ("x", "y", "v"):
            got = _rows(f, name)
            want = [r for c in chunks for r in c[name]]
            for gr, wr in zip(got, want):
                for g, w_ in zip(gr, wr):
                    cx.check_eq("%s: rows are the written chunks in order" % what, g, w_)
    sf = ld.get("esutil.sfile")
    h = sf.read_header(FNAME)
    cx.check("%s: header row count = total rows" % what, h.get("_SIZE") == n)
    for k, v in (hdr_user or {}).items():
        cx.check("%s: user header key kept with its value" % what, h.get(k) == v)
    cx.check("%s: header records the delimiter" % what, (h.get("_DELIM") == delim) if delim else ("_DELIM" not in h))
    back = sf.read(FNAME)
    cx.check("%s: reading back gives all rows" % what, isinstance(back, symrec.SRec) and back.size == n)
    if isinstance(back, symrec.SRec) and back.size == n:
        got = back["x"].la.tolist()
        want = [r[0] for c in chunks for r in c["x"]]
        for g, w_ in zip(got, want):
            cx.check_eq("%s: read-back rows in order" % what, g, w_)


def extra_functions():
    from props import recxx
    return recxx.functions()


def harness(cx, cfg):
    what, delim = cfg[0], cfg[1]
    if what == "xx_update_row_count":
        from props import recxx
        return recxx.h_update_row_count(cx, cfg[2])
    if what == "xx_write_binary":
        from props import recxx
        return recxx.h_write_binary(cx, cfg[2], cfg[3])
    vfs, ld = _env(cx)
    sf = ld.get("esutil.sfile")
    f = vfs.get(FNAME)
    tag = "%s file" % ("text" if delim else "binary")
    if what == "create_write_again":
        _, _, k1, k2 = cfg
        c1, w1 = _chunk(cx, DESCR, k1, "a")
        c2, w2 = _chunk(cx, DESCR, k2, "b")
        with sf.SFile(FNAME, mode="w", delim=delim) as h:
            h.write(c1, header=dict(HDR))
            h.write(c2)
        _check_file(cx, "%s, create then write again on the same handle" % tag, f, ld, [w1, w2], delim, HDR)
        return
    n, k = cfg[2], cfg[3]
    if what != "append_missing":
        c0, w0 = _chunk(cx, DESCR, n, "old")
        sf.write(c0, FNAME, delim=delim, header=dict(HDR))
        cx.check("%s: creation writes header then rows" % tag, f.nrows == n)
        del f.log[:]
    if what in ("append_reopen", "append_reopen_twice"):
        c1, w1 = _chunk(cx, DESCR, k if what == "append_reopen" else 1, "a")
        sf.write(c1, FNAME, append=True, delim=delim)
        chunks = [w0, w1]
        if what == "append_reopen_twice":
            c2, w2 = _chunk(cx, DESCR, 2, "b")
            sf.write(c2, FNAME, append=True, delim=delim)
            chunks.append(w2)
        cx.check("%s: an append never rewrites the header or truncates" % tag, all(e[0] in ("size", "rows") for e in f.log))
        _check_file(cx, "%s, append by reopening" % tag, f, ld, chunks, delim, HDR)
        return
    if what == "append_rplus_two_writes":
        c1, w1 = _chunk(cx, DESCR, 1, "a")
        c2, w2 = _chunk(cx, DESCR, 2, "b")
        with sf.SFile(FNAME, mode="r+") as h:
            h.write(c1)
            h.write(c2)
        _check_file(cx, "%s, two writes through one handle opened for update" % tag, f, ld, [w0, w1, w2], delim, HDR)
        return
    if what == "overwrite":
        c1, w1 = _chunk(cx, DESCR, k, "a")
        sf.write(c1, FNAME, delim=delim, header={"other": 1})
        _check_file(cx, "%s, non-append write replaces the contents" % tag, f, ld, [w1], delim, {"other": 1})
        h = sf.read_header(FNAME)
        cx.check("%s: the old user header is gone after an overwrite" % tag, "author" not in h)
        return
    if what == "append_missing":
        c1, w1 = _chunk(cx, DESCR, k, "a")
        cx.check("file does not exist beforehand", not vfs.exists(FNAME))
        sf.write(c1, FNAME, append=True, delim=delim, header=dict(HDR))
        _check_file(cx, "%s, append to a file that does not exist creates it" % tag, f, ld, [w1], delim, HDR)
        return
    if what == "incompatible":
        kind = cfg[3]
        if delim is not None and kind == "order":
            # byte order is not part of a text file's dtype: such an append is compatible
            c1, w1 = _chunk(cx, BAD[kind], 1, "a")
            sf.write(c1, FNAME, append=True, delim=delim)
            _check_file(cx, "%s, append in the other byte order" % tag, f, ld, [w0, w1], delim, HDR)
            return
        c1, w1 = _chunk(cx, BAD[kind], 1, "a")
        before = f.snapshot()
        try:
            sf.write(c1, FNAME, append=True, delim=delim)
        except ValueError:
            cx.check("%s: a rejected append leaves the file's bytes unchanged" % tag, f.snapshot() == before and not f.log)
            return
        cx.fail("%s: an append whose fields differ in %s was accepted" % (tag, kind))
        return
    if what == "spelled_path":
        # the same file named through ~ and through an environment variable: appends must find it
        spell = ("~/t.rec", "$DATA/t.rec")[cx.choice("spelling", 2)]
        real = OsExpand(spell)
        f2 = vfs.get(real)
        c0b, w0b = _chunk(cx, DESCR, 1, "p")
        sf.write(c0b, spell, delim=delim, header=dict(HDR))
        cx.check("%s: a file named with ~ or $VAR is created under the expanded name" % tag, vfs.exists(real) and f2.nrows == 1)
        c1, w1 = _chunk(cx, DESCR, k, "a")
        sf.write(c1, spell, append=True, delim=delim)
        cx.check("%s: an append through a path spelled with ~ or $VAR keeps the earlier rows" % tag, f2.nrows == 1 + k)
        first = f2.header.split("\n")[0]
        cx.check("%s: ... and the SIZE line holds the total" % tag, first == "SIZE = %20d" % (1 + k))
        cx.check("%s: ... without truncating the file" % tag, sum(1 for e in f2.log if e[0] == "truncate") == 1)
        return
    if what == "handle_mixed_order":
        first_kind = cfg[3]
        d_nat, d_swp = DESCR, BAD["order"]
        c1, w1 = _chunk(cx, d_nat if first_kind == "native" else d_swp, 1, "a")
        c2, w2 = _chunk(cx, d_swp if first_kind == "native" else d_nat, 1, "b")
        try:
            with sf.SFile(FNAME, mode="r+") as h:
                h.write(c1)
                h.write(c2)
        except recmodel.ContractViolation as e:
            cx.fail("text file, chunks of both byte orders through one handle: %s" % (e,))
            return
        _check_file(cx, "text file, chunks of both byte orders through one handle", f, ld, [w0, w1, w2], delim, HDR)
        return
    if what == "recfile_append":
        ru = ld.get("esutil.recfile.Util")
        c1, w1 = _chunk(cx, DESCR, 1, "a")
        dt = rnp.dtype(DESCR)
        with ru.Recfile(FNAME, mode="r+", dtype=dt, delim=delim, nrows=n, offset=len(f.header)) as r:
            r.write(c1)
            cx.check("Recfile.write advances the handle's row count", r.nrows == n + 1)
        cx.check("Recfile.write appends the rows", f.nrows == n + 1)
        return
    raise AssertionError(cfg)


# ----------------------------------------------------------------------------

def _real_chunk(descr, k, base):
    import numpy as np
    t = np.zeros(k, dtype=descr)
    for i, name in enumerate(t.dtype.names):
        sh = t[name].shape
        t[name] = (np.arange(int(np.prod(sh))).reshape(sh) + base + 10 * i)
    return t


def replay(cand):
    import numpy as np
    import os
    import tempfile
    import shutil
    import warnings
    warnings.simplefilter("ignore")
    import esutil.sfile as sfile
    import esutil.recfile as recfile
    cfg = cand["cfg"]
    what, delim = cfg[0], cfg[1]
    no = {"reproduced": False, "what": "agrees", "key": None}
    d = tempfile.mkdtemp(prefix="c03-")
    fn = os.path.join(d, "a.rec")
    tag = "text" if delim else "binary"

    def verify(chunks, hdr_user, desc):
        want = np.concatenate(chunks) if len(chunks) > 1 else chunks[0]
        try:
            back, h = sfile.read(fn, header=True)
        except Exception as e:
            return {"reproduced": True, "key": "%s:readback-raises" % what, "what": "%s (%s): reading back raised %s: %s" % (desc, tag, type(e).__name__, e)}
        if back.size != want.size or h["_SIZE"] != want.size or any(not np.array_equal(back[nm], want[nm]) for nm in want.dtype.names):
            return {"reproduced": True, "key": "%s:contents" % what,
                    "what": "%s (%s): file holds %d rows (header says %r), x=%r; expected the concatenation x=%r"
                            % (desc, tag, back.size, h.get("_SIZE"), back["x"].tolist(), want["x"].tolist())}
        for k, v in (hdr_user or {}).items():
            if h.get(k) != v:
                return {"reproduced": True, "key": "%s:header" % what, "what": "%s (%s): user header key %r = %r after the operation" % (desc, tag, k, h.get(k))}
        return None
    try:
        if what == "spelled_path":
            old_env = {k: os.environ.get(k) for k in ("HOME", "DATA")}
            os.environ["HOME"] = d
            os.environ["DATA"] = d
            try:
                for spell in ("~/t1.rec", "$DATA/t2.rec", "${DATA}/t3.rec"):
                    real = os.path.expandvars(os.path.expanduser(spell))
                    c0, c1 = _real_chunk(DESCR, 2, 1), _real_chunk(DESCR, 1, 50)
                    sfile.write(c0, spell, delim=delim, header=dict(HDR))
                    sfile.write(c1, spell, append=True, delim=delim)
                    fn = real
                    r = verify([c0, c1], HDR, "create then append through the path %r" % spell)
                    if r:
                        r["key"] = "append:spelled-path"
                        return r
            finally:
                for k, v in old_env.items():
                    if v is None:
                        os.environ.pop(k, None)
                    else:
                        os.environ[k] = v
            return no
        if what == "handle_mixed_order":
            first_kind = cfg[3]
            nat, swp = _real_chunk(DESCR, 1, 50), _real_chunk(BAD["order"], 2, 70)
            c0 = _real_chunk(DESCR, 2, 1)
            seq = [nat, swp] if first_kind == "native" else [swp, nat]
            sfile.write(c0, fn, delim=delim, header=dict(HDR))
            with sfile.SFile(fn, mode="r+") as h:
                for c in seq:
                    h.write(c)
            r = verify([c0] + [c.astype(c0.dtype) for c in seq], HDR, "chunks of both byte orders (%s first) through one handle" % first_kind)
            if r:
                r["key"] = "handle:mixed-order"
                return r
            return no
        if what in ("xx_update_row_count", "xx_write_binary"):
            # the position-dependent case: read part of the file through an r+ handle, then write
            for dl in (None, ","):
                fn2 = os.path.join(d, "x%s.rec" % ("t" if dl else "b"))
                c0, c1 = _real_chunk(DESCR, 3, 1), _real_chunk(DESCR, 2, 50)
                sfile.write(c0, fn2, delim=dl, header=dict(HDR))
                try:
                    with sfile.SFile(fn2, mode="r+") as h:
                        _ = h[0:1]
                        _ = h.read(rows=[0], columns=["x"])
                        h.write(c1)
                    back, hh = sfile.read(fn2, header=True)
                except Exception as e:
                    return {"reproduced": True, "key": "cxx:append-position", "what": "partial read then write through one r+ handle (%s) raised %s: %s"
                            % ("text" if dl else "binary", type(e).__name__, e)}
                want = np.concatenate([c0, c1])
                if back.size != 5 or hh["_SIZE"] != 5 or any(not np.array_equal(back[nm], want[nm]) for nm in want.dtype.names):
                    return {"reproduced": True, "key": "cxx:append-position", "what": "partial read then write through one r+ handle (%s): file holds x=%r (header %r), expected %r"
                            % ("text" if dl else "binary", back["x"].tolist(), hh.get("_SIZE"), want["x"].tolist())}
            return no
        if what == "create_write_again":
            _, _, k1, k2 = cfg
            c1, c2 = _real_chunk(DESCR, k1, 1), _real_chunk(DESCR, k2, 50)
            with sfile.SFile(fn, mode="w", delim=delim) as h:
                h.write(c1, header=dict(HDR))
                h.write(c2)
            return verify([c1, c2], HDR, "create then write again") or no
        n, k = cfg[2], cfg[3]
        c0 = _real_chunk(DESCR, max(n, 1), 1)
        if what != "append_missing":
            sfile.write(c0, fn, delim=delim, header=dict(HDR))
        if what in ("append_reopen", "append_reopen_twice"):
            c1 = _real_chunk(DESCR, k if what == "append_reopen" else 1, 50)
            sfile.write(c1, fn, append=True, delim=delim)
            chunks = [c0, c1]
            if what == "append_reopen_twice":
                c2 = _real_chunk(DESCR, 2, 80)
                sfile.write(c2, fn, append=True, delim=delim)
                chunks.append(c2)
            return verify(chunks, HDR, "append by reopening") or no
        if what == "append_rplus_two_writes":
            c1, c2 = _real_chunk(DESCR, 1, 50), _real_chunk(DESCR, 2, 80)
            with sfile.SFile(fn, mode="r+") as h:
                h.write(c1)
                h.write(c2)
            return verify([c0, c1, c2], HDR, "two writes through one r+ handle") or no
        if what == "overwrite":
            c1 = _real_chunk(DESCR, k, 50)
            sfile.write(c1, fn, delim=delim, header={"other": 1})
            r = verify([c1], {"other": 1}, "overwrite")
            if r:
                return r
            if "author" in sfile.read_header(fn):
                return {"reproduced": True, "key": "overwrite:header", "what": "old user header survives an overwrite"}
            return no
        if what == "append_missing":
            c1 = _real_chunk(DESCR, k, 50)
            try:
                sfile.write(c1, fn, append=True, delim=delim, header=dict(HDR))
            except Exception as e:
                return {"reproduced": True, "key": "append-missing:raises", "what": "sfile.write(..., append=True) on a file that does not exist (%s) raised %s: %s" % (tag, type(e).__name__, e)}
            return verify([c1], HDR, "append to a missing file") or no
        if what == "incompatible":
            kind = cfg[3]
            c1 = _real_chunk(BAD[kind], 1, 50)
            before = open(fn, "rb").read()
            if delim is not None and kind == "order":
                sfile.write(c1, fn, append=True, delim=delim)
                return verify([c0, c1.astype(c0.dtype)], HDR, "text append in the other byte order") or no
            try:
                sfile.write(c1, fn, append=True, delim=delim)
            except ValueError:
                after = open(fn, "rb").read()
                if after != before:
                    return {"reproduced": True, "key": "incompatible:bytes-changed:%s" % tag, "what": "rejected append (%s differs, %s) changed the file's bytes" % (kind, tag)}
                return no
            except Exception as e:
                return {"reproduced": True, "key": "incompatible:raises", "what": "incompatible append (%s, %s) raised %s: %s" % (kind, tag, type(e).__name__, e)}
            return {"reproduced": True, "key": "incompatible:accepted:%s" % tag, "what": "an append whose fields differ in %s was accepted for a %s file (file grew from %d to %d bytes)"
                    % (kind, tag, len(before), os.path.getsize(fn))}
        if what == "recfile_append":
            with sfile.SFile(fn) as s:
                off, dt = s._data_start, s._dtype
            c1 = _real_chunk(DESCR, 1, 50)
            with recfile.Recfile(fn, mode="r+", dtype=dt, delim=delim, nrows=n, offset=off) as r:
                r.write(c1)
                nr = r.nrows
            with recfile.Recfile(fn, mode="r", dtype=dt, delim=delim, nrows=n + 1, offset=off) as r:
                back = r.read()
            if nr != n + 1 or not np.array_equal(back["x"], np.concatenate([c0, c1])["x"]):
                return {"reproduced": True, "key": "recfile-append", "what": "Recfile append: nrows %r, x=%r" % (nr, back["x"].tolist())}
            return no
    finally:
        shutil.rmtree(d, ignore_errors=True)
    raise AssertionError(what)


MANIFEST_ENTRY = {
    "engine": "symx+castxx",
    "technique": "bounded symbolic execution (symx/z3) of sfile.SFile/sfile.write/read_header and recfile.Recfile.write over a virtual file behind the reader/writer contract: each operation of the property's alphabet (write again on the handle, append by reopening once or twice, two writes through an r+ handle, overwrite, append to a missing file, append with fields differing in name/type/shape/count/order) is applied to a file state with symbolic cells; rows, SIZE line, retained user header, delimiter record and 'no mutating call before a rejection' are asserted; Records::Write and Records::update_row_count of records.cpp are interpreted from clang's AST (vf.castxx) over an abstract FILE from an arbitrary file position: rows go to the end of the file, only the fixed-width SIZE line is rewritten, the position returns to the end; counterexamples replayed on real files with a scratch build",
    "text": "From any file state (header, 1..3 rows) each operation yields exactly header + old rows + new chunk (or only the new chunk for create/overwrite), the SIZE line equals the total, the user header of creation is retained by appends, an append to a missing file creates it, an incompatible append raises before any mutating call; consecutive writes through one handle keep the cached count right.  One step from an arbitrary state covers histories of any length.",
    "note": "prior rows 1..2/3, chunks 1..2 rows; the Python layer is decided against the writer contract, the binary writer of records.cpp against that contract separately (text writes not interpreted)",
}
