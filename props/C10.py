"""C10 -- WCS pixel <-> sky: the forward chain is the FITS convention (offset from the reference pixel, CD
matrix and distortion polynomial in the convention's order, gnomonic deprojection about the reference
point), the undistorted inverse chain inverts it, longitudes lie in [0,360), scalar == array, and no result
depends on what the object did before (lazy inverse fit, root-finder scratch buffers).

Decided modularly over the real methods of esutil.wcsutil.WCS, executed symbolically with the header values
(CRVAL as angles, CRPIX, CD, PV / SIP coefficients) and the positions as solver variables."""
import fractions
import math

import z3

from vf import symx, symnp, loader, trig
from vf.symx import sym_and, sym_or, sym_not, is_sym, SReal, wrap

PROPERTY = "C10"
LEVEL = "model_checking"
NEEDS_BUILD = False
REL = "esutil/wcsutil.py"
FUNCTIONS = [(REL, n) for n in
             ("WCS.__init__", "WCS.image2sky", "WCS.sky2image", "WCS.get_jacobian", "WCS.ApplyCDMatrix", "WCS.image2sph", "WCS.sph2image",
              "WCS.Rotate", "WCS.CreateRotationMatrix", "WCS._rotate", "WCS._lonlatdiff", "WCS._findxy", "WCS._findxy_one", "WCS.Distort",
              "WCS.GetPole", "WCS.ConvertWCS", "WCS.SetAngles", "WCS.ExtractPVCoeffs", "WCS.ExtractSIPCoeffs", "WCS.ExtractDistortionModel",
              "WCS.ExtractFromWCS", "WCS.ExtractProjection", "WCS._set_naxis", "Apply2DPolynomial", "wrap_ra_diff", "_dict_get")]
ASSUMPTIONS = [
    "floats are reals: the tolerances of the statement (1e-9 degree, 1e-6 pixel) are outside a real-arithmetic claim, decided are the algebraic facts behind them; the one float-level clause that is a pure kernel, longitude in [0,360) after the wrap, is decided over IEEE doubles (configuration fpwrap)",
    "sin/cos algebraised exactly (vf.trig); the arguments handed to arctan/arctan2 are probed: the output direction is the unit vector they define",
    "numpy.linalg.inv of the 2x2 CD matrix replaced by its contract (adjugate over the determinant; singular CD outside the claim)",
    "scipy.optimize.fsolve replaced by its contract: it may evaluate the residual anywhere and returns some point; what is decided is what it is handed (the residual function is image2sky minus the target with the longitude difference wrapped, the starting point is the undistorted inverse) and that neither depends on earlier calls",
    "InvertDistortion (least-squares fit of the inverse polynomial over a 30x30..50x50 grid, numpy.linalg.solve) is replaced by its contract: it stores some coefficient matrices that are a function of the header only; the accuracy of the fit is outside the claim (numerical approximation quality)",
    "default native pole (LONPOLE=180, theta0=90, i.e. zenithal projections); other theta0 values are not reachable from a FITS header through this class and are outside the claim",
    "reference points exactly at a celestial pole (cos(CRVAL2) = 0) are outside the claim (the longitude is undefined there); arbitrarily close to the pole is inside",
    "sky positions 90 degrees or more from the reference point have no gnomonic image: outside the claim for the inverse chain",
    "SIP: orders 2 (quick) and 3 (thorough), coefficients A_p_q / B_p_q with 2 <= p+q <= order, and (configuration SIPlow) also the constant and linear terms some writers emit; TPV: the 10+10 polynomial terms the class supports (the radial PV?_3 term is not supported by the class and is outside the claim)",
]
BOUNDS = {"quick": {"arrays": "length 1", "sip_order": 2, "wrap_ra_diff": "differences within [-900, 900] degrees"},
          "thorough": {"arrays": "length 1..2", "sip_order": 3, "wrap_ra_diff": "differences within [-1260, 1260] degrees"}}
EXPLORE_OPTS = {"max_paths": 3000, "query_timeout_ms": 8000, "feas_timeout_ms": 1500}
TIER_OPTS = {"quick": {"time_budget": 150}, "thorough": {"time_budget": 1200, "query_timeout_ms": 30000, "feas_timeout_ms": 3000}}

# the TPV convention (Calabretta et al. / SCAMP): exponents (own axis, other axis) of term k
_TPV = {0: (0, 0), 1: (1, 0), 2: (0, 1), 4: (2, 0), 5: (1, 1), 6: (0, 2), 7: (3, 0), 8: (2, 1), 9: (1, 2), 10: (0, 3)}


def configs(tier):
    out = [("rotmat", "default"), ("rotmat", "lonpole"),
           ("deproj", "scalar"), ("deproj", "array"),
           ("chain", "TAN", "scalar"), ("chain", "TAN", "array"),
           ("chain", "TPV", "scalar"), ("chain", "TPV", "array"), ("chain", "TPVsparse", "scalar"), ("chain", "TANPV", "scalar"),
           ("chain", "SIP", "scalar"), ("chain", "SIP", "array"), ("chain", "SIPnoinv", "scalar"), ("chain", "SIPlow", "scalar"),
           ("two_objects", "TPV", "TAN"), ("two_objects", "SIP", "TPV"), ("two_objects", "TAN", "SIP"),
           ("refpix", "TAN"), ("refpix", "SIP"),
           ("sph2image", "scalar"), ("sph2image", "array"),
           ("cdinv",),
           ("invchain", "TAN"), ("invchain", "TPV"), ("invchain", "SIP"),
           ("compose",),
           ("pure", "TAN"), ("pure", "TPV"), ("pure", "SIP"),
           ("lazy", "TPV"), ("lazy", "SIP"),
           ("find", "TPV", "scalar"), ("find", "SIP", "scalar"), ("find", "TPV", "array"),
           ("wrap_ra_diff", "scalar"), ("wrap_ra_diff", "array"),
           ("jacobian",),
           ("fpwrap", "scalar"), ("fpwrap", "array")]
    if tier == "thorough":
        out += [("chain", "SIP3", "scalar"), ("deproj", "array2"), ("chain", "TPV", "array2"), ("find", "SIP", "array")]
    return out


# ---------------------------------------------------------------------------------------------
# environment: the module under the shims, numpy.linalg.inv and scipy.optimize by contract

class _LinAlgError(Exception):
    pass


class _LinAlg(object):
    LinAlgError = _LinAlgError

    @staticmethod
    def inv(m):
        if m.shape != (2, 2):
            raise symx.Unsupported("linalg.inv of a %r matrix" % (m.shape,))
        a, b, c, d = m[0, 0], m[0, 1], m[1, 0], m[1, 1]
        det = a * d - b * c
        if det == 0:
            raise _LinAlgError("Singular matrix")
        out = symnp.zeros((2, 2))
        out[0, 0] = d / det
        out[0, 1] = -b / det
        out[1, 0] = -c / det
        out[1, 1] = a / det
        return out

    @staticmethod
    def solve(*a, **k):
        raise symx.Unsupported("numpy.linalg.solve reached (the inverse fit is replaced by its contract)")


class _FSolve(object):
    """scipy.optimize by contract; records what fsolve is handed"""

    def __init__(self, cx):
        self.cx = cx
        self.calls = []

    def fsolve(self, func, x0, xtol=None, **kw):
        cx = self.cx
        k = len(self.calls)
        guess = [x0[0], x0[1]]
        P = symnp.array([cx.real("probe_x"), cx.real("probe_y")]) if not hasattr(self, "P") else self.P
        self.P = P
        res = func(P)
        self.calls.append({"guess": guess, "residual": [res[0], res[1]], "xtol": xtol})
        return symnp.array([cx.real("root%d_x" % k), cx.real("root%d_y" % k)])


def _module(cx, with_scipy=False):
    stubs = {}
    fs = None
    if with_scipy:
        fs = _FSolve(cx)

        class _Sc(object):
            optimize = fs
        stubs = {"scipy": _Sc, "scipy.optimize": fs}
    ld = loader.Loader(stubs=stubs)
    symnp.linalg = _LinAlg
    w = ld.get("esutil.wcsutil")
    return w, fs


def _t(v):
    return symx.real_term(v)


class Hdr(object):
    pass


def _header(cx, proj, concrete_cd=False, lonpole=False):
    """a header of the given kind with symbolic contents; returns the dict and the symbols"""
    H = Hdr()
    H.proj = proj
    if not cx.hints:
        _hints(cx)
    H.ra0 = trig.angle("ra0", 0, 360)
    cx.assume(H.ra0 < 360)
    H.dec0 = trig.angle("dec0", -90, 90)
    H.sa, H.ca = trig.pair("ra0")
    H.sd, H.cd_ = trig.pair("dec0")
    cx.assume(H.cd_ > 0)
    if concrete_cd:
        H.cd = [fractions.Fraction(-3, 10000), fractions.Fraction(1, 10000), fractions.Fraction(1, 20000), fractions.Fraction(1, 5000)]
        H.cd = [float(c) for c in H.cd]
    else:
        H.cd = [cx.real("cd1_1"), cx.real("cd1_2"), cx.real("cd2_1"), cx.real("cd2_2")]
        cx.assume(H.cd[0] * H.cd[3] - H.cd[1] * H.cd[2] != 0)
    H.crpix = [cx.real("crpix1"), cx.real("crpix2")]
    kind = {"TAN": "TAN", "TPV": "TPV", "TPVsparse": "TPV", "TPVfew": "TPV", "SIPlow": "TAN-SIP", "TANPV": "TAN", "SIP": "TAN-SIP", "SIPnoinv": "TAN-SIP", "SIP3": "TAN-SIP"}[proj]
    h = {"naxis1": 2048, "naxis2": 4096, "ctype1": "RA---" + kind, "ctype2": "DEC--" + kind,
         "crpix1": H.crpix[0], "crpix2": H.crpix[1], "crval1": H.ra0, "crval2": H.dec0,
         "cd1_1": H.cd[0], "cd1_2": H.cd[1], "cd2_1": H.cd[2], "cd2_2": H.cd[3]}
    if kind == "TAN" and proj == "TAN":
        h["ctype1"], h["ctype2"] = "RA---TAN", "DEC--TAN"
    H.pv = {}
    H.sip = {}
    if proj in ("TPV", "TANPV"):
        for ax in (1, 2):
            for k in _TPV:
                v = cx.real("pv%d_%d" % (ax, k))
                cx.assume(v != 0)
                H.pv[(ax, k)] = v
    elif proj == "TPVfew":
        for ax, k in ((1, 1), (2, 1), (1, 5), (2, 7)):
            v = cx.real("pv%d_%d" % (ax, k))
            cx.assume(v != 0)
            H.pv[(ax, k)] = v
    elif proj == "TPVsparse":
        # a few terms, zero allowed (the class skips zero coefficients)
        for ax, k in ((1, 1), (2, 1), (1, 5), (2, 7)):
            H.pv[(ax, k)] = cx.real("pv%d_%d" % (ax, k))
        H.pv[(1, 0)] = 0.0
    for (ax, k), v in H.pv.items():
        h["pv%d_%d" % (ax, k)] = v
    if kind == "TAN-SIP":
        order = 3 if proj == "SIP3" else 2
        H.order = order
        h["a_order"] = order
        h["b_order"] = order
        lowest = 0 if proj == "SIPlow" else 2
        for nm in ("a", "b"):
            for p in range(order + 1):
                for q in range(order + 1):
                    if lowest <= p + q <= order:
                        v = cx.real("%s_%d_%d" % (nm, p, q))
                        cx.assume(v != 0)
                        H.sip[(nm, p, q)] = v
                        h["%s_%d_%d" % (nm, p, q)] = v
        if proj != "SIPnoinv":
            h["ap_order"] = order
            h["bp_order"] = order
    if lonpole:
        H.lonpole = trig.angle("lonpole", 0, 360)
        h["longpole"] = H.lonpole
    H.h = h
    return H


def _hints(cx):
    """concrete sample points for the satisfiability side questions (reachability of a path); rational
    points of the unit circle for the angles"""
    R = z3.RealVal
    P = {"a": ("3/5", "4/5"), "b": ("-3/5", "4/5"), "c": ("4/5", "-3/5"), "d": ("-4/5", "-3/5"), "e": ("0", "1"), "f": ("5/13", "12/13")}

    def pr(nm, k):
        return [z3.Real(nm + "!s") == R(P[k][0]), z3.Real(nm + "!c") == R(P[k][1])]
    base = [trig.PI == R("3.141592653589793")]
    pts = [(1, 0), (0, 1), (-1, -1), (1, -2), (-2, 1), (0, 0)]
    combos = [("a", "a", "f"), ("c", "b", "a"), ("d", "a", "b"), ("e", "f", "c"), ("b", "b", "d"), ("a", "f", "e")]
    for (u, v), (k1, k2, k3) in zip(pts, combos):
        hs = list(base) + pr("ra0", k1) + pr("dec0", k2 if k2 in "abef" else "a") + pr("lon", k3) + pr("lat", "a" if k1 in "ab" else "f")
        for nm_u, nm_v in (("U", "V"), ("x", "y"), ("U0", "V0"), ("x0", "y0"), ("probe_x", "probe_y")):
            hs += [z3.Real(nm_u) == u, z3.Real(nm_v) == v]
        hs += [z3.Real("crpix1") == 0, z3.Real("crpix2") == 0]
        cx.hint(*hs)


def _ref_intermediate(H, x, y, distort=True):
    """intermediate world coordinates (degrees) of pixel (x, y) by the conventions"""
    u, v = x - H.crpix[0], y - H.crpix[1]
    cd = H.cd
    if H.sip:
        if distort:
            f = sum(c * u ** p * v ** q for (nm, p, q), c in H.sip.items() if nm == "a")
            g = sum(c * u ** p * v ** q for (nm, p, q), c in H.sip.items() if nm == "b")
            u, v = u + f, v + g
        return cd[0] * u + cd[1] * v, cd[2] * u + cd[3] * v
    xi, eta = cd[0] * u + cd[1] * v, cd[2] * u + cd[3] * v
    if H.pv and distort:
        xi2 = sum(c * xi ** _TPV[k][0] * eta ** _TPV[k][1] for (ax, k), c in H.pv.items() if ax == 1)
        eta2 = sum(c * eta ** _TPV[k][0] * xi ** _TPV[k][1] for (ax, k), c in H.pv.items() if ax == 2)
        return xi2, eta2
    return xi, eta


def _ref_direction(H, U, V):
    """gnomonic deprojection about (ra0, dec0): the unnormalised direction of the point
    with standard coordinates (U, V) in degrees"""
    pi180 = SReal(trig.PI / 180)
    xi, eta = U * pi180, V * pi180
    sa, ca, sd, cd = H.sa, H.ca, H.sd, H.cd_
    return (cd * ca - xi * sa - eta * sd * ca, cd * sa + xi * ca - eta * sd * sa, sd + eta * cd)


def _leaf(v):
    """the unclipped value behind nested if-then-else clipping"""
    if not is_sym(v):
        return v
    stack = [v.t]
    while stack:
        e = stack.pop()
        if z3.is_app_of(e, z3.Z3_OP_ITE):
            stack.extend(e.children()[1:])
        elif not z3.is_rational_value(z3.simplify(e)):
            return SReal(e)
    return v


def _cells(a):
    if isinstance(a, symnp.SArr):
        return list(a.a.flat)
    return [a]


def _first(a):
    return _cells(a)[0]


def _conditioning(cx, S, where):
    """the statement's accuracy near the poles needs the final inverse functions to be well
    conditioned: an arcsin/arccos whose argument can reach +-1 loses half the digits there"""
    for p in S.log:
        if p[0] in ("arcsin", "arccos"):
            u = p[1]
            if is_sym(u):
                cx.check("%s: no inverse sine/cosine of a value that can reach +-1 (ill-conditioned at the poles / the reference pixel)" % where,
                         sym_and(u < 1 - fractions.Fraction(1, 10 ** 12), u > -1 + fractions.Fraction(1, 10 ** 12)))


def _smt_eq(cx, label, a, b):
    """equality left to the solver (terms with if-then-else are outside the polynomial tier)"""
    ta, tb = _t(a), _t(b)
    if ta.eq(tb):
        return cx.check(label, True)
    return cx.check(label, wrap(ta == tb))


def _atan2_range(cx, label, ang, y, x, facts, goal):
    """a range claim about an arctan2 result, decided from the defining axioms of that atom alone with the
    two arguments generalised to fresh variables (facts: what is known about them)"""
    names = [n for n in ang.form]
    Y, X = z3.Real("Y!gen"), z3.Real("X!gen")
    hy = []
    for h in list(cx.pc) + list(cx.axioms):
        if any(n in symx.term_vars(h) for n in names):
            hy.append(z3.substitute(h, (_t(y), Y), (_t(x), X)))
    hy += facts(Y, X)
    hy.append(z3.Not(z3.And(X == 0, Y == 0)))
    if any(v not in names and v not in ("Y!gen", "X!gen") for h in hy for v in symx.term_vars(h)):
        return cx.check(label, goal)
    return cx.check(label, goal, hyps=hy)


def _gen(pairs):
    """generalisation: big argument terms replaced by fresh variables"""
    subs = [(_t(t), z3.Real(n + "!gen")) for t, n in pairs if is_sym(t)]

    def G(t):
        return z3.substitute(t, *subs) if subs else t
    return G, [v for _, v in subs]


def _gen_hyps(cx, G, allowed):
    """the path-condition literals and axioms that, after generalisation, speak only about `allowed`"""
    out = []
    for h in list(cx.pc) + list(cx.axioms):
        g = G(h)
        vs = symx.term_vars(g)
        if vs and set(vs) <= set(allowed):
            out.append(g)
    return out


def _check_direction(cx, H, S, U, V, lon, lat, where):
    """after image2sph(U, V): the last two arctan2 calls define the output direction; it must be the
    gnomonic deprojection of (U, V) about the reference point, and (lon, lat) must be those angles"""
    pr = [p for p in S.log if p[0] == "arctan2"]
    if not cx.check("%s: latitude and longitude each come from an arctan2 of the rotated vector" % where, len(pr) >= 2):
        return False
    b1, b0 = pr[-1][1], pr[-1][2]
    b2c, hyp = pr[-2][1], pr[-2][2]
    b2 = _leaf(b2c)
    p = _ref_direction(H, U, V)
    rho = symx.sym_sqrt(U * U + V * V)
    pi180 = SReal(trig.PI / 180)
    r = rho * pi180
    unit = False
    if is_sym(r) and r > 0:
        n2 = symx.sym_sqrt(1 + (1.0 / r) * (1.0 / r))
        scale = rho * n2 * pi180          # > 0: product of two positive roots
        oks = [cx.check_eq("%s: rotated vector = positive multiple of the gnomonic deprojection about (CRVAL1, CRVAL2)" % where, b * scale, pp)
               for b, pp in zip((b0, b1, b2), p)]
        oks.append(cx.check_eq("%s: the multiple is the length of the deprojected vector" % where, scale * scale, sum(pp * pp for pp in p)))
        if all(oks):
            # |b| = 1 follows: b_i S = p_i, sum p_i^2 = S^2, S > 0 (generalised to fresh variables)
            B = [z3.Real("B%d!gen" % i) for i in range(3)]
            Pv = [z3.Real("P%d!gen" % i) for i in range(3)]
            Sg = z3.Real("S!gen")
            unit = cx.check("%s: rotated vector has unit length" % where, wrap(sum(b_ * b_ for b_ in B) == 1),
                            hyps=[B[i] * Sg == Pv[i] for i in range(3)] + [sum(q * q for q in Pv) == Sg * Sg, Sg > 0])
    else:
        for b, pp in zip((b0, b1, b2), p):
            cx.check_eq("%s: at the reference pixel the direction is the reference point" % where, b, pp)
        unit = cx.check_eq("%s: rotated vector has unit length" % where, b0 * b0 + b1 * b1 + b2 * b2, 1)
    if unit:
        ax = _t(b0 * b0 + b1 * b1 + b2 * b2) == 1
        cx.axioms.append(ax)
        cx.solver.add(ax)
        if is_sym(b2c) and not b2c.t.eq(b2.t):
            Bz, Rest = z3.Real("Bz!gen"), z3.Real("Rest!gen")
            if cx.check("%s: clipping the sine of the latitude is the identity" % where, wrap(z3.And(Bz >= -1, Bz <= 1)),
                        hyps=[Rest + Bz * Bz == 1, Rest >= 0]):
                cx.axioms.append(b2c.t == b2.t)
                cx.solver.add(b2c.t == b2.t)
    cx.check_eq("%s: latitude = arctan2(z, horizontal length)" % where, hyp * hyp, b0 * b0 + b1 * b1)
    lo, la = _first(lon), _first(lat)
    if not cx.check("%s: outputs are angles in degrees" % where, isinstance(lo, trig.SAng) and isinstance(la, trig.SAng) and lo.k == 1 and la.k == 1):
        return False
    sl, cl = trig.sincos(trig.deg2rad(lo))
    rho2 = symx.sym_sqrt(b0 * b0 + b1 * b1)
    cx.check_eq("%s: returned longitude is the arctan2 of the rotated (y, x)" % where, sl * rho2, b1)
    cx.check_eq("%s: returned longitude is the arctan2 of the rotated (y, x)" % where, cl * rho2, b0)
    sb, cb = trig.sincos(trig.deg2rad(la))
    rho3 = symx.sym_sqrt(hyp * hyp + b2c * b2c)
    _smt_eq(cx, "%s: returned latitude is the arctan2 of the rotated (z, horizontal length)" % where, sb * rho3, b2c)
    _smt_eq(cx, "%s: returned latitude is the arctan2 of the rotated (z, horizontal length)" % where, cb * rho3, hyp)
    _atan2_range(cx, "%s: longitude in [0, 360)" % where, lo, b1, b0, lambda Y, X: [], sym_and(lo >= 0, lo < 360))
    _atan2_range(cx, "%s: latitude in [-90, 90]" % where, la, b2c, hyp, lambda Y, X: [X >= 0], sym_and(la >= -90, la <= 90))
    _conditioning(cx, S, where)
    return True


def _record_image2sph(W):
    """image2sph replaced by a recorder: the stage itself is decided in `deproj`; here only what it is handed
    and that its result is passed on unchanged"""
    calls = []

    def rec(u, v):
        r = (("lon-of", len(calls)), ("lat-of", len(calls)))
        calls.append(((u, v), r))
        return r
    W.image2sph = rec
    return calls


def _pos(cx, form, names=("x", "y")):
    n = {"scalar": 0, "array": 1, "array2": 2}[form]
    if n == 0:
        return [cx.real(nm) for nm in names], 0
    vals = [[cx.real("%s%d" % (nm, i)) for i in range(n)] for nm in names]
    return [symnp.array(v) for v in vals], n


def harness(cx, cfg):
    what = cfg[0]
    if what == "fpwrap":
        return _h_fpwrap(cx, cfg)
    trig.install()
    try:
        return _harness(cx, cfg)
    finally:
        trig.uninstall()


def _harness(cx, cfg):
    what = cfg[0]
    S = trig.st()
    if what == "rotmat":
        w, _ = _module(cx)
        H = _header(cx, "TAN", concrete_cd=True, lonpole=(cfg[1] == "lonpole"))
        W = w.WCS(H.h)
        R = W.rotation_matrix
        for i in range(3):
            for j in range(i, 3):
                cx.check_eq("rotation matrix is orthogonal (R R^T = 1) for every reference point%s" % (" and LONPOLE" if cfg[1] == "lonpole" else ""),
                            sum(R[i, k] * R[j, k] for k in range(3)), 1 if i == j else 0)
        det = (R[0, 0] * (R[1, 1] * R[2, 2] - R[1, 2] * R[2, 1]) - R[0, 1] * (R[1, 0] * R[2, 2] - R[1, 2] * R[2, 0])
               + R[0, 2] * (R[1, 0] * R[2, 1] - R[1, 1] * R[2, 0]))
        cx.check_eq("rotation matrix is proper (determinant +1)", det, 1)
        if cfg[1] == "default":
            want = [[H.ca * H.sd, -H.sa, H.ca * H.cd_], [H.sa * H.sd, H.ca, H.sa * H.cd_], [-H.cd_, 0, H.sd]]
            for i in range(3):
                for j in range(3):
                    cx.check_eq("rotation matrix rows are (-north, east, centre) of the reference point (LONPOLE = 180)", R[i, j], want[i][j])
        return
    if what == "deproj":
        w, _ = _module(cx)
        H = _header(cx, "TAN", concrete_cd=True)
        W = w.WCS(H.h)
        (U, V), n = _pos(cx, cfg[1], ("U", "V"))
        S.log[:] = []
        if n <= 1:
            lon, lat = W.image2sph(U, V)
            _check_direction(cx, H, S, _first(U), _first(V), lon, lat, "image2sph")
            cx.check("image2sph: result has the shape of the input", (n == 0) == (not isinstance(lon, symnp.SArr) or lon.ndim == 0))
        else:
            lon, lat = W.image2sph(U, V)
            # elementwise: every element equals the scalar result for that element
            for i in range(n):
                S.log[:] = []
                lo1, la1 = W.image2sph(U.tolist()[i], V.tolist()[i])
                cx.check_eq("image2sph: array element = scalar result (longitude)", lon.tolist()[i], _first(lo1))
                cx.check_eq("image2sph: array element = scalar result (latitude)", lat.tolist()[i], _first(la1))
        cx.assume_obligations(only=("arctan2",))
        return
    if what == "chain":
        w, _ = _module(cx)
        proj, form = cfg[1], cfg[2]
        H = _header(cx, proj)
        W = w.WCS(H.h)
        calls = _record_image2sph(W)
        (x, y), n = _pos(cx, form)
        distort = cx.flag("distort")
        cx.check("WCS(): a header without inverse coefficients leaves the inverse to be fitted on demand",
                 W.distort["name"] == "none" or W._inverse_computed is False)
        want_name = "none" if proj == "TAN" else ("sip" if H.sip else "scamp")
        cx.check("WCS(): distortion model recognised from CTYPE and the coefficient keywords", W.distort["name"] == want_name)
        lon, lat = W.image2sky(x, y, distort=distort)
        if not cx.check("image2sky: one deprojection per call", len(calls) == 1):
            return
        (u, v), r = calls[0]
        cx.check("image2sky: returns what the deprojection returns", r[0] is lon and r[1] is lat)
        for i in range(max(n, 1)):
            xi, yi = (x, y) if n == 0 else (x.tolist()[i], y.tolist()[i])
            ui, vi = (u, v) if n == 0 else (u.tolist()[i], v.tolist()[i])
            ru, rv = _ref_intermediate(H, xi, yi, distort)
            cx.check_eq("image2sky(%s): intermediate world coordinate 1 = the convention's (offset from CRPIX, CD matrix, distortion polynomial in order)" % proj.rstrip("3"), ui, ru)
            cx.check_eq("image2sky(%s): intermediate world coordinate 2 = the convention's (offset from CRPIX, CD matrix, distortion polynomial in order)" % proj.rstrip("3"), vi, rv)
        cx.assume_obligations(only=("arctan2",))
        return
    if what == "refpix":
        w, _ = _module(cx)
        H = _header(cx, cfg[1])
        W = w.WCS(H.h)
        S.log[:] = []
        lon, lat = W.image2sky(H.crpix[0], H.crpix[1])
        lo, la = _first(lon), _first(lat)
        if cx.check("image2sky(CRPIX): outputs are angles in degrees", isinstance(lo, trig.SAng) and isinstance(la, trig.SAng) and lo.k == 1 and la.k == 1):
            sl, cl = trig.sincos(trig.deg2rad(lo))
            sb, cb = trig.sincos(trig.deg2rad(la))
            # cos(dec0) > 0: the normalisations are cos(dec0) and 1
            cx.check_eq("reference pixel maps to CRVAL1 (sine of the longitude)", sl, H.sa)
            cx.check_eq("reference pixel maps to CRVAL1 (cosine of the longitude)", cl, H.ca)
            cx.check_eq("reference pixel maps to CRVAL2 (sine of the latitude)", sb, H.sd)
            cx.check_eq("reference pixel maps to CRVAL2 (cosine of the latitude)", cb, H.cd_)
            cx.check("reference pixel: longitude in [0, 360)", sym_and(lo >= 0, lo < 360))
        # the native longitude at the native pole is arctan2(0, -0): whatever it is, it is multiplied by
        # cos(90 deg) = 0; the final arctan2 calls have radius cos(dec0) > 0 and 1
        cx.drop_obligations("arctan2(0, 0) for the native longitude at the native pole: multiplied by cos(90 deg) = 0")
        return
    if what == "sph2image":
        w, _ = _module(cx)
        H = _header(cx, "TAN", concrete_cd=True)
        W = w.WCS(H.h)
        lon = trig.angle("lon", 0, 360)
        lat = trig.angle("lat", -90, 90)
        slo, clo = trig.pair("lon")
        sla, cla = trig.pair("lat")
        cx.assume(cla >= 0)
        s = (cla * clo, cla * slo, sla)
        e_c = (H.cd_ * H.ca, H.cd_ * H.sa, H.sd)
        e_e = (-H.sa, H.ca, 0)
        e_n = (-H.sd * H.ca, -H.sd * H.sa, H.cd_)
        dot = lambda a, b: sum(p * q for p, q in zip(a, b))
        S.log[:] = []
        if cfg[1] == "scalar":
            X, Y = W.sph2image(lon, lat)
        else:
            X, Y = W.sph2image(symnp.array([lon]), symnp.array([lat]))
        X, Y = _first(X), _first(Y)
        pr = [p for p in S.log if p[0] == "arctan2"]
        if not cx.check("sph2image: native angles come from arctan2 of the rotated vector", len(pr) >= 2):
            return
        (_, b2c, hyp, a_lat, (s1, c1), rho1), (_, b1, b0, a_lon, (s3, c3), rho3) = pr[0], pr[1]
        b2 = _leaf(b2c)
        for got, want in zip((b0, b1, b2), (-dot(e_n, s), dot(e_e, s), dot(e_c, s))):
            cx.check_eq("sph2image: rotated vector = (-north, east, centre) components of the sky direction", got, want)
        cx.certify_obligations([("b0^2 + b1^2", [b0, b1])])
        if cx.check_eq("sph2image: rotated vector has unit length", b0 * b0 + b1 * b1 + b2 * b2, 1):
            Bz, Rest = z3.Real("Bz!gen"), z3.Real("Rest!gen")
            if is_sym(b2c) and not b2c.t.eq(b2.t) and cx.check("sph2image: clipping the sine of the native latitude is the identity",
                                                                wrap(z3.And(Bz >= -1, Bz <= 1)), hyps=[Rest + Bz * Bz == 1, Rest >= 0]):
                cx.axioms.append(b2c.t == b2.t)
                cx.solver.add(b2c.t == b2.t)
        cx.check_eq("sph2image: native latitude = arctan2(z, horizontal length)", hyp * hyp, b0 * b0 + b1 * b1)
        cx.check("sph2image: native longitude is measured in the same horizontal plane", rho3.t.eq(hyp.t))
        # generalised to fresh variables: the two arctan2 results are known only through their defining relations
        G, (B2, B1, B0) = _gen([(b2c, "B2"), (b1, "B1"), (b0, "B0")])
        names = {"B2!gen", "B1!gen", "B0!gen", "PI"} | set(a_lat.form) | set(a_lon.form)
        for v in (s1, c1, s3, c3, rho1, hyp):
            names |= set(symx.term_vars(v.t))
        hy = _gen_hyps(cx, G, names)
        near = is_sym(X) or is_sym(Y)
        cx.assume_obligations(only=("arctan2", "division"))
        hy = _gen_hyps(cx, G, names)
        if near:
            # the branch latitude > 0 was taken
            pos = cx.check("sph2image: the projected branch is taken only in front of the tangent plane (centre component > 0)",
                           wrap(B2 > 0), hyps=hy + [hyp.t >= 0, rho1.t > 0])
            pi180 = trig.PI / 180
            dz = [hyp.t > 0, rho1.t > 0, B2 > 0, s1.t != 0]
            cx.check("sph2image: x = (180/pi) east/centre (gnomonic projection)", wrap(G(_t(X)) * B2 * pi180 == B1), hyps=hy + dz)
            cx.check("sph2image: y = (180/pi) north/centre (gnomonic projection)", wrap(G(_t(Y)) * B2 * pi180 == -B0), hyps=hy + dz)
        else:
            cx.check("sph2image: (0, 0) is returned only for positions 90 degrees or more from the reference point",
                     wrap(B2 <= 0), hyps=hy + [hyp.t >= 0, rho1.t > 0])
        _conditioning(cx, S, "sph2image")
        cx.assume_obligations(only=("arctan2", "division"))
        return
    if what == "cdinv":
        w, _ = _module(cx)
        H = _header(cx, "TAN")
        W = w.WCS(H.h)
        a, b = cx.real("a"), cx.real("b")
        u, v = W.ApplyCDMatrix(a, b)
        cx.check_eq("ApplyCDMatrix: forward is the CD matrix product", u, H.cd[0] * a + H.cd[1] * b)
        cx.check_eq("ApplyCDMatrix: forward is the CD matrix product", v, H.cd[2] * a + H.cd[3] * b)
        a2, b2 = W.ApplyCDMatrix(u, v, inverse=True)
        cx.check_eq("ApplyCDMatrix(inverse) inverts ApplyCDMatrix", a2, a)
        cx.check_eq("ApplyCDMatrix(inverse) inverts ApplyCDMatrix", b2, b)
        u3, v3 = W.ApplyCDMatrix(*W.ApplyCDMatrix(a, b, inverse=True))
        cx.check_eq("ApplyCDMatrix inverts ApplyCDMatrix(inverse)", u3, a)
        cx.check_eq("ApplyCDMatrix inverts ApplyCDMatrix(inverse)", v3, b)
        cx.assume_obligations()
        return
    if what == "invchain":
        # sky2image without root finding: sph2image, then the stages of image2sky undone in reverse order
        w, _ = _module(cx)
        proj = cfg[1]
        H = _header(cx, proj if proj != "TPV" else "TPVsparse")
        W = w.WCS(H.h)
        Fa, Fb = _stub_fit(cx, W, H)
        U0, V0 = cx.real("U0"), cx.real("V0")
        W.sph2image = lambda lon, lat: (U0 * 1, V0 * 1)
        distort = cx.flag("distort")
        lon = trig.angle("lon", 0, 360)
        lat = trig.angle("lat", -90, 90)
        X, Y = W.sky2image(lon, lat, distort=distort, find=False)
        ci = _LinAlg.inv(symnp.array([[H.cd[0], H.cd[1]], [H.cd[2], H.cd[3]]]))

        def poly(F, a, b):
            n = F.shape[0]
            return sum(F[i, j] * a ** i * b ** j for i in range(n) for j in range(n) if is_sym(F[i, j]) or F[i, j] != 0)
        if proj == "SIP":
            u, v = ci[0, 0] * U0 + ci[0, 1] * V0, ci[1, 0] * U0 + ci[1, 1] * V0
            if distort:
                u, v = u + poly(Fa, u, v), v + poly(Fb, u, v)
        else:
            u, v = U0, V0
            if distort and proj != "TAN":
                u, v = poly(Fa, U0, V0), poly(Fb, U0, V0)
            u, v = ci[0, 0] * u + ci[0, 1] * v, ci[1, 0] * u + ci[1, 1] * v
        cx.check_eq("sky2image(find=False): stages of image2sky undone in reverse order, inverse polynomial as fitted (x)", X, u + H.crpix[0])
        cx.check_eq("sky2image(find=False): stages of image2sky undone in reverse order, inverse polynomial as fitted (y)", Y, v + H.crpix[1])
        cx.assume_obligations()
        return
    if what == "compose":
        # glue between the stage contracts: `deproj` shows image2sph returns the direction of
        # p = centre + xi east + eta north, `sph2image` shows sph2image returns (180/pi) (east.s, north.s) / (centre.s)
        # for any direction s in front of the tangent plane.  With the triad orthonormal the second undoes the
        # first: east.p = xi, north.p = eta, centre.p = 1 > 0 (the normalisation cancels in the ratio).
        H = _header(cx, "TAN", concrete_cd=True)
        U, V = cx.real("U"), cx.real("V")
        p = _ref_direction(H, U, V)
        pi180 = SReal(trig.PI / 180)
        e_c = (H.cd_ * H.ca, H.cd_ * H.sa, H.sd)
        e_e = (-H.sa, H.ca, 0)
        e_n = (-H.sd * H.ca, -H.sd * H.sa, H.cd_)
        dot = lambda a, b: sum(x_ * y_ for x_, y_ in zip(a, b))
        cx.check_eq("stage contracts compose: centre component of the deprojected vector is 1", dot(e_c, p), 1)
        cx.check_eq("stage contracts compose: east component of the deprojected vector is xi", dot(e_e, p), U * pi180)
        cx.check_eq("stage contracts compose: north component of the deprojected vector is eta", dot(e_n, p), V * pi180)
        return
    if what == "two_objects":
        # objects are independent: constructing (and using) a second WCS changes nothing in the first
        w, _ = _module(cx)
        pa, pb = cfg[1], cfg[2]
        names = {"TPV": "TPVfew", "SIP": "SIPnoinv", "TAN": "TAN"}
        HA = _header(cx, names[pa], concrete_cd=True)
        A = w.WCS(HA.h)
        sA = _snap(A)
        dA = A.distort
        hb = dict(HA.h)
        for k in list(hb):
            if k.startswith(("pv", "a_", "b_", "ap_", "bp_")):
                del hb[k]
        kindb = {"TPV": "TPV", "SIP": "TAN-SIP", "TAN": "TAN"}[pb]
        hb["ctype1"], hb["ctype2"] = "RA---" + kindb, "DEC--" + kindb
        if pb == "TPV":
            hb.update(pv1_1=cx.real("q1_1"), pv2_1=cx.real("q2_1"))
        elif pb == "SIP":
            hb.update(a_order=2, b_order=2, a_2_0=cx.real("qa_2_0"), b_0_2=cx.real("qb_0_2"))
        B = w.WCS(hb)
        cx.check("two WCS objects do not share their distortion record", B.distort is not dA and A.distort is dA)
        d = _diff_snap(sA, _snap(A))
        cx.check("constructing a second WCS leaves the first one's state unchanged", not d, detail=str(d))
        want = {"TPV": "scamp", "SIP": "sip", "TAN": "none"}
        cx.check("each object has the distortion model of its own header", A.distort["name"] == want[pa] and B.distort["name"] == want[pb])
        _stub_fit(cx, B, HA)
        B.sph2image = lambda lon, lat: (cx.real("Ub") * 1, cx.real("Vb") * 1)
        if B.distort["name"] != "none":
            B.sky2image(trig.angle("lonb", 0, 360), trig.angle("latb", -90, 90), find=False)
        d = _diff_snap(sA, _snap(A))
        cx.check("the lazy inverse fit of one object leaves the other's state unchanged", not d, detail=str(d))
        cx.assume_obligations()
        return
    if what in ("pure", "lazy", "find", "jacobian", "wrap_ra_diff"):
        return _h_state(cx, cfg)
    raise AssertionError(cfg)


def _congruent(a, b, m=360):
    d = (a - b) / m
    t = symx.real_term(d)
    return wrap(t == z3.ToReal(z3.ToInt(t)))


def _stub_fit(cx, W, H, log=None, mats=None):
    """InvertDistortion by contract: stores some coefficient matrices (a function of the header only);
    bound: symbolic non-zero entries for total degree <= 2, zero above"""
    if W.distort["name"] == "none":
        return None, None
    n = W.distort["a"].shape[0] + 1

    def mk(nm):
        M = symnp.zeros((n, n))
        for i in range(n):
            for j in range(n):
                if i + j <= 2:
                    v = cx.real("fit_%s_%d_%d" % (nm, i, j))
                    cx.assume(v != 0)
                    M[i, j] = v
        return M
    Fa, Fb = mats if mats is not None else (mk("ap"), mk("bp"))

    def stub(*a, **k):
        if log is not None:
            log.append("fit")
        W.distort["ap"] = Fa
        W.distort["bp"] = Fb
        return 0.0
    W.InvertDistortion = stub
    return Fa, Fb


class _RotStub(object):
    """WCS._rotate by contract: a pure function of (longitude, latitude, matrix) returning a longitude in
    [-180, 180] and a latitude in [-90, 90] (decided, with the real method, in `deproj` and `sph2image`);
    shared between objects of one header so that equal arguments give equal results"""

    def __init__(self, cx):
        self.cx = cx
        self.memo = {}

    def __call__(self, longitude, latitude, r):
        rk = tuple(_key(c) for c in r.a.flat)

        def one(lo, la):
            k = (_key(lo), _key(la), rk)
            if k not in self.memo:
                i = len(self.memo)
                self.memo[k] = (trig.angle("rotlon%d" % i, -180, 180), trig.angle("rotlat%d" % i, -90, 90))
            return self.memo[k]
        if isinstance(longitude, symnp.SArr):
            rs = [one(a, b) for a, b in zip(_cells(longitude), _cells(latitude))]
            return (symnp.array([x[0] for x in rs]).reshape(longitude.shape), symnp.array([x[1] for x in rs]).reshape(longitude.shape))
        return one(longitude, latitude)


def _watch_image2sph(W, seen):
    """record what image2sph is handed (it still runs): its radicand u^2 + v^2 is certified non-negative as a sum of squares"""
    orig = W.image2sph

    def i2s(u, v):
        seen.append((u, v))
        return orig(u, v)
    W.image2sph = i2s


def _certify_radicands(cx, seen):
    for u, v in seen:
        cx.certify_obligations([("u^2 + v^2", [_first(u), _first(v)])])


def _key(c):
    return c.t.sexpr() if is_sym(c) else repr(c)


def _snapv(v):
    if isinstance(v, symnp.SArr):
        return ("arr", tuple(v.shape), tuple(_key(c) for c in v.a.flat))
    if isinstance(v, dict):
        return ("dict", tuple((str(k), _snapv(x)) for k, x in sorted(v.items(), key=lambda kv: str(kv[0]))))
    if is_sym(v):
        return _key(v)
    return repr(v)


def _snap(W):
    return tuple((k, _snapv(v)) for k, v in sorted(W.__dict__.items()) if isinstance(v, (symnp.SArr, dict)) or not callable(v))


def _diff_snap(a, b):
    return [k for (k, v), (k2, v2) in zip(a, b) if v != v2] if len(a) == len(b) else ["attributes added or removed"]


def _h_state(cx, cfg):
    what = cfg[0]
    S = trig.st()
    if what == "wrap_ra_diff":
        w, _ = _module(cx)
        d = cx.real("dra", -900, 900)
        if cfg[1] == "scalar":
            r = w.wrap_ra_diff(d)
        else:
            r = w.wrap_ra_diff(symnp.array([d])).tolist()[0]
        cx.check("wrap_ra_diff: result in [-180, 180]", sym_and(r >= -180, r <= 180))
        cx.check("wrap_ra_diff: result = input modulo 360", _congruent(r, d))
        return
    if what == "pure":
        w, _ = _module(cx)
        proj = cfg[1]
        H = _header(cx, "TPVfew" if proj == "TPV" else proj, concrete_cd=True)
        W = w.WCS(H.h)
        _stub_fit(cx, W, H)
        W._rotate = _RotStub(cx)
        seen_uv = []
        _watch_image2sph(W, seen_uv)
        s0 = _snap(W)
        op = cx.choice("op", 4)
        if op in (0, 1):
            x, y = cx.real("x"), cx.real("y")
            distort = cx.flag("distort")
            if op == 0:
                W.image2sky(x, y, distort=distort)
            else:
                W.image2sky(symnp.array([x]), symnp.array([y]), distort=distort)
            nm = "image2sky"
        else:
            lon = trig.angle("lon", 0, 360)
            lat = trig.angle("lat", -90, 90)
            cx.assume(trig.pair("lat")[1] >= 0)
            if op == 2:
                W.sky2image(lon, lat, find=False, distort=False)
            else:
                W.sky2image(symnp.array([lon]), symnp.array([lat]), find=False, distort=False)
            nm = "sky2image(find=False, distort=False)"
        d = _diff_snap(s0, _snap(W))
        cx.check("%s leaves the object's state unchanged" % nm, not d, detail=str(d))
        _certify_radicands(cx, seen_uv)
        cx.assume_obligations(only=("arctan2", "division"))
        return
    if what == "lazy":
        w, _ = _module(cx)
        proj = cfg[1]
        H = _header(cx, "TPVfew" if proj == "TPV" else "SIPnoinv", concrete_cd=True)
        W = w.WCS(H.h)
        log = []
        Fa, Fb = _stub_fit(cx, W, H, log)
        U0, V0 = cx.real("U0"), cx.real("V0")
        sph = lambda lon, lat: (U0 * 1, V0 * 1)       # pure stage, decided in `sph2image`
        W.sph2image = sph
        rot = _RotStub(cx)
        W._rotate = rot
        lon = trig.angle("lon", 0, 360)
        lat = trig.angle("lat", -90, 90)
        r1 = W.sky2image(lon, lat, find=False)
        r2 = W.sky2image(lon, lat, find=False)
        cx.check_eq("sky2image(find=False): the first call on a fresh object returns what the same call returns afterwards (x)", r1[0], r2[0])
        cx.check_eq("sky2image(find=False): the first call on a fresh object returns what the same call returns afterwards (y)", r1[1], r2[1])
        cx.check("the inverse polynomial is fitted once, on first use", len(log) == 1)
        # another history on a second object of the same header
        W2 = w.WCS(H.h)
        log2 = []
        _stub_fit(cx, W2, H, log2, mats=(Fa, Fb))
        W2.sph2image = sph
        W2._rotate = rot
        seen_uv = []
        _watch_image2sph(W2, seen_uv)
        hist = cx.choice("history", 4)
        x, y = cx.real("x"), cx.real("y")
        if hist == 0:
            W2.image2sky(x, y)
        elif hist == 1:
            W2.sky2image(lon, lat, find=False, distort=False)
        elif hist == 2:
            U1, V1 = cx.real("U1"), cx.real("V1")
            W2.sph2image = lambda lon, lat: (U1 * 1, V1 * 1)
            W2.sky2image(trig.angle("lon1", 0, 360), trig.angle("lat1", -90, 90), find=False)
            W2.sph2image = sph
        else:
            W2.Distort(x, y)
        r3 = W2.sky2image(lon, lat, find=False)
        cx.check_eq("sky2image(find=False): same result whatever the object did before (x)", r1[0], r3[0])
        cx.check_eq("sky2image(find=False): same result whatever the object did before (y)", r1[1], r3[1])
        _certify_radicands(cx, seen_uv)
        cx.assume_obligations()
        return
    if what == "find":
        w, fs = _module(cx, with_scipy=True)
        proj, form = cfg[1], cfg[2]
        H = _header(cx, "TPVfew" if proj == "TPV" else "SIPnoinv", concrete_cd=True)
        W = w.WCS(H.h)
        _stub_fit(cx, W, H)
        rot = _RotStub(cx)
        W._rotate = rot
        seen_uv = []
        _watch_image2sph(W, seen_uv)
        # arbitrary left-overs of earlier calls in the scratch buffers
        W.lonlat_answer = symnp.array([cx.real("left_lon"), cx.real("left_lat")])
        W.xyguess = symnp.array([cx.real("left_x"), cx.real("left_y")])
        lon = trig.angle("lon", 0, 360)
        lat = trig.angle("lat", -90, 90)
        cx.assume(trig.pair("lat")[1] >= 0)
        if form == "scalar":
            X, Y = W.sky2image(lon, lat)
        else:
            X, Y = W.sky2image(symnp.array([lon]), symnp.array([lat]))
        if not cx.check("sky2image(find=True): one root search per position", len(fs.calls) == 1):
            return
        c = fs.calls[0]
        W2 = w.WCS(H.h)
        _stub_fit(cx, W2, H)
        W2._rotate = rot
        _watch_image2sph(W2, seen_uv)
        gx, gy = W2.sky2image(lon, lat, find=False, distort=False)
        cx.check_eq("sky2image(find=True): the search starts from the undistorted inverse, whatever the buffers held (x)", c["guess"][0], _first(gx))
        cx.check_eq("sky2image(find=True): the search starts from the undistorted inverse, whatever the buffers held (y)", c["guess"][1], _first(gy))
        lonP, latP = W2.image2sky(fs.P[0], fs.P[1])
        res = c["residual"]
        cx.check_eq("sky2image(find=True): latitude residual = image2sky(x, y) - requested latitude", res[1], _first(latP) - lat)
        cx.check("sky2image(find=True): longitude residual lies in [-180, 180] (wrapped whichever side of the RA = 0 seam the iterate is on)",
                 sym_and(res[0] >= -180, res[0] <= 180))
        cx.check("sky2image(find=True): longitude residual = image2sky(x, y) - requested longitude modulo 360",
                 _congruent(res[0], _first(lonP) - lon))
        cx.check("sky2image(find=True): returns the root that was found",
                 is_sym(_first(X)) and is_sym(_first(Y)) and str(_first(X).t) == "root0_x" and str(_first(Y).t) == "root0_y")
        cx.check("sky2image(find=True): result has the shape of the input", (form == "scalar") == (not isinstance(X, symnp.SArr) or X.ndim == 0))
        _certify_radicands(cx, seen_uv)
        cx.assume_obligations(only=("arctan2", "division"))
        return
    if what == "jacobian":
        w, _ = _module(cx)
        H = _header(cx, "TAN", concrete_cd=True)
        W = w.WCS(H.h)
        memo = {}

        def one(xc, yc):
            k = (_key(xc), _key(yc))
            if k not in memo:
                i = len(memo)
                ra = trig.angle("ra%d" % i, 0, 360)
                cx.assume(ra < 360)
                memo[k] = (ra, trig.angle("dec%d" % i, -90, 90))
            return memo[k]

        def fake(x, y, distort=True):
            # image2sky by contract (pure function of the position: `pure`, `chain`, `deproj`)
            if isinstance(x, symnp.SArr) or isinstance(y, symnp.SArr):
                xs, ys = _cells(x), _cells(y)
                rs = [one(a, b) for a, b in zip(xs, ys)]
                return symnp.array([r[0] for r in rs]), symnp.array([r[1] for r in rs])
            return one(x, y)
        W.image2sky = fake
        x, y = cx.real("x"), cx.real("y")
        s0 = _snap(W)
        js = W.get_jacobian(x, y)
        ja = W.get_jacobian(symnp.array([x]), symnp.array([y]))
        for a, b in zip(js, ja):
            cx.check_eq("get_jacobian: array input gives the scalar result element by element", _first(b), _first(a))
        d = _diff_snap(s0, _snap(W))
        cx.check("get_jacobian leaves the object's state unchanged", not d, detail=str(d))
        return
    raise AssertionError(cfg)


def _h_fpwrap(cx, cfg):
    """longitude in [0, 360) as a statement about IEEE doubles: image2sph run with Rotate by contract (any
    finite double in [-180, 180] for the longitude -- what arctan2 times 180/pi can return) and the wrap
    executed over the z3 FloatingPoint sort"""
    w, _ = _module(cx)
    h = dict(_concrete_headers()[0][1])
    W = w.WCS(h)
    form = cfg[1]
    lonv = cx.fp("rot_lon", -180.0, 180.0)
    latv = cx.fp("rot_lat", -90.0, 90.0)

    def rot(lon, lat, reverse=False, origin=False):
        if form == "scalar":
            return lonv, latv
        return symnp.array([lonv]), symnp.array([latv])
    W.Rotate = rot
    if form == "scalar":
        lon, lat = W.image2sph(3.0, -4.0)
    else:
        lon, lat = W.image2sph(symnp.array([3.0]), symnp.array([-4.0]))
    lo = _first(lon)
    cx.check("image2sph (IEEE doubles): whatever longitude in [-180, 180] the rotation returns, the result lies in [0, 360)",
             sym_and(lo >= 0.0, lo < 360.0))
    cx.check("image2sph (IEEE doubles): the wrapped longitude differs from the rotated one by 0 or 360",
             sym_or(lo == lonv, lo == lonv + 360.0, lo == lonv - 360.0, lo == (lonv + 360.0) - 360.0))



# ---------------------------------------------------------------------------------------------
# conformance: the module under the shims against the real module on concrete headers

def _concrete_headers():
    """(name, header) of realistic magnitude: pixel scales 0.05..2 arcsec, rotations/flips, polar and seam reference points"""
    import math as m
    out = []
    base = {"naxis1": 2048, "naxis2": 4096, "crpix1": 1024.5, "crpix2": 2048.25}

    def cdm(scale_arcsec, rot_deg, flip):
        sc = scale_arcsec / 3600.0
        c, s_ = m.cos(m.radians(rot_deg)), m.sin(m.radians(rot_deg))
        return {"cd1_1": -sc * c * flip, "cd1_2": sc * s_, "cd2_1": sc * s_ * flip, "cd2_2": sc * c}
    refs = [("mid", 150.1163213, 2.2005731), ("seam0", 0.0, -35.5), ("seam360", 359.99999, 12.0), ("npole", 211.0, 89.99993), ("spole", 17.0, -89.9991),
            ("equator", 281.3, 0.0)]
    k = 0
    for nm, ra0, dec0 in refs:
        k += 1
        h = dict(base, ctype1="RA---TAN", ctype2="DEC--TAN", crval1=ra0, crval2=dec0, **cdm((0.05, 0.263, 2.0)[k % 3], (0.0, 33.0, 181.5, 270.0)[k % 4], (1, -1)[k % 2]))
        out.append(("TAN:" + nm, h))
    pv = {"pv1_0": 2.1e-4, "pv1_1": 1.0012, "pv1_2": -3.1e-4, "pv1_4": 6.3e-3, "pv1_5": -2.7e-3, "pv1_6": 1.9e-3, "pv1_7": -2.4e-2, "pv1_8": 3.3e-3,
          "pv1_9": -1.8e-2, "pv1_10": 1.1e-3, "pv2_0": -1.4e-4, "pv2_1": 0.9991, "pv2_2": 2.2e-4, "pv2_4": -5.1e-3, "pv2_5": 1.7e-3, "pv2_6": 2.9e-3,
          "pv2_7": 2.0e-2, "pv2_8": -1.3e-3, "pv2_9": 1.6e-2, "pv2_10": -2.1e-3}
    for nm, ra0, dec0 in (refs[0], refs[1], refs[3]):
        h = dict(base, ctype1="RA---TPV", ctype2="DEC--TPV", crval1=ra0, crval2=dec0, **cdm(0.263, 91.0, 1))
        h.update(pv)
        out.append(("TPV:" + nm, h))
    h = dict(base, ctype1="RA---TAN", ctype2="DEC--TAN", crval1=55.5, crval2=-41.0, **cdm(0.263, 0.5, 1))
    h.update(pv)
    out.append(("TANPV:mid", h))
    sip = {"a_order": 3, "b_order": 3, "a_2_0": 2.1e-6, "a_1_1": -1.3e-6, "a_0_2": 3.9e-7, "a_3_0": 1.1e-10, "a_2_1": -2.2e-10, "a_1_2": 4.0e-11, "a_0_3": 7.0e-11,
           "b_2_0": -1.9e-6, "b_1_1": 2.4e-6, "b_0_2": 1.2e-6, "b_3_0": -6.0e-11, "b_2_1": 9.0e-11, "b_1_2": -1.5e-10, "b_0_3": 2.0e-10}
    for nm, ra0, dec0 in (refs[0], refs[2], refs[4]):
        h = dict(base, ctype1="RA---TAN-SIP", ctype2="DEC--TAN-SIP", crval1=ra0, crval2=dec0, **cdm(0.5, 12.0, -1))
        h.update(sip)
        out.append(("SIP:" + nm, h))
    # constant and linear SIP terms, as some writers emit them
    h = dict(base, ctype1="RA---TAN-SIP", ctype2="DEC--TAN-SIP", crval1=95.25, crval2=31.5, **cdm(0.4, -20.0, 1))
    h.update(sip)
    h.update({"a_0_0": 0.31, "a_1_0": 1.2e-4, "a_0_1": -2.3e-4, "b_0_0": -0.17, "b_1_0": 3.1e-4, "b_0_1": -0.8e-4})
    out.append(("SIP:low-order", h))
    return out


def _ref_image2sky(h, x, y, distort=True):
    """FITS-WCS reference computation in extended precision: offset from CRPIX, CD matrix and distortion in
    the convention's order, gnomonic deprojection about (CRVAL1, CRVAL2).  Returns lon in [0, 360), lat and the unit vector"""
    import numpy as np
    L = np.longdouble
    g = lambda k, d=0.0: L(h.get(k, d))
    u, v = L(x) - g("crpix1"), L(y) - g("crpix2")
    proj = h["ctype1"][4:].strip().upper()
    if proj == "-TAN-SIP":
        if distort:
            na, nb = int(h["a_order"]), int(h["b_order"])
            f = sum(g("a_%d_%d" % (p, q)) * u ** p * v ** q for p in range(na + 1) for q in range(na + 1) if ("a_%d_%d" % (p, q)) in h)
            gg = sum(g("b_%d_%d" % (p, q)) * u ** p * v ** q for p in range(nb + 1) for q in range(nb + 1) if ("b_%d_%d" % (p, q)) in h)
            u, v = u + f, v + gg
        xi, eta = g("cd1_1") * u + g("cd1_2") * v, g("cd2_1") * u + g("cd2_2") * v
    else:
        xi, eta = g("cd1_1") * u + g("cd1_2") * v, g("cd2_1") * u + g("cd2_2") * v
        if distort and any(k.startswith("pv1_") or k.startswith("pv2_") for k in h):
            x1 = sum(g("pv1_%d" % k) * xi ** e[0] * eta ** e[1] for k, e in _TPV.items() if ("pv1_%d" % k) in h)
            e1 = sum(g("pv2_%d" % k) * eta ** e[0] * xi ** e[1] for k, e in _TPV.items() if ("pv2_%d" % k) in h)
            xi, eta = x1, e1
    d2r = np.pi.astype(L) / 180 if hasattr(np.pi, "astype") else L(np.pi) / 180
    d2r = np.arctan(L(1)) * 4 / 180
    xi, eta = xi * d2r, eta * d2r
    a0, d0 = g("crval1") * d2r, g("crval2") * d2r
    sa, ca, sd, cd = np.sin(a0), np.cos(a0), np.sin(d0), np.cos(d0)
    p = np.array([cd * ca - xi * sa - eta * sd * ca, cd * sa + xi * ca - eta * sd * sa, sd + eta * cd], dtype=L)
    p = p / np.sqrt((p * p).sum())
    lon = np.arctan2(p[1], p[0]) / d2r
    if lon < 0:
        lon += 360
    lat = np.arctan2(p[2], np.hypot(p[0], p[1])) / d2r
    return lon, lat, p


def _sep_deg(lon, lat, p):
    """angle (degrees) between the direction (lon, lat) in double precision and the reference unit vector"""
    import numpy as np
    L = np.longdouble
    d2r = np.arctan(L(1)) * 4 / 180
    lo, la = L(lon) * d2r, L(lat) * d2r
    q = np.array([np.cos(la) * np.cos(lo), np.cos(la) * np.sin(lo), np.sin(la)], dtype=L)
    cr = np.cross(p, q)
    return float(np.arctan2(np.sqrt((cr * cr).sum()), (p * q).sum()) / d2r)


def conformance():
    import numpy as np
    import importlib
    import sys
    import warnings
    warnings.simplefilter("ignore")
    sys.path.insert(0, loader.real_repo())
    try:
        real = importlib.import_module("esutil.wcsutil")
    finally:
        sys.path.pop(0)
    symnp.linalg = _LinAlg
    m = loader.Loader().get("esutil.wcsutil")
    n = 0
    for name, h in _concrete_headers():
        if name.startswith("SIP"):
            h = dict(h, ap_order=3, bp_order=3)     # shim against real module only; the optional keys are the check's business
        Wr = real.WCS(dict(h))
        Ws = m.WCS(dict(h))
        for x, y in ((1.0, 1.0), (1024.5, 2048.25), (1999.0, 17.5), (-350.0, 4500.0)):
            for distort in (True, False):
                if name.startswith("SIP") and not distort:
                    try:
                        a = Wr.image2sky(x, y, distort=distort)
                    except UnboundLocalError:
                        continue        # known defect (decided by the check itself, not here)
                a = Wr.image2sky(x, y, distort=distort)
                b = Ws.image2sky(x, y, distort=distort)
                assert abs(float(a[0]) - float(b[0])) < 1e-9 and abs(float(a[1]) - float(b[1])) < 1e-9, (name, x, y, a, b)
                aa = Wr.image2sky(np.array([x, y]), np.array([y, x]), distort=distort)
                bb = Ws.image2sky(symnp.array([x, y]), symnp.array([y, x]), distort=distort)
                assert np.allclose(aa[0], [float(v) for v in bb[0].tolist()], rtol=0, atol=1e-9), (name, aa, bb)
                n += 2
            lon, lat = Wr.image2sky(x, y, distort=False) if not name.startswith("SIP") else Wr.image2sky(x, y)
            a = Wr.sky2image(float(lon), float(lat), find=False, distort=False)
            b = Ws.sky2image(float(lon), float(lat), find=False, distort=False)
            assert abs(float(a[0]) - float(b[0])) < 1e-6 and abs(float(a[1]) - float(b[1])) < 1e-6, (name, a, b)
            n += 1
        for d in (-725.0, -180.0, -10.0, 0.0, 180.0, 181.0, 540.5):
            assert float(real.wrap_ra_diff(d)) == float(m.wrap_ra_diff(d))
            n += 1
    return n


# ---------------------------------------------------------------------------------------------
# replay: the candidate's configuration exercised end to end on the real module

def _model_header(cfg, mdl):
    """a concrete header from the model where its values are of realistic magnitude (the quantifier of the
    property: pixel scales 0.05..2 arcsec, coefficients of realistic size); None otherwise"""
    from vf.symx import model_float

    def mf(k, d=None):
        v = mdl.get(k)
        return model_float(v) if v is not None else d
    if "ra0!s" not in mdl and "ra0" not in mdl:
        return None
    ra0 = trig.model_angle(mdl, "ra0") % 360.0
    dec0 = max(-89.9999, min(89.9999, trig.model_angle(mdl, "dec0")))
    cd = [mf("cd1_1"), mf("cd1_2"), mf("cd2_1"), mf("cd2_2")]
    if any(c is None for c in cd):
        cd = [-7.3e-5, 2.0e-6, 2.1e-6, 7.3e-5]
    det = cd[0] * cd[3] - cd[1] * cd[2]
    sc = abs(det) ** 0.5
    if not (1.0e-5 <= sc <= 6.0e-4) or max(abs(c) for c in cd) > 1e-3:
        cd = [-7.3e-5, 2.0e-6, 2.1e-6, 7.3e-5]
    cp = [mf("crpix1", 1024.5), mf("crpix2", 2048.25)]
    if not all(abs(c) < 1e5 for c in cp):
        cp = [1024.5, 2048.25]
    return {"naxis1": 2048, "naxis2": 4096, "ctype1": "RA---TAN", "ctype2": "DEC--TAN", "crpix1": cp[0], "crpix2": cp[1], "crval1": ra0, "crval2": dec0,
            "cd1_1": cd[0], "cd1_2": cd[1], "cd2_1": cd[2], "cd2_2": cd[3]}


def _positions(h, mdl):
    from vf.symx import model_float
    pts = []
    for kx, ky in (("x", "y"), ("x0", "y0")):
        if kx in mdl and ky in mdl:
            x, y = model_float(mdl[kx]), model_float(mdl[ky])
            if abs(x) < 2e4 and abs(y) < 2e4:
                pts.append((x, y))
    cx_, cy_ = float(h["crpix1"]), float(h["crpix2"])
    pts += [(cx_, cy_), (cx_ + 1.0, cy_), (cx_, cy_ - 1.0), (cx_ + 0.25, cy_ + 3.5), (1.0, 1.0), (2048.0, 4096.0), (1.0, 4096.0), (-3000.0, 9000.0), (700.5, 1800.25),
            (cx_, 1.0), (cx_, 4096.0)]
    return pts


def replay(cand):
    import numpy as np
    import warnings
    warnings.simplefilter("ignore")
    import esutil.wcsutil as w
    cfg = tuple(cand["cfg"]) if isinstance(cand["cfg"], (list, tuple)) else (cand["cfg"],)
    mdl = cand["model"] or {}
    what = cfg[0]
    no = {"reproduced": False, "what": "agrees", "key": None}
    from vf.symx import model_float

    def bad(key, msg):
        return {"reproduced": True, "key": key, "what": msg}
    if what in ("wrap_ra_diff",):
        d = model_float(mdl.get("dra", 0.0))
        for dd in (d, -d, d + 360.0, 539.999, -180.0, 180.0):
            for arg in (float(dd), np.array([float(dd)])):
                r = float(np.atleast_1d(w.wrap_ra_diff(arg.copy() if hasattr(arg, "copy") else arg))[0])
                q = (r - dd) / 360.0
                if not (-180.0 <= r <= 180.0) or abs(q - round(q)) > 1e-9:
                    return bad("wrap_ra_diff", "wrap_ra_diff(%r) = %r" % (dd, r))
        return no
    if what == "fpwrap":
        # 1. the kernel on the real code with the rotation returning the model's double
        v = model_float(mdl.get("rot_lon", -1e-15))
        W = w.WCS(dict(_concrete_headers()[0][1]))
        W.Rotate = (lambda lon, lat, reverse=False, origin=False: (np.float64(v), np.float64(10.0))) if cfg[1] == "scalar" else \
                   (lambda lon, lat, reverse=False, origin=False: (np.array([v]), np.array([10.0])))
        lo = W.image2sph(3.0, -4.0)[0] if cfg[1] == "scalar" else W.image2sph(np.array([3.0]), np.array([-4.0]))[0][0]
        if 0.0 <= float(lo) < 360.0:
            return no
        # 2. realised end to end: reference points on the RA = 0 seam, pixels on the reference meridian
        for crval1 in (0.0, 360.0 - 1e-13, 1e-14):
            for crval2 in (0.0, 10.0, -33.3, 45.0, 60.0, -75.0, 89.0):
                for scale in (0.05, 0.27, 1.0, 2.0):
                    sc = scale / 3600.0
                    for cd in ((-sc, 0.0, 0.0, sc), (sc, 0.0, 0.0, sc), (-sc, 0.0, 0.0, -sc), (sc, 0.0, 0.0, -sc)):
                        h = dict(naxis1=2048, naxis2=4096, ctype1="RA---TAN", ctype2="DEC--TAN", crpix1=1024.5, crpix2=2048.5, crval1=crval1, crval2=crval2,
                                 cd1_1=cd[0], cd1_2=cd[1], cd2_1=cd[2], cd2_2=cd[3])
                        Wh = w.WCS(h)
                        y = np.arange(1.0, 4097.0, 5.0)
                        x = np.full_like(y, 1024.5)
                        lon, lat = Wh.image2sky(x, y)
                        badi = np.where((lon < 0.0) | (lon >= 360.0))[0]
                        if cfg[1] == "scalar" and not badi.size:
                            # the scalar branch has its own wrap: the reference pixel and a coarser set of
                            # pixels on the reference meridian through scalar calls
                            for xs, ys in [(1024.5, 2048.5)] + [(1024.5, float(yy)) for yy in range(1, 4097, 64)]:
                                ls = float(Wh.image2sky(xs, ys)[0])
                                if not (0.0 <= ls < 360.0):
                                    return bad("range:longitude:scalar", "CRVAL=(%r, %r), CD=%r: scalar image2sky(%r, %r) longitude = %r, not in [0, 360); kernel: rotated longitude %r wraps to %r"
                                               % (crval1, crval2, cd, xs, ys, ls, v, float(lo)))
                        if badi.size:
                            i = int(badi[0])
                            ls = float(Wh.image2sky(float(x[i]), float(y[i]))[0])
                            return bad("range:longitude", "CRVAL=(%r, %r), CD=%r: image2sky(%r, %r) longitude = %r (array) / %r (scalar), not in [0, 360); kernel: rotated longitude %r wraps to %r"
                                       % (crval1, crval2, cd, float(x[i]), float(y[i]), float(lon[i]), ls, v, float(lo)))
        return {"reproduced": False, "what": "kernel misbehaves for a rotated longitude of %r but no header of the search family realises it" % v, "key": None}
    if what == "two_objects":
        # several objects alive together, used interleaved: each must behave as if it were alone
        hs = dict(_concrete_headers())
        seq = ["TPV:mid", "TAN:mid", "SIP:mid", "TAN:equator", "TPV:npole", "SIP:low-order"]
        objs = [(nm, hs[nm], w.WCS(dict(hs[nm]))) for nm in seq]
        for rnd in range(2):
            for nm, h, W in objs + objs[::-1]:
                for (x, y) in ((1.0, 1.0), (700.5, 1800.25), (2048.0, 4096.0)):
                    lo, la = W.image2sky(x, y)
                    rl, rb, rp = _ref_image2sky(h, x, y, True)
                    sp = _sep_deg(float(lo), float(la), rp)
                    if not sp <= 1e-9:
                        return bad("objects-share-state", "%s object used next to other WCS objects: image2sky(%r, %r) is %.3g deg from the FITS reference of its own header" % (nm, x, y, sp))
                    if nm.split(":")[0] != "TAN" and rnd == 1:
                        xb, yb = W.sky2image(float(lo), float(la))
                        if not (abs(float(xb) - x) <= 1e-6 and abs(float(yb) - y) <= 1e-6):
                            return bad("objects-share-state", "%s object used next to other WCS objects: sky2image(image2sky(%r, %r)) = (%r, %r)" % (nm, x, y, float(xb), float(yb)))
        return no
    heads = list(_concrete_headers())
    mh = _model_header(cfg, mdl)
    if mh is not None:
        heads.insert(0, ("TAN:model", mh))
        for nm, hh in list(heads[1:]):
            if not nm.startswith("TAN:"):
                h2 = dict(hh)
                h2.update(crval1=mh["crval1"], crval2=mh["crval2"])
                heads.insert(1, (nm.split(":")[0] + ":model-crval", h2))
    want = None
    if len(cfg) > 1 and isinstance(cfg[1], str):
        c1 = cfg[1]
        if c1.startswith("TPV"):
            want = "TPV"
        elif c1.startswith("TANPV"):
            want = "TANPV"
        elif c1.startswith("SIP"):
            want = "SIP"
        elif c1 == "TAN":
            want = "TAN"
    if want is not None and what in ("chain", "invchain", "pure", "lazy", "find", "refpix"):
        heads = [hh for hh in heads if hh[0].split(":")[0] == want] or heads
    for name, h in heads:
        kind = name.split(":")[0]
        distorted = kind != "TAN"
        h_use = dict(h)
        if kind == "SIP" and (what in ("lazy", "find") or (len(cfg) > 1 and cfg[1] == "SIPnoinv")):
            pass                        # the headers carry no AP/BP: the optional inverse is absent
        elif kind == "SIP":
            h_use.update(ap_order=3, bp_order=3)
        try:
            W = w.WCS(dict(h_use))
        except Exception as e:
            return bad("exception:WCS:%s" % type(e).__name__, "WCS(%s header) raised %s: %s" % (name, type(e).__name__, e))
        pts = _positions(h_use, mdl)
        # ---- forward chain, ranges, scalar == array, no exception for any flag
        for distort in (True, False):
            for (x, y) in pts:
                try:
                    lo, la = W.image2sky(x, y, distort=distort)
                    loa, laa = W.image2sky(np.array([x, x]), np.array([y, y]), distort=distort)
                except Exception as e:
                    return bad("exception:image2sky:%s" % type(e).__name__, "%s: image2sky(%r, %r, distort=%s) raised %s: %s" % (name, x, y, distort, type(e).__name__, e))
                rl, rb, rp = _ref_image2sky(h_use, x, y, distort)
                if not (0.0 <= float(lo) < 360.0) or not np.all((loa >= 0.0) & (loa < 360.0)):
                    return bad("range:longitude", "%s: image2sky(%r, %r) longitude %r not in [0, 360)" % (name, x, y, float(lo)))
                sp = _sep_deg(float(lo), float(la), rp)
                if not sp <= 1e-9:
                    return bad("forward:%s" % kind, "%s: image2sky(%r, %r, distort=%s) = (%r, %r), FITS reference (%r, %r): %.3g deg apart"
                               % (name, x, y, distort, float(lo), float(la), float(rl), float(rb), sp))
                if float(loa[0]) != float(lo) or float(laa[0]) != float(la) or float(loa[1]) != float(lo):
                    return bad("scalar-array:image2sky", "%s: image2sky(%r, %r) scalar (%r, %r) != array element (%r, %r)" % (name, x, y, float(lo), float(la), float(loa[0]), float(laa[0])))
        if what in ("rotmat", "deproj", "chain", "refpix", "compose", "fpwrap"):
            continue
        # ---- undistorted inverse chain
        for (x, y) in pts:
            if kind == "SIP":
                try:
                    lo, la = W.image2sky(x, y, distort=False)
                except Exception:
                    break
            else:
                lo, la = W.image2sky(x, y, distort=False)
            try:
                xb, yb = W.sky2image(float(lo), float(la), distort=False, find=False)
                xa, ya = W.sky2image(np.array([float(lo)]), np.array([float(la)]), distort=False, find=False)
            except Exception as e:
                return bad("exception:sky2image:%s" % type(e).__name__, "%s: sky2image(find=False, distort=False) raised %s: %s" % (name, type(e).__name__, e))
            if not (abs(float(xb) - x) <= 1e-6 and abs(float(yb) - y) <= 1e-6):
                return bad("inverse:linear", "%s: sky2image(image2sky(%r, %r, distort=False), distort=False, find=False) = (%r, %r)" % (name, x, y, float(xb), float(yb)))
            if float(xa[0]) != float(xb) or float(ya[0]) != float(yb):
                return bad("scalar-array:sky2image", "%s: sky2image scalar (%r, %r) != array element (%r, %r)" % (name, float(xb), float(yb), float(xa[0]), float(ya[0])))
        if what in ("sph2image", "cdinv") or not distorted:
            if what == "jacobian" or what == "pure":
                pass
            else:
                continue
        # ---- state: nothing depends on what the object did before
        x, y = pts[-3]
        lo, la = [float(v) for v in W.image2sky(x, y)]
        fresh = lambda: w.WCS(dict(h_use))
        try:
            if distorted:
                A = fresh()
                r1 = [float(v) for v in A.sky2image(lo, la, find=False)]
                r2 = [float(v) for v in A.sky2image(lo, la, find=False)]
                if r1 != r2:
                    return bad("history:lazy", "%s: the first sky2image(find=False) on a fresh object gives %r, the same call again %r" % (name, r1, r2))
                B = fresh()
                B.image2sky(5.0, 7.0)
                B.get_jacobian(100.0, 200.0)
                B.sky2image(lo + 0.01, la - 0.01, find=False, distort=False)
                r3 = [float(v) for v in B.sky2image(lo, la, find=False)]
                if r3 != r1:
                    return bad("history:lazy", "%s: sky2image(find=False) gives %r on a fresh object and %r after other conversions" % (name, r1, r3))
                C = fresh()
                f1 = [float(v) for v in C.sky2image(lo, la)]
                D = fresh()
                D.sky2image(lo + 0.02, la + 0.015)
                D.sky2image(lo, la, find=False)
                D.image2sky(3.0, 4.0)
                f2 = [float(v) for v in D.sky2image(lo, la)]
                if f1 != f2:
                    return bad("history:find", "%s: sky2image(find=True) gives %r on a fresh object and %r after other conversions" % (name, f1, f2))
                if not (abs(f1[0] - x) <= 1e-6 and abs(f1[1] - y) <= 1e-6):
                    return bad("inverse:find", "%s: sky2image(image2sky(%r, %r)) = %r with root finding" % (name, x, y, f1))
                # every position of the image, both sides of the reference meridian (the RA = 0 seam for some headers)
                cxp, cyp = float(h_use["crpix1"]), float(h_use["crpix2"])
                for (xq, yq) in pts + [(cxp - 300.0, cyp + 10.0), (cxp - 2.0, cyp), (cxp + 2.0, cyp), (cxp + 300.0, cyp - 10.0)]:
                    if not (-500 <= xq <= 2600 and -500 <= yq <= 4700):
                        continue
                    lq, bq = [float(v) for v in C.image2sky(xq, yq)]
                    fq = [float(v) for v in C.sky2image(lq, bq)]
                    if not (abs(fq[0] - xq) <= 1e-6 and abs(fq[1] - yq) <= 1e-6):
                        return bad("inverse:find", "%s: sky2image(image2sky(%r, %r)) = %r with root finding (longitude %r)" % (name, xq, yq, fq, lq))
                fa = C.sky2image(np.array([lo]), np.array([la]))
                if [float(fa[0][0]), float(fa[1][0])] != f1:
                    return bad("scalar-array:sky2image", "%s: sky2image(find=True) scalar %r != array element %r" % (name, f1, [float(fa[0][0]), float(fa[1][0])]))
            E = fresh()
            before = repr(sorted((k, repr(v)) for k, v in E.__dict__.items()))
            j1 = [float(v) for v in E.get_jacobian(x, y)]
            j2 = [float(v[0]) for v in E.get_jacobian(np.array([x]), np.array([y]))]
            E.image2sky(x, y)
            if repr(sorted((k, repr(v)) for k, v in E.__dict__.items())) != before:
                return bad("history:pure", "%s: image2sky / get_jacobian changed the object's state" % name)
            if j1 != j2:
                return bad("scalar-array:jacobian", "%s: get_jacobian scalar %r != array %r" % (name, j1, j2))
        except Exception as e:
            return bad("exception:state:%s" % type(e).__name__, "%s: %s: %s" % (name, type(e).__name__, e))
    return no


MANIFEST_ENTRY = {
    "engine": "symx+trig",
    "technique": "bounded symbolic execution (symx/z3) of esutil.wcsutil.WCS, stage by stage, with the header (CRVAL as angles, CRPIX, CD, PV/SIP coefficients) and the positions as solver variables: sin/cos algebraised exactly (vf.trig), the arguments handed to arctan/arctan2 probed and compared with the gnomonic deprojection written out independently (polynomial normal form modulo s^2+c^2=1 and the square-root witnesses, then SMT; inequalities from generalised hypotheses); distortion polynomials compared with the TPV/SIP conventions as polynomial identities; history independence as non-interference queries (two objects of one header with different histories, objects of different kinds alive together, arbitrary left-overs in the scratch buffers, fit and root finder by contract); the longitude wrap over z3's FloatingPoint sort (IEEE double) and a conditioning probe on the inverse trigonometric calls for the float-level clauses; counterexamples rebuilt as concrete headers and replayed end to end against an extended-precision FITS reference",
    "text": "For every reference point (off the exact poles), CD matrix, reference pixel and TPV / SIP coefficient set: image2sky hands the deprojection exactly the convention's intermediate coordinates (offset from CRPIX, CD, distortion in order; SIP before CD, TPV after), the deprojection returns the direction of centre + xi east + eta north about (CRVAL1, CRVAL2) with longitude in [0,360) and latitude in [-90,90], the reference pixel maps to CRVAL; the rotation matrix is orthogonal; sph2image is the gnomonic projection and ApplyCDMatrix(inverse) the matrix inverse, so sky2image(find=False, distort=False) inverts image2sky(distort=False); sky2image(find=False) applies the fitted inverse polynomial in reverse stage order; with root finding the solver is handed image2sky minus the target (longitude wrapped) and starts from the undistorted inverse; no flag combination raises; scalar and array inputs agree; image2sky/get_jacobian do not change the object, the first inverse call equals later ones, left-overs in the scratch buffers never reach a result.",
    "note": "algebraic level: the 1e-9 degree / 1e-6 pixel tolerances, the accuracy of the fitted inverse polynomial and the convergence of fsolve are numerical questions outside a real-arithmetic encoding (the replay measures them on concrete headers, including polar and seam reference points); the fit and the root finder are replaced by contracts",
}
