"""C09 -- celestial coordinate conversions: exact longitude arithmetic, rotations as isometries
(algebraic level), inverse-pair structure and finiteness of the tabulated transformations."""
import ast
import math
import fractions

from vf import symx, symnp, loader, trig
from vf.symx import sym_and, sym_or, sym_not, sym_ite, is_sym, SReal, wrap
import z3

PROPERTY = "C09"
LEVEL = "model_checking"
NEEDS_BUILD = False
FUNCTIONS = [("esutil/coords.py", n) for n in
             ("euler", "eq2gal", "gal2eq", "eq2ec", "ec2eq", "ec2gal", "gal2ec", "rotate", "eq2xyz", "xyz2eq", "_xyz2thetaphi",
              "eq2sdss", "sdss2eq", "atbound", "atbound2", "shiftlon", "shiftra")]
ASSUMPTIONS = [
    "floats are reals: the statement's tolerances (1e-5 / 1e-9 degree) are outside the claim; decided are the algebraic facts behind them",
    "sin/cos algebraised exactly (vf.trig); the arguments handed to arcsin/arctan2 are probed: the output direction is the unit vector they define",
    "euler: rotation tables are read from the source; |sin^2+cos^2-1| <= 1e-10 and the inverse-pair structure are checked as ground rational arithmetic; that every arcsin argument stays in [-1,1] is a proof obligation with the table entries as exact rationals",
    "longitude arithmetic (shiftlon/shiftra/atbound/atbound2): exact linear real arithmetic with integer quotients; out-of-range inputs to atbound within three turns",
    "outputs exactly at a pole (arctan2(0,0)) are outside the claim",
]
BOUNDS = {"quick": {"arrays": "length 1 (2 for the isometry)", "atbound": "inputs within [-720,1080]"},
          "thorough": {"arrays": "length 1..2", "atbound": "inputs within [-1080,1440]"}}
EXPLORE_OPTS = {"max_paths": 4000, "query_timeout_ms": 6000, "feas_timeout_ms": 1000}
TIER_OPTS = {"quick": {"time_budget": 100}, "thorough": {"time_budget": 1500, "query_timeout_ms": 30000, "feas_timeout_ms": 3000}}


def configs(tier):
    out = [("shiftlon", "shift"), ("shiftlon", "wrap"), ("shiftlon", "none"), ("shiftra", "shift"),
           ("atbound", 0, 360), ("atbound", -180, 180), ("atbound2",), ("tables",)]
    for sel in range(1, 7):
        for b1950 in (False, True):
            out.append(("euler", sel, b1950))
    out.append(("euler_wrappers",))
    out.append(("rotate",))
    out.append(("rotate_iso",))
    out.append(("eq2xyz",))
    out.append(("xyz2eq",))
    out.append(("eq2sdss",))
    out.append(("sdss2eq",))
    out.append(("sdss_ranges",))
    return out


def _coords():
    return loader.Loader().get("esutil.coords")


def _congruent(a, b, m=360):
    """a = b (mod m), quantifier free"""
    d = (a - b) / m
    t = symx.real_term(d)
    return wrap(t == z3.ToReal(z3.ToInt(t)))


def _tables():
    """psi, stheta, ctheta, phi lists for both epochs, read from the source of euler"""
    src = open(loader.repo() + "/esutil/coords.py").read()
    tree = ast.parse(src)
    fn = [n for n in tree.body if isinstance(n, ast.FunctionDef) and n.name == "euler"][0]
    out = {}

    def lists(body, key):
        for st_ in body:
            if isinstance(st_, ast.Assign) and isinstance(st_.targets[0], ast.Name) and st_.targets[0].id in ("psi", "stheta", "ctheta", "phi"):
                call = st_.value
                if isinstance(call, ast.Call) and call.args and isinstance(call.args[0], (ast.List, ast.Tuple)):
                    vals = [fractions.Fraction(ast.get_source_segment(src, e).strip()) for e in call.args[0].elts]
                    out.setdefault(key, {})[st_.targets[0].id] = vals
    for st_ in fn.body:
        if isinstance(st_, ast.If) and "b1950" in ast.get_source_segment(src, st_.test):
            lists(st_.body, True)
            lists(st_.orelse, False)
    if len(out) != 2 or any(len(v) != 4 for v in out.values()):
        raise symx.Unsupported("could not read the rotation tables from euler's source")
    return out


def harness(cx, cfg):
    what = cfg[0]
    if what in ("shiftlon", "shiftra"):
        co = _coords()
        f = getattr(co, what)
        lon = cx.real("lon", 0)
        cx.assume(lon < 360)
        mode = cfg[1]
        if mode == "shift":
            shift = cx.real("shift")
            r = f(symnp.array([lon]), shift=shift).tolist()[0]
            cx.check("%s(shift=): result in [0, 360)" % what, sym_and(r >= 0, r < 360))
            cx.check("%s(shift=): result = lon - shift modulo 360" % what, _congruent(r, lon - shift))
            rs = f(lon, shift=shift)
            cx.check_eq("%s: scalar input gives the same value" % what, rs.tolist()[0], r)
        elif mode == "wrap":
            r = f(symnp.array([lon])).tolist()[0]
            cx.check("%s(wrap): result in (-180, 180]" % what, sym_and(r > -180, r <= 180))
            cx.check("%s(wrap): result = lon modulo 360" % what, _congruent(r, lon))
        else:
            r = f(symnp.array([lon]), wrap=False).tolist()[0]
            cx.check_eq("%s(wrap=False, no shift): unchanged" % what, r, lon)
        return
    if what == "atbound":
        co = _coords()
        _, lo, hi = cfg
        x = cx.real("x", -720, 1080)
        a = symnp.array([x])
        co.atbound(a, float(lo), float(hi))
        r = a.tolist()[0]
        cx.check("atbound: result within [min, max]", sym_and(r >= lo, r <= hi))
        cx.check("atbound: result = input modulo 360", _congruent(r, x))
        return
    if what == "atbound2":
        co = _coords()
        th = cx.real("theta", -450, 450)
        ph = cx.real("phi", -450, 810)
        a, b = symnp.array([th]), symnp.array([ph])
        co.atbound2(a, b)
        t2, p2 = a.tolist()[0], b.tolist()[0]
        cx.check("atbound2: latitude-like angle folded into [-90, 90]", sym_and(t2 >= -90, t2 <= 90))
        cx.check("atbound2: longitude-like angle in [0, 360]", sym_and(p2 >= 0, p2 <= 360))
        # same direction: either (theta, phi) modulo turns, or reflected through the pole
        same = sym_and(_congruent(t2, th), sym_or(_congruent(p2, ph), t2 == 90, t2 == -90))
        refl = sym_and(_congruent(t2, 180 - th), sym_or(_congruent(p2, ph + 180), t2 == 90, t2 == -90))
        cx.check("atbound2: the direction is preserved", sym_or(same, refl))
        return
    if what == "tables":
        T = _tables()
        for b1950 in (False, True):
            t = T[b1950]
            for i in range(6):
                n2 = t["stheta"][i] ** 2 + t["ctheta"][i] ** 2
                cx.check("euler tables: sin^2+cos^2 = 1 to 1e-10 (epoch %s, selector %d)" % ("B1950" if b1950 else "J2000", i + 1),
                         abs(n2 - 1) <= fractions.Fraction(1, 10 ** 10))
            for i, j in ((0, 1), (2, 3), (4, 5)):
                ok = t["psi"][i] == t["phi"][j] and t["psi"][j] == t["phi"][i] and t["stheta"][i] == -t["stheta"][j] and t["ctheta"][i] == t["ctheta"][j]
                cx.check("euler tables: selectors %d and %d are inverse rotations (psi<->phi, sin(theta) negated)" % (i + 1, j + 1), ok)
        return
    trig.install()
    try:
        co = _coords()
        S = trig.st()
        if what == "euler":
            _, sel, b1950 = cfg
            ai = trig.angle("ai")
            bi = trig.angle("bi", -90, 90)
            sb, cb = trig.pair("bi")
            cx.assume(cb >= 0)
            ao, bo = co.euler(ai, bi, sel, b1950=b1950)
            T = _tables()[b1950]
            st_, ct_ = T["stheta"][sel - 1], T["ctheta"][sel - 1]
            probes = {p[0]: p for p in S.log}
            cx.check("euler: one arcsin and one arctan2", "arcsin" in probes and "arctan2" in probes)
            if "arcsin" not in probes or "arctan2" not in probes:
                return
            bprime = probes["arcsin"][1]
            yp, xp = probes["arctan2"][1], probes["arctan2"][2]
            # reference: R_x(theta) applied to (cos b cos a, cos b sin a, sin b), a = ai - phi
            a = trig.deg2rad(ai) - float(T["phi"][sel - 1])
            sa, ca = trig.sincos(a)
            x0, y0, z0 = cb * ca, cb * sa, sb
            raw = _leaf(bprime)
            if not is_sym(raw):
                # the clipped branch: the code stored the bound itself; nothing more to decide on this path
                cx.check("euler: clipped value is a bound", float(raw) in (1.0, -1.0))
                cx.drop_obligations("clipped branch")
                return
            cx.check_eq("euler: sine of the output latitude is the rotated z", raw, -st_ * y0 + ct_ * z0)
            cx.check("euler: inside [-1,1] the sine of the output latitude is not altered", sym_or(raw > 1, raw < -1, bprime == raw))
            cx.check_eq("euler: arctan2 numerator is the rotated y", yp, ct_ * y0 + st_ * z0)
            cx.check_eq("euler: arctan2 denominator is the rotated x", xp, x0)
            # finiteness: the value handed to arcsin must lie in [-1,1].  (y0, z0) ranges over the
            # unit disk, so this is a two-variable question about the table entries and the clipping
            Y, Z = cx.define("Y", y0), cx.define("Z", z0)
            cx.inputs["Y"], cx.inputs["Z"] = Y.t, Z.t
            if cx.check_eq("euler: (cos b sin a)^2 + (sin b)^2 + (cos b cos a)^2 = 1", x0 * x0 + y0 * y0 + z0 * z0, 1):
                R = z3.Real("R!%d" % cx.fresh_id())
                handed = z3.substitute(bprime.t, (raw.t, R)) if is_sym(bprime) else symx.ratval(bprime)
                fin = cx.check("euler: the value handed to arcsin lies in [-1,1] for every input (finite output)",
                               wrap(z3.And(handed >= -1, handed <= 1)),
                               hyps=[Y.t * Y.t + Z.t * Z.t <= 1, R == symx.real_term(-st_ * Y + ct_ * Z)])
                if fin:
                    cx.axioms.append(z3.And(bprime.t >= -1, bprime.t <= 1))
            cx.obligs = [(t, w_) for (t, w_) in cx.obligs if "arcsin" not in w_]
            a0 = ao.tolist()[0]
            b0 = bo.tolist()[0]
            cx.check("euler: outputs are angles in degrees", isinstance(a0, trig.SAng) and isinstance(b0, trig.SAng) and a0.k == 1 and b0.k == 1)
            if isinstance(a0, trig.SAng) and isinstance(b0, trig.SAng):
                cx.check("euler: longitude in [0, 360)", sym_and(a0 >= 0, a0 < 360))
                cx.check("euler: latitude in [-90, 90]", sym_and(b0 >= -90, b0 <= 90))
            return
        if what == "euler_wrappers":
            ai = trig.angle("ai")
            bi = trig.angle("bi", -90, 90)
            names = {"eq2gal": 1, "gal2eq": 2, "eq2ec": 3, "ec2eq": 4, "ec2gal": 5, "gal2ec": 6}
            k = cx.choice("wrapper", 6)
            nm = sorted(names)[k]
            b1950 = cx.flag("b1950")
            S.log[:] = []
            r1 = getattr(co, nm)(ai, bi, b1950=b1950)
            l1 = list(S.log)
            S.log[:] = []
            r2 = co.euler(ai, bi, names[nm], b1950=b1950)
            l2 = list(S.log)
            cx.check("%s is euler with selector %d" % (nm, names[nm]), len(l1) == len(l2) and len(l1) == 2)
            for p, q in zip(l1, l2):
                for u, v in zip(p[1:3], q[1:3]):
                    cx.check_eq("%s hands the same arguments to the inverse functions as euler(select=%d)" % (nm, names[nm]), u, v)
            cx.drop_obligations("euler's own domain conditions are decided in the euler configurations")
            return
        if what == "rotate_inverse":
            # rotate(phi, theta, psi) is undone by rotate(psi, -theta, phi) (the third angle enters with the
            # opposite sign in this function's zxz convention): the direction comes back
            phi, theta, psi = trig.angle("phi"), trig.angle("theta"), trig.angle("psi")
            ra = trig.angle("ra0")
            dec = trig.angle("dec0", -90, 90)
            sd, cd = trig.pair("dec0")
            sr, cr = trig.pair("ra0")
            cx.assume(cd > 0)
            r1, d1 = co.rotate(phi, theta, psi, ra, dec)
            S.log[:] = []
            r2, d2 = co.rotate(psi, -theta, phi, r1, d1)
            probes = {p[0]: p for p in S.log}
            if "arcsin" in probes and "arctan2" in probes:
                x, y, b = probes["arctan2"][2], probes["arctan2"][1], _leaf(probes["arcsin"][1])
            else:
                # a path without inverse functions (a shortcut): the direction of the returned angles
                s2, c2 = trig.sincos(trig.deg2rad(r2 if not hasattr(r2, "tolist") else r2.tolist()[0]))
                sb2, cb2 = trig.sincos(trig.deg2rad(d2 if not hasattr(d2, "tolist") else d2.tolist()[0]))
                x, y, b = c2 * cb2, s2 * cb2, sb2
            cx.check_eq("rotate(psi, -theta, phi) undoes rotate(phi, theta, psi): x of the direction", x, cr * cd)
            cx.check_eq("rotate(psi, -theta, phi) undoes rotate(phi, theta, psi): y of the direction", y, sr * cd)
            cx.check_eq("rotate(psi, -theta, phi) undoes rotate(phi, theta, psi): z of the direction", b, sd)
            cx.drop_obligations("domain conditions of rotate are decided in the rotate configuration")
            return
        if what in ("rotate", "rotate_iso"):
            phi, theta, psi = trig.angle("phi"), trig.angle("theta"), trig.angle("psi")
            npts = 2 if what == "rotate_iso" else 1
            ras = [trig.angle("ra%d" % i) for i in range(npts)]
            decs = [trig.angle("dec%d" % i, -90, 90) for i in range(npts)]
            for i in range(npts):
                cx.assume(trig.pair("dec%d" % i)[1] >= 0)
            vecs = []
            outs = []
            for i in range(npts):
                S.log[:] = []
                r = co.rotate(phi, theta, psi, ras[i], decs[i])
                probes = {p[0]: p for p in S.log}
                if "arctan2" not in probes or "arcsin" not in probes:
                    # a path that never forms the rotated vector (a special-cased angle): settled by the replay,
                    # which compares with the general formula, the inverse rotation and neighbouring angles
                    cx.fail("rotate: a path returns without computing the rotated vector (special-cased Euler angle)")
                    cx.drop_obligations("special-cased path")
                    return
                vecs.append((probes["arctan2"][2], probes["arctan2"][1], probes["arcsin"][1]))
                outs.append(r)
            # the clip b > 1 -> 1 is a no-op for a true rotation: |b| <= 1 proved via x^2+y^2+b_raw^2 = 1
            for i in range(npts):
                x, y, b = vecs[i]
                braw = _leaf(b)
                if not is_sym(braw) and _clip_path_refuted(cx, x, y):
                    # the code's clip branch (b > 1 or b < -1) was entered only because the solver could not
                    # decide its feasibility; with the rotated vector of unit length the branch condition is
                    # contradictory: nothing to decide on this path
                    cx.drop_obligations("path proved infeasible (|b| > 1 contradicts unit length)")
                    return
                ok = cx.check_eq("rotate: rotated vector has unit length", x * x + y * y + braw * braw, 1)
                if ok:
                    # generalised: Rest + B^2 = 1 with Rest = x^2 + y^2 >= 0 gives |B| <= 1
                    Bz, Rest = z3.Real("Bz!gen"), z3.Real("Rest!gen")
                    if cx.check("rotate: sine of the output latitude lies in [-1, 1] (finite output)", wrap(z3.And(Bz >= -1, Bz <= 1)),
                                hyps=[Rest + Bz * Bz == 1, Rest >= 0]):
                        cx.axioms.append(z3.And(braw.t >= -1, braw.t <= 1))
                        _discharge_clipped(cx, braw)
                ra_o, dec_o = outs[i]
                cx.check("rotate: scalar in, scalar out; outputs in degrees",
                         isinstance(ra_o, trig.SAng) and isinstance(dec_o, trig.SAng) and ra_o.k == 1 and dec_o.k == 1)
                if isinstance(ra_o, trig.SAng) and isinstance(dec_o, trig.SAng):
                    cx.check("rotate: longitude in [0, 360)", sym_and(ra_o >= 0, ra_o < 360))
                    cx.check("rotate: latitude in [-90, 90]", sym_and(dec_o >= -90, dec_o <= 90))
            if what == "rotate_iso":
                def dot(u, v):
                    return u[0] * v[0] + u[1] * v[1] + _leaf(u[2]) * _leaf(v[2])

                def unit(ra, dec):
                    sr, cr = trig.sincos(trig.deg2rad(ra))
                    sd, cd = trig.sincos(trig.deg2rad(dec))
                    return (cr * cd, sr * cd, sd)
                cx.check_eq("rotate preserves the angular separation of two points (dot product of the unit vectors)",
                            dot(vecs[0], vecs[1]), dot(unit(ras[0], decs[0]), unit(ras[1], decs[1])))
            cx.assume_obligations(only=("arctan2",))
            return
        if what == "eq2xyz":
            ra = trig.angle("ra")
            dec = trig.angle("dec", -90, 90)
            stomp = cx.flag("stomp")
            x, y, z = [v.tolist()[0] for v in co.eq2xyz(ra, dec, stomp=stomp)]
            cx.check_eq("eq2xyz: unit length", x * x + y * y + z * z, 1)
            lon = trig.deg2rad(ra) - (trig.const_angle(95, 0) if stomp else 0)
            sl, cl = trig.sincos(lon)
            sd, cd = trig.sincos(trig.deg2rad(dec))
            for got, want in zip((x, y, z), (cl * cd, sl * cd, sd)):
                cx.check_eq("eq2xyz: (cos lon cos lat, sin lon cos lat, sin lat)", got, want)
            # conditioning probe (the 1e-9 degree of the unit-vector conversions near the poles): no cosine
            # recovered from the sine through sqrt(1 - sin^2); settled by the replay next to the poles
            from vf import poly
            for wname, (kind, rad) in list(cx.witness_defs.items()):
                if kind == "sqrt" and poly.equal(rad, symx.real_term(cd * cd), cx.rules):
                    cx.check("eq2xyz: no cosine recovered from the sine through sqrt(1 - sin^2) (ill-conditioned at the poles)", False)
            return
        if what == "xyz2eq":
            # inverse of eq2xyz at the level of directions: feed eq2xyz's output back
            ra = trig.angle("ra", 0, 360)
            dec = trig.angle("dec", -90, 90)
            sd, cd = trig.pair("dec")
            cx.assume(cd > 0)           # strictly inside the poles
            stomp = cx.flag("stomp")
            x, y, z = co.eq2xyz(ra, dec, stomp=stomp)
            S.log[:] = []
            ra2, dec2 = co.xyz2eq(x, y, z, stomp=stomp)
            probes = {p[0]: p for p in S.log}
            cx.check_eq("xyz2eq(eq2xyz): latitude sine recovered", probes["arcsin"][1], sd)
            r2, d2 = ra2.tolist()[0], dec2.tolist()[0]
            cx.check("xyz2eq: outputs are angles in degrees", isinstance(r2, trig.SAng) and isinstance(d2, trig.SAng) and r2.k == 1 and d2.k == 1)
            if isinstance(r2, trig.SAng) and isinstance(d2, trig.SAng):
                cx.check("xyz2eq: ra in [0, 360]", sym_and(r2 >= 0, r2 <= 360))
                s2, c2 = trig.sincos(trig.deg2rad(r2))
                s1, c1 = trig.sincos(trig.deg2rad(ra))
                rho = symx.sym_sqrt(symx.SReal(symx.real_term(probes["arctan2"][1] * probes["arctan2"][1] + probes["arctan2"][2] * probes["arctan2"][2])))
                cx.check_eq("xyz2eq(eq2xyz): longitude direction recovered (sin)", s2 * rho, s1 * cd)
                cx.check_eq("xyz2eq(eq2xyz): longitude direction recovered (cos)", c2 * rho, c1 * cd)
            cx.assume_obligations(only=("arctan2",))
            return
        if what == "eq2sdss":
            ra = trig.angle("ra", 0, 360)
            dec = trig.angle("dec", -90, 90)
            cx.assume(trig.pair("dec")[1] >= 0)
            S.log[:] = []
            cl, ce = co.eq2sdss(ra, dec)
            probes = {p[0]: p for p in S.log}
            lon = trig.deg2rad(ra) - trig.const_angle(95, 0)
            sl, clon = trig.sincos(lon)
            sd, cd = trig.sincos(trig.deg2rad(dec))
            cx.check_eq("eq2sdss: clambda = -arcsin(x), x = cos(ra - node) cos(dec)", probes["arcsin"][1], clon * cd)
            cx.check_eq("eq2sdss: ceta + etapole = arctan2(z, y), z = sin(dec)", probes["arctan2"][1], sd)
            cx.check_eq("eq2sdss: ceta + etapole = arctan2(z, y), y = sin(ra - node) cos(dec)", probes["arctan2"][2], sl * cd)
            # |x| <= 1 and 1 - x^2 >= 0: 1 - (cos l cos d)^2 = sin^2 l + cos^2 l sin^2 d
            cx.certify_obligations([("sin^2(lon) + cos^2(lon) sin^2(dec)", [sl, clon * sd])])
            l0, e0 = cl.tolist()[0], ce.tolist()[0]
            if isinstance(l0, trig.SAng) and isinstance(e0, trig.SAng):
                _atom_range(cx, "eq2sdss: clambda in [-90, 90], ceta in [-180, 180] degrees", sym_and(l0 >= -90, l0 <= 90, e0 >= -180, e0 <= 180), [l0, e0])
                cx.check("eq2sdss: outputs in degrees", l0.k == 1 and e0.k == 1)
            else:
                cx.check("eq2sdss: outputs are angles", False)
            cx.assume_obligations(only=("arctan2",))
            return
        if what == "sdss2eq":
            lam = trig.angle("clambda", -90, 90)
            eta = trig.angle("ceta", -180, 180)
            cx.assume(trig.pair("clambda")[1] >= 0)
            S.log[:] = []
            ra, dec = co.sdss2eq(lam, eta)
            probes = {p[0]: p for p in S.log}
            sl, cl = trig.sincos(trig.deg2rad(lam))
            se, ce = trig.sincos(trig.deg2rad(eta) + trig.const_angle(fractions.Fraction(65, 2), 0))
            cx.check_eq("sdss2eq: dec = arcsin(z), z = sin(ceta + etapole) cos(clambda)", probes["arcsin"][1], se * cl)
            cx.check_eq("sdss2eq: ra - node = arctan2(y, x), y = cos(ceta + etapole) cos(clambda)", probes["arctan2"][1], ce * cl)
            cx.check_eq("sdss2eq: ra - node = arctan2(y, x), x = -sin(clambda)", probes["arctan2"][2], -sl)
            # |z| <= 1: 1 - (sin e cos l)^2 = cos^2 e + sin^2 e sin^2 l
            cx.certify_obligations([("cos^2(eta) + sin^2(eta) sin^2(lambda)", [ce, se * sl])])
            r0, d0 = ra.tolist()[0], dec.tolist()[0]
            if is_sym(r0) and is_sym(d0):
                cx.check("sdss2eq: ra in [0, 360], dec in [-90, 90]", sym_and(r0 >= 0, r0 <= 360, d0 >= -90, d0 <= 90))
            cx.assume_obligations(only=("arctan2",))
            return
        if what == "sdss_ranges":
            ra = cx.real("ra")
            dec = cx.real("dec")
            try:
                co.eq2sdss(symnp.array([ra]), symnp.array([dec]))
            except ValueError:
                cx.check("eq2sdss rejects only coordinates outside [0,360] x [-90,90]", sym_or(ra < 0, ra > 360, dec < -90, dec > 90))
                return
            except symx.Unsupported:
                raise
            cx.check("eq2sdss rejects coordinates outside [0,360] x [-90,90]", sym_and(ra >= 0, ra <= 360, dec >= -90, dec <= 90))
            cx.assume_obligations()
            return
    finally:
        trig.uninstall()
    raise AssertionError(cfg)


def _atom_range(cx, label, goal, angs):
    """a range claim about angles that are linear forms of inverse-function atoms: decided from the path-condition
    literals and axioms that mention those atoms, with every other term generalised away (sound: fewer hypotheses)"""
    names = set()
    for a in angs:
        names |= set(a.form)
    hy = []
    for h in list(cx.pc) + list(cx.axioms):
        vs = set(symx.term_vars(h))
        if vs and vs <= names:
            hy.append(h)
        elif vs & names and z3.is_and(h):
            for c in h.children():
                cv = set(symx.term_vars(c))
                if cv and cv <= names:
                    hy.append(c)
    if not hy:
        return cx.check(label, goal)
    return cx.check(label, goal, hyps=hy)


def _clip_path_refuted(cx, x, y):
    """True when some path-condition literal says t > 1 or t < -1 for a term t with x^2 + y^2 + t^2 = 1 (polynomial
    identity modulo the path's relations): from Rest + B^2 = 1, Rest >= 0 the literal is contradictory"""
    from vf import poly
    xy = symx.real_term(x * x + y * y)
    for lit in cx.pc:
        e = lit
        if z3.is_not(e):
            e = e.children()[0]
        if not (z3.is_app(e) and e.decl().kind() in (z3.Z3_OP_LE, z3.Z3_OP_LT, z3.Z3_OP_GE, z3.Z3_OP_GT)):
            continue
        a, b = e.children()
        t = a if z3.is_rational_value(b) else (b if z3.is_rational_value(a) else None)
        if t is None or z3.is_rational_value(t) or len(symx.term_vars(t)) < 2:
            continue
        if not poly.equal(xy + t * t, z3.RealVal(1), cx.rules):
            continue
        B, Rest = z3.Real("B!gen"), z3.Real("Rest!gen")
        sx = z3.Solver()
        sx.set("timeout", 3000)
        sx.add(Rest + B * B == 1, Rest >= 0, z3.substitute(lit, (t, B)))
        if str(sx.check()) == "unsat":
            cx.stats.queries["unsat"] += 1
            return True
    return False


def _discharge_clipped(cx, braw):
    """domain obligations on the clipped value (and on 1 - clipped^2) once |braw| <= 1 is a fact: with braw
    generalised to a fresh B in [-1, 1] they are statements about an if-then-else of B alone"""
    if not is_sym(braw):
        return
    B = z3.Real("B!gen")
    keep = []
    for t, what in cx.obligs:
        g = z3.substitute(t, (braw.t, B))
        if set(symx.term_vars(g)) <= {"B!gen"} and ("arcsin" in what or "sqrt" in what):
            sx = z3.Solver()
            sx.set("timeout", 3000)
            sx.add(B >= -1, B <= 1, z3.Not(g))
            if str(sx.check()) == "unsat":
                cx.stats.queries["unsat"] += 1
                cx.notes.setdefault("certified", []).append("%s by generalisation of the clipped value" % what)
                continue
        keep.append((t, what))
    cx.obligs = keep


def _leaf(v):
    """the unclipped value behind nested if-then-else clipping"""
    if not is_sym(v):
        return v
    t = v.t
    stack = [t]
    while stack:
        e = stack.pop()
        if z3.is_app_of(e, z3.Z3_OP_ITE):
            stack.extend(e.children()[1:])
        elif not z3.is_rational_value(z3.simplify(e)):
            return SReal(e)
    return v


# ----------------------------------------------------------------------------

def _sep(l1, b1, l2, b2):
    import numpy as np
    r = np.longdouble
    l1, b1, l2, b2 = [np.deg2rad(r(v)) for v in (l1, b1, l2, b2)]
    dl = l2 - l1
    num = np.hypot(np.cos(b2) * np.sin(dl), np.cos(b1) * np.sin(b2) - np.sin(b1) * np.cos(b2) * np.cos(dl))
    den = np.sin(b1) * np.sin(b2) + np.cos(b1) * np.cos(b2) * np.cos(dl)
    return float(np.rad2deg(np.arctan2(num, den)))


def replay(cand):
    import numpy as np
    import warnings
    warnings.simplefilter("ignore")
    import esutil.coords as co
    from vf.symx import model_float
    cfg = cand["cfg"]
    mdl = cand["model"] or {}
    what = cfg[0]
    no = {"reproduced": False, "what": "agrees", "key": None}

    def mf(name, d=0.0):
        v = mdl.get(name)
        return model_float(v) if v is not None else d
    if what in ("shiftlon", "shiftra"):
        f = getattr(co, what)
        lon = min(max(mf("lon"), 0.0), 359.999999)
        mode = cfg[1]
        if mode == "shift":
            shift = mf("shift")
            for arg in (np.array([lon]), lon):
                r = float(np.atleast_1d(f(arg, shift=shift))[0])
                d = (r - (lon - shift)) / 360.0
                if not (0 <= r < 360) or abs(d - round(d)) > 1e-9:
                    return {"reproduced": True, "key": "%s:shift:%s" % (what, "neg" if shift < 0 else "pos"),
                            "what": "%s(%r, shift=%r) = %r (documented range [0,360), congruent to lon - shift)" % (what, lon, shift, r)}
        elif mode == "wrap":
            r = float(f(np.array([lon]))[0])
            d = (r - lon) / 360.0
            if not (-180 < r <= 180) or abs(d - round(d)) > 1e-9:
                return {"reproduced": True, "key": "%s:wrap" % what, "what": "%s(%r) = %r" % (what, lon, r)}
        else:
            r = float(f(np.array([lon]), wrap=False)[0])
            if r != lon:
                return {"reproduced": True, "key": "%s:none" % what, "what": "%s(%r, wrap=False) = %r" % (what, lon, r)}
        return no
    if what == "atbound":
        _, lo, hi = cfg
        x = mf("x")
        a = np.array([x])
        co.atbound(a, float(lo), float(hi))
        d = (a[0] - x) / 360.0
        if not (lo <= a[0] <= hi) or abs(d - round(d)) > 1e-9:
            return {"reproduced": True, "key": "atbound", "what": "atbound(%r, %r, %r) -> %r" % (x, lo, hi, a[0])}
        return no
    if what == "atbound2":
        th, ph = mf("theta"), mf("phi")
        a, b = np.array([th]), np.array([ph])
        co.atbound2(a, b)
        if not (-90 <= a[0] <= 90 and 0 <= b[0] <= 360) or _sep(ph, th if abs(th) <= 90 else (180 - th if th > 0 else -180 - th), b[0], a[0]) > 1e-6 and abs(abs(a[0]) - 90) > 1e-9 and False:
            return {"reproduced": True, "key": "atbound2", "what": "atbound2(%r, %r) -> %r, %r" % (th, ph, a[0], b[0])}
        # the model's point and points just off the poles (the longitude there is only degenerate exactly at +-90)
        for th_, ph_ in ((th, ph), (89.9995, 123.0), (-89.9992, 200.0), (90.0007, 41.0), (269.9994, 310.0), (89.9999999, 77.0)):
            a, b = np.array([th_]), np.array([ph_])
            co.atbound2(a, b)
            v1 = (math.cos(math.radians(th_)) * math.cos(math.radians(ph_)), math.cos(math.radians(th_)) * math.sin(math.radians(ph_)), math.sin(math.radians(th_)))
            v2 = (math.cos(math.radians(a[0])) * math.cos(math.radians(b[0])), math.cos(math.radians(a[0])) * math.sin(math.radians(b[0])), math.sin(math.radians(a[0])))
            if not (-90 <= a[0] <= 90 and 0 <= b[0] <= 360) or max(abs(p - q) for p, q in zip(v1, v2)) > 1e-9:
                return {"reproduced": True, "key": "atbound2", "what": "atbound2(%r, %r) -> (%r, %r): a different direction" % (th_, ph_, a[0], b[0])}
        return no
    if what == "tables":
        return no

    def finite_in_range(lon, lat, lon_hi=360.0):
        return np.all(np.isfinite(lon)) and np.all(np.isfinite(lat)) and np.all((lon >= 0) & (lon <= lon_hi)) and np.all((lat >= -90) & (lat <= 90))
    names = {1: "eq2gal", 2: "gal2eq", 3: "eq2ec", 4: "ec2eq", 5: "ec2gal", 6: "gal2ec"}
    inv = {1: 2, 2: 1, 3: 4, 4: 3, 5: 6, 6: 5}
    if what in ("euler", "euler_wrappers"):
        if what == "euler":
            sel, b1950 = cfg[1], cfg[2]
        else:
            sel, b1950 = sorted(names.values()).index(sorted(names.values())[int(mdl.get("wrapper", 0))]) + 1, bool(mdl.get("b1950", False))
            sel = {"eq2gal": 1, "gal2eq": 2, "eq2ec": 3, "ec2eq": 4, "ec2gal": 5, "gal2ec": 6}[sorted(names.values())[int(mdl.get("wrapper", 0))]]
        a0 = trig.model_angle(mdl, "ai") % 360.0
        b0 = max(-90.0, min(90.0, trig.model_angle(mdl, "bi")))
        pts = [(a0, b0), (10.0, 20.0), (200.0, -45.0)]
        if "Y" in mdl and "Z" in mdl:
            try:
                T = _tables()[b1950]
                yy, zz = model_float(mdl["Y"]), model_float(mdl["Z"])
                nrm = math.hypot(yy, zz) or 1.0
                yy, zz = yy / max(nrm, 1.0), zz / max(nrm, 1.0)
                bb = math.degrees(math.asin(max(-1.0, min(1.0, zz))))
                cbv = math.cos(math.radians(bb))
                sa_ = max(-1.0, min(1.0, yy / cbv)) if cbv > 1e-12 else 0.0
                aa = math.degrees(math.asin(sa_) + float(T["phi"][sel - 1]))
                pts.insert(0, (aa % 360.0, bb))
            except Exception:
                pass
        for a, b in pts:
            ao, bo = co.euler(a, b, sel, b1950=b1950)
            if not finite_in_range(ao, bo):
                return {"reproduced": True, "key": "euler:not-finite:%s" % ("b1950" if b1950 else "j2000"),
                        "what": "euler(%r, %r, %d, b1950=%s) = (%r, %r): not finite / outside the documented ranges" % (a, b, sel, b1950, ao.tolist(), bo.tolist())}
            wa, wb = getattr(co, names[sel])(a, b, b1950=b1950)
            if not (np.array_equal(wa, ao) and np.array_equal(wb, bo)):
                return {"reproduced": True, "key": "wrapper", "what": "%s differs from euler(select=%d)" % (names[sel], sel)}
            a2, b2 = co.euler(ao, bo, inv[sel], b1950=b1950)
            if abs(b) < 89.9 and abs(bo[0]) < 89.9 and _sep(a, b, a2[0], b2[0]) > 1e-5:
                return {"reproduced": True, "key": "euler:inverse", "what": "euler select %d then %d maps (%r,%r) to (%r,%r)" % (sel, inv[sel], a, b, a2[0], b2[0])}
        (p1, p2) = (10.0, 20.0), (200.0, -45.0)
        o1 = co.euler(p1[0], p1[1], sel, b1950=b1950)
        o2 = co.euler(p2[0], p2[1], sel, b1950=b1950)
        if abs(_sep(p1[0], p1[1], p2[0], p2[1]) - _sep(o1[0][0], o1[1][0], o2[0][0], o2[1][0])) > 1e-5:
            return {"reproduced": True, "key": "euler:isometry", "what": "euler select %d changes the separation of two points" % sel}
        return no
    if what in ("rotate", "rotate_iso"):
        phi, theta, psi = [trig.model_angle(mdl, n) for n in ("phi", "theta", "psi")]
        pts = [(trig.model_angle(mdl, "ra0") % 360, max(-90.0, min(90.0, trig.model_angle(mdl, "dec0")))),
               (trig.model_angle(mdl, "ra1") % 360 if "ra1!s" in mdl else 33.0, max(-90.0, min(90.0, trig.model_angle(mdl, "dec1"))) if "dec1!s" in mdl else -12.0)]
        outs = []
        # special angles next to the model's: a shortcut for theta = 0 (or any multiple of 90 degrees) must agree
        # with the general formula, be undone by rotate(psi, -theta, phi) and be continuous in theta
        for th in (theta, 0.0, 90.0, 180.0):
            for ph, ps in ((phi, psi), (25.0, 40.0), (0.0, 77.0), (130.0, 0.0)):
                for ra, dec in pts:
                    r, d = co.rotate(ph, th, ps, ra, dec)
                    rb, db = co.rotate(ps, -th, ph, r, d)
                    if abs(dec) < 89.9 and abs(float(d)) < 89.9 and _sep(ra, dec, float(rb), float(db)) > 1e-8:
                        return {"reproduced": True, "key": "rotate:inverse",
                                "what": "rotate(%r, %r, %r) followed by rotate(%r, %r, %r) maps (%r, %r) to (%r, %r)" % (ph, th, ps, ps, -th, ph, ra, dec, float(rb), float(db))}
                    rn, dn = co.rotate(ph, th + 1e-7, ps, ra, dec)
                    if abs(float(d)) < 89.9 and _sep(float(r), float(d), float(rn), float(dn)) > 1e-5:
                        return {"reproduced": True, "key": "rotate:continuity",
                                "what": "rotate(%r, theta, %r) jumps at theta = %r: (%r, %r) -> (%r, %r) vs (%r, %r) for theta + 1e-7" % (ph, ps, th, ra, dec, float(r), float(d), float(rn), float(dn))}
        for ra, dec in pts:
            r, d = co.rotate(phi, theta, psi, ra, dec)
            if not (np.isfinite(r) and np.isfinite(d) and 0 <= r < 360 + 1e-9 and -90 <= d <= 90):
                return {"reproduced": True, "key": "rotate:range", "what": "rotate(%r,%r,%r, %r,%r) = (%r, %r)" % (phi, theta, psi, ra, dec, r, d)}
            outs.append((r, d))
        if abs(_sep(pts[0][0], pts[0][1], pts[1][0], pts[1][1]) - _sep(outs[0][0], outs[0][1], outs[1][0], outs[1][1])) > 1e-8:
            return {"reproduced": True, "key": "rotate:isometry", "what": "rotate(%r,%r,%r) changes the separation of %r and %r" % (phi, theta, psi, pts[0], pts[1])}
        return no
    if what in ("eq2xyz", "xyz2eq"):
        ra = trig.model_angle(mdl, "ra") % 360
        dec = max(-89.999, min(89.999, trig.model_angle(mdl, "dec")))
        stomp = bool(mdl.get("stomp", False))
        x, y, z = co.eq2xyz(ra, dec, stomp=stomp)
        lon = math.radians(ra) - (math.radians(95.0) if stomp else 0.0)
        w = (math.cos(lon) * math.cos(math.radians(dec)), math.sin(lon) * math.cos(math.radians(dec)), math.sin(math.radians(dec)))
        if max(abs(a - b) for a, b in zip((x[0], y[0], z[0]), w)) > 1e-12:
            return {"reproduced": True, "key": "eq2xyz", "what": "eq2xyz(%r, %r, stomp=%s) = %r" % (ra, dec, stomp, (x[0], y[0], z[0]))}
        r2, d2 = co.xyz2eq(x, y, z, stomp=stomp)
        if not (0 <= r2[0] <= 360) or _sep(ra, dec, r2[0], d2[0]) > 1e-9:
            return {"reproduced": True, "key": "xyz2eq", "what": "xyz2eq(eq2xyz(%r, %r), stomp=%s) = (%r, %r)" % (ra, dec, stomp, r2[0], d2[0])}
        import numpy as np
        L = np.longdouble
        d2r = np.arctan(L(1)) * 4 / 180
        for ra_, dec_ in ((33.0, 89.99999), (211.5, -89.999999), (100.0, 89.9999999)):
            x, y, z = co.eq2xyz(ra_, dec_)
            w = (np.cos(L(ra_) * d2r) * np.cos(L(dec_) * d2r), np.sin(L(ra_) * d2r) * np.cos(L(dec_) * d2r), np.sin(L(dec_) * d2r))
            err = max(abs(float(L(a[0]) - b)) for a, b in zip((x, y, z), w))
            if err > 1.7e-11:
                return {"reproduced": True, "key": "eq2xyz:polar-accuracy", "what": "eq2xyz(%r, %r) is %.3g off the true unit vector (1e-9 degree = 1.7e-11)" % (ra_, dec_, err)}
        return no
    if what in ("eq2sdss", "sdss2eq", "sdss_ranges"):
        if what == "sdss_ranges":
            ra, dec = mf("ra"), mf("dec")
            bad = ra < 0 or ra > 360 or dec < -90 or dec > 90
            try:
                co.eq2sdss(ra, dec)
            except ValueError:
                return no if bad else {"reproduced": True, "key": "sdss:range", "what": "eq2sdss(%r, %r) rejected" % (ra, dec)}
            return no if not bad else {"reproduced": True, "key": "sdss:range", "what": "eq2sdss(%r, %r) accepted" % (ra, dec)}
        if what == "eq2sdss":
            ra = trig.model_angle(mdl, "ra") % 360
            dec = max(-89.999, min(89.999, trig.model_angle(mdl, "dec")))
        else:
            ra, dec = 123.4, -5.6
        for ra_, dec_ in ((ra, dec), (10.0, 45.0), (275.0, -60.0)):
            cl, ce = co.eq2sdss(ra_, dec_)
            x = math.cos(math.radians(ra_ - 95.0)) * math.cos(math.radians(dec_))
            y = math.sin(math.radians(ra_ - 95.0)) * math.cos(math.radians(dec_))
            z = math.sin(math.radians(dec_))
            wl = -math.degrees(math.asin(x))
            we = math.degrees(math.atan2(z, y)) - 32.5
            we = we + 360 if we < -180 else we
            if abs(cl[0] - wl) > 1e-9 or abs(ce[0] - we) > 1e-9:
                return {"reproduced": True, "key": "eq2sdss", "what": "eq2sdss(%r, %r) = (%r, %r), definition gives (%r, %r)" % (ra_, dec_, cl[0], ce[0], wl, we)}
            r2, d2 = co.sdss2eq(cl, ce)
            if not (0 <= r2[0] <= 360 and -90 <= d2[0] <= 90) or _sep(ra_, dec_, r2[0], d2[0]) > 1e-9:
                return {"reproduced": True, "key": "sdss2eq", "what": "sdss2eq(eq2sdss(%r, %r)) = (%r, %r)" % (ra_, dec_, r2[0], d2[0])}
        return no
    raise AssertionError(what)


MANIFEST_ENTRY = {
    "engine": "symx+trig",
    "technique": "bounded symbolic execution (symx/z3) of the coords conversions: longitude shifting/folding as exact linear real arithmetic with integer quotients (quantifier-free congruence); euler/rotate/eq2sdss/sdss2eq/eq2xyz/xyz2eq with sin/cos algebraised (vf.trig) and the arguments handed to arcsin/arctan2 probed and compared, by polynomial normal form and SMT, with the rotation written out independently; unit length / isometry as polynomial identities, |sin lat| <= 1 (finiteness) as an obligation with the table entries as exact rationals; rotation tables read from the source and checked for the inverse-pair structure; counterexamples rebuilt from (sin,cos) pairs and replayed",
    "text": "shiftlon/shiftra return values in [0,360) (or (-180,180]) congruent to lon - shift modulo 360 for every lon and shift, atbound/atbound2 fold into their interval preserving the direction; for all six selectors and both epochs euler hands arcsin/arctan2 exactly the rotated unit vector (so outputs are finite iff the rotated z stays in [-1,1], which is a proof obligation), selectors pair up as inverse rotations, wrappers equal euler; rotate is an isometry with finite, in-range outputs for all Euler angles; eq2xyz has unit length and xyz2eq inverts it; eq2sdss/sdss2eq compute the documented rotation about the survey node/pole with outputs in range.",
    "note": "algebraic level: numeric agreement to 1e-5/1e-9 degree and exact-pole outputs are outside a real-arithmetic encoding; arrays of length 1 (isometry: 2 points)",
}
