"""C11 -- cosmological distances equal their Hogg (1999) definitions.

Three layers, all regenerated from the current source:
  clib    : cosmolib.c interpreted from clang's AST (vf.cast) with a symbolic struct cosmo
            and *symbolic* Gauss-Legendre tables; results compared, as terms, with the
            Hogg formulas written out independently
  wrap    : every vectorised wrapper of cosmolib_pywrap.c returns, cell for cell, the
            scalar C function on the corresponding cells
  py      : cosmology.Cosmo (vf.symx) on top of the C model: parameter normalisation,
            scalar/array dispatch, length mismatch, copies and pickles
  tables  : the real gauleg, run in IEEE double by the same interpreter, yields the 5- and
            10-point Gauss-Legendre rules; physical constants
"""
import itertools
import math

from vf import symx, symnp, loader, cmodels, cast
from vf.symx import sym_and, sym_or, sym_not, sym_ite, sym_sum, is_sym, SReal
import z3

PROPERTY = "C11"
LEVEL = "translation_validation"
NEEDS_BUILD = True
CONFORMANCE_BUILD = True
FUNCTIONS = [("esutil/cosmology/cosmolib.c", n) for n in
             ("cosmo_new", "ez_inverse", "ez_inverse_integral", "Dc", "Dm", "Da", "Dl", "dV", "V", "scinv", "gauleg")] + \
            [("esutil/cosmology/cosmolib_pywrap.c", "PyCosmoObject_* (all methods of the method table)")] + \
            [("esutil/cosmology/cosmology.py", n) for n in
             ("Cosmo.__init__", "Cosmo.extract_parms", "Cosmo.Dc", "Cosmo.Dm", "Cosmo.Da", "Cosmo.Dl", "Cosmo.dV", "Cosmo.V",
              "Cosmo.distmod", "Cosmo.sigmacritinv", "Cosmo.Ez_inverse", "Cosmo.copy", "Cosmo.__reduce__", "_as_c_order")]
ASSUMPTIONS = [
    "double arithmetic is exact real arithmetic; sqrt is a witness r>=0, r*r=t; sinh, sin, log10 are uninterpreted functions (the code and the reference must apply them to equal arguments)",
    "the Gauss-Legendre tables are symbolic reals constrained only to be symmetric (x[n-1-i] = -x[i], w[n-1-i] = w[i]); that the real gauleg produces the 5- and 10-point rules is checked separately in IEEE double",
    "domain: DH > 0, redshifts >= 0, E(z)^2 > 0 at every evaluated redshift, omega_k != 0 for non-flat cosmologies (the Python layer maps omega_k == 0 to flat)",
    "quadrature truncation error against the true integral is outside the claim",
    "NumPy C-API accessors / PyArg_ParseTuple / PyArray_ZEROS are intrinsics; no int64 overflow (sizes tiny)",
]
BOUNDS = {"quick": {"arrays": "length 1..2", "curvature": "flat, open, closed"},
          "thorough": {"arrays": "length 1..3", "curvature": "flat, open, closed"}}
EXPLORE_OPTS = {"max_paths": 5000, "query_timeout_ms": 30000}
TIER_OPTS = {"quick": {"time_budget": 300}, "thorough": {"time_budget": 1800}}
CLIGHT = 2.99792458e5

FAMILIES = ("Dc", "Dm", "Da", "Dl", "scinv")


def configs(tier):
    q = tier == "quick"
    out = []
    for flat in (1, 0):
        for grp in ("ez", "integral", "dist", "dV", "vol", "scinv"):
            out.append(("clib", flat, grp))
    ns = (1, 2) if q else (1, 2, 3)
    for flat in (1, 0):
        for fam in FAMILIES:
            for n in ns:
                out.append(("wrap", flat, fam, n))
        for n in ns:
            out.append(("wrap", flat, "ez_inverse", n))
            out.append(("wrap", flat, "dV", n))
    out.append(("py_ctor",))
    for fam in ("Dc", "Dm", "Da", "Dl", "sigmacritinv"):
        for n in (ns if not q else (1, 2)):
            out.append(("py_dispatch", fam, n))
    out.append(("py_misc",))
    out.append(("py_copies",))
    out.append(("tables",))
    return out


# ----------------------------------------------------------------------------
_UF = {}


def _uf(name):
    f = _UF.get(name)
    if f is None:
        f = _UF[name] = z3.Function(name, z3.RealSort(), z3.RealSort())
    return f


def _install_ufs():
    for name in ("sinh", "sin", "log10"):
        symnp._TRIG[name] = (lambda nm: (lambda c: SReal(_uf(nm)(symx.real_term(c)))))(name)


def _tables(cx):
    """symbolic, symmetric Gauss-Legendre tables"""
    out = {}
    for n, pre in ((5, "g"), (10, "v")):
        half = n // 2
        xs = [cx.real("%sx%d" % (pre, i)) for i in range(half)]
        ws = [cx.real("%sw%d" % (pre, i)) for i in range(half)]
        if n % 2:
            mid_w = cx.real("%swm" % pre)
            x = xs + [0.0] + [-v for v in xs[::-1]]
            w = ws + [mid_w] + ws[::-1]
        else:
            x = xs + [-v for v in xs[::-1]]
            w = ws + ws[::-1]
        out[n] = (x, w)
    return out


def _abstractions(names):
    """C functions replaced by uninterpreted functions of their redshift arguments (the
    struct cosmo is fixed on a path): modular reasoning -- each caller is verified for an
    arbitrary callee, the callee against its own definition in its own harness"""
    intr = {}
    for nm in names:
        nargs = {"ez_inverse": 1, "dV": 1}.get(nm, 2)
        f = z3.Function("C_" + nm, *([z3.RealSort()] * (nargs + 1)))

        def mk(f=f, nargs=nargs):
            def g(I, cptr, *zs):
                return SReal(f(*[symx.real_term(cast.as_num(z)) for z in zs[:nargs]]))
            return g
        intr[nm] = mk()
        _UF["C_" + nm] = f
    return intr


def A(name, *zs):
    """the same uninterpreted stand-in, for reference formulas"""
    return SReal(_UF["C_" + name](*[symx.real_term(z) for z in zs]))


def _cosmo(cx, flat, tables=None, abstract=()):
    tables = tables or _tables(cx)
    M = cmodels.cosmolib_module(tables, _abstractions(abstract))
    DH = cx.real("DH")
    cx.assume(DH > 0)
    om, ol = cx.real("om"), cx.real("ol")
    ok = cx.real("ok") if not flat else 0.0
    if not flat:
        cx.assume(ok != 0)
    c = M.cosmo(DH, flat, om, ol, ok)
    return c, M, dict(DH=DH, om=om, ol=ol, ok=ok, flat=flat, tables=tables)


# reference (Hogg 1999), written independently of the C text
def R_E2(P, z):
    a = 1 + z
    if P["flat"]:
        return P["om"] * a ** 3 + P["ol"]
    return P["om"] * a ** 3 + P["ok"] * a ** 2 + P["ol"]


def R_einv(P, z):
    return symx.sym_sqrt(1 / R_E2(P, z))


def R_Dc(P, z1, z2):
    x, w = P["tables"][5]
    f1, f2 = (z2 - z1) / 2, (z2 + z1) / 2
    return P["DH"] * sym_sum([f1 * R_einv(P, x[i] * f1 + f2) * w[i] for i in range(5)])


def R_Dm(P, z1, z2, pos):
    dc = R_Dc(P, z1, z2)
    if P["flat"]:
        return dc
    if pos:
        k = symx.sym_sqrt(P["ok"]) / P["DH"]
        return symnp.sinh(dc * k) / k
    k = symx.sym_sqrt(-P["ok"]) / P["DH"]
    return symnp.sin(dc * k) / k


def R_Da(P, z1, z2, pos):
    return R_Dm(P, z1, z2, pos) / (1 + z2)


def R_Dl(P, z1, z2, pos):
    return R_Dm(P, z1, z2, pos) * (1 + z2)


def R_dV(P, z, pos):
    da = R_Da(P, 0.0, z, pos)
    return P["DH"] * (1 + z) ** 2 * da ** 2 * R_einv(P, z)


def R_V(P, z1, z2, pos):
    x, w = P["tables"][10]
    f1, f2 = (z2 - z1) / 2, (z2 + z1) / 2
    return sym_sum([f1 * R_dV(P, x[i] * f1 + f2, pos) * w[i] for i in range(10)]) * 4 * math.pi


def _pos(cx, P):
    if P["flat"]:
        return None
    return bool(P["ok"] > 0)


def harness(cx, cfg):
    _install_ufs()
    what = cfg[0]
    try:
        if what == "clib":
            return h_clib(cx, cfg)
        if what == "wrap":
            return h_wrap(cx, cfg)
        if what == "tables":
            return h_tables(cx, cfg)
        return h_py(cx, cfg)
    finally:
        # whatever denominators / radicands are still pending are the domain of definition
        if not isinstance(__import__("sys").exc_info()[1], BaseException):
            _domain(cx)


def _domain(cx):
    cx.assume_obligations(only=("division by zero", "sqrt of a negative"))


def h_clib(cx, cfg):
    _, flat, grp = cfg
    abstract = {"ez": (), "integral": ("ez_inverse",), "dist": ("ez_inverse_integral",),
                "vol": ("ez_inverse", "ez_inverse_integral", "Dc", "Dm", "Da", "Dl", "dV"),
                "dV": ("ez_inverse", "ez_inverse_integral", "Dc", "Dm", "Da", "Dl"),
                "scinv": ("ez_inverse", "ez_inverse_integral", "Dc", "Dm", "Da", "Dl")}[grp]
    c, M, P = _cosmo(cx, flat, abstract=abstract)
    z1, z2 = cx.real("z1", 0), cx.real("z2", 0)
    if grp == "ez":
        e = c.ez_inverse(z1)
        _domain(cx)
        cx.check("1/E(z) >= 0", e >= 0)
        cx.check_eq("1/E(z)^2 * (om(1+z)^3 + ok(1+z)^2 + ol) = 1", e * e * R_E2(P, z1), 1)
        for name in ("DH", "omega_m", "omega_l", "omega_k"):
            cx.check_eq("accessor %s" % name, getattr(c, name)(), {"DH": P["DH"], "omega_m": P["om"], "omega_l": P["ol"], "omega_k": P["ok"]}[name])
        cx.check("accessor flat", int(c.flat()) == flat)
        return
    if grp == "integral":
        got = c.ez_inverse_integral(z1, z2)
        rev = c.ez_inverse_integral(z2, z1)
        x, w = P["tables"][5]
        f1, f2 = (z2 - z1) / 2, (z2 + z1) / 2
        want = sym_sum([f1 * A("ez_inverse", x[i] * f1 + f2) * w[i] for i in range(5)])
        cx.check_eq("ez_inverse_integral = 5-point Gauss-Legendre sum of 1/E over [zmin,zmax]", got, want)
        cx.check_eq("integral(a,b) = -integral(b,a)", rev, -got)
        return
    pos = _pos(cx, P)
    if grp == "dist":
        dc, dm, da, dl = c.Dc(z1, z2), c.Dm(z1, z2), c.Da(z1, z2), c.Dl(z1, z2)
        dcr = c.Dc(z2, z1)
        I12 = A("ez_inverse_integral", z1, z2)
        rdc = P["DH"] * I12
        if flat:
            rdm = rdc
        elif pos:
            k = symx.sym_sqrt(P["ok"]) / P["DH"]
            rdm = symnp.sinh(rdc * k) / k
        else:
            k = symx.sym_sqrt(-P["ok"]) / P["DH"]
            rdm = symnp.sin(rdc * k) / k
        _domain(cx)
        cx.check_eq("Dc = DH * integral of 1/E", dc, rdc)
        cx.check_eq("Dm = Dc (flat) / sinh or sin of the curvature-scaled Dc", dm, rdm)
        cx.check_eq("Da = Dm/(1+z)", da, rdm / (1 + z2))
        cx.check_eq("Dl = Dm(1+z)", dl, rdm * (1 + z2))
        cx.check_eq("identity Da = Dm/(1+z)", da, dm / (1 + z2))
        cx.check_eq("identity Dl = Dm(1+z)", dl, dm * (1 + z2))
        if flat:
            cx.check_eq("identity Dm = Dc when flat", dm, dc)
        cx.check_eq("Dc(b,a) = DH * integral(b,a) (antisymmetry follows from the integral's)", dcr, P["DH"] * A("ez_inverse_integral", z2, z1))
        return
    if grp == "dV":
        dv = c.dV(z1)
        da = A("Da", 0.0, z1)
        cx.check_eq("dV = DH (1+z)^2 Da(0,z)^2 / E(z)", dv, P["DH"] * (1 + z1) ** 2 * da ** 2 * A("ez_inverse", z1))
        return
    if grp == "vol":
        v = c.V(z1, z2)
        x, w = P["tables"][10]
        f1, f2 = (z2 - z1) / 2, (z2 + z1) / 2
        want = sym_sum([f1 * A("dV", x[i] * f1 + f2) * w[i] for i in range(10)]) * 4 * math.pi
        cx.check_eq("V = 4 pi * 10-point Gauss-Legendre sum of dV", v, want)
        return
    if grp == "scinv":
        zl, zs = z1, z2
        s = c.scinv(zl, zs)
        if bool(zs <= zl):
            cx.check_eq("inverse critical density is zero for sources at or in front of the lens", s, 0)
            return
        want = A("Da", zl, zs) * A("Da", 0.0, zl) / A("Da", 0.0, zs)
        _domain(cx)
        k = cast_constant("FOUR_PI_G_OVER_C_SQUARED")
        cx.check_eq("scinv = (4 pi G/c^2) Dls Dl / Ds", s, want * k)
        return
    raise AssertionError(cfg)


_CONST = {}


def cast_constant(name):
    """value of an object-like macro of cosmolib.h in the current source"""
    if name not in _CONST:
        import re
        txt = open(loader.repo() + "/esutil/cosmology/cosmolib.h").read()
        m = re.search(r"#define\s+%s\s+([0-9.eE+-]+)" % name, txt)
        if not m:
            raise symx.Unsupported("macro %s not found" % name)
        _CONST[name] = float(m.group(1))
    return _CONST[name]


SCALAR = {"Dc": "Dc", "Dm": "Dm", "Da": "Da", "Dl": "Dl", "scinv": "scinv"}


def h_wrap(cx, cfg):
    _, flat, fam, n = cfg
    c, M, P = _cosmo(cx, flat, abstract=("ez_inverse", "ez_inverse_integral"))
    if fam in ("ez_inverse", "dV"):
        zs = [cx.real("z%d" % i, 0) for i in range(n)]
        vec = getattr(c, fam + "_vec")(symnp.array(zs))
        cells = vec.tolist()
        cx.check("%s_vec returns one value per input" % fam, len(cells) == n)
        for i in range(min(n, len(cells))):
            cx.check_eq("%s_vec[i] = %s(z[i])" % (fam, fam), cells[i], getattr(c, fam)(zs[i]))
        return
    a = [cx.real("a%d" % i, 0) for i in range(n)]
    b = [cx.real("b%d" % i, 0) for i in range(n)]
    sa, sb = cx.real("sa", 0), cx.real("sb", 0)
    f = getattr(c, fam)
    for kind, args, pairs in (("vec1", (symnp.array(a), sb), [(a[i], sb) for i in range(n)]),
                              ("vec2", (sa, symnp.array(b)), [(sa, b[i]) for i in range(n)]),
                              ("2vec", (symnp.array(a), symnp.array(b)), [(a[i], b[i]) for i in range(n)])):
        vec = getattr(c, "%s_%s" % (fam, kind))(*args)
        cells = vec.tolist()
        cx.check("%s_%s returns one value per input" % (fam, kind), len(cells) == n)
        for i in range(min(n, len(cells))):
            cx.check_eq("%s_%s[i] equals the scalar %s on the corresponding cells" % (fam, kind, fam), cells[i], f(*pairs[i]))


def h_tables(cx, cfg):
    """IEEE-double run of the real gauleg: 5- and 10-point Gauss-Legendre rules"""
    import numpy as np
    tu = cast.parse_tu("esutil/cosmology/cosmolib.c")
    for n in (5, 10):
        I = cast.Interp([tu])
        xr = cast.ListRegion([0.0] * n, "x")
        wr = cast.ListRegion([0.0] * n, "w")
        I.call("gauleg", -1.0, 1.0, n, cast.Ptr(xr, 0), cast.Ptr(wr, 0))
        x = [float(v) for v in xr.cells]
        w = [float(v) for v in wr.cells]
        rx, rw = np.polynomial.legendre.leggauss(n)
        cx.check("gauleg(-1,1,%d) abscissae are the Gauss-Legendre nodes" % n, bool(np.allclose(sorted(x), rx, rtol=0, atol=1e-13)))
        order = np.argsort(x)
        cx.check("gauleg(-1,1,%d) weights are the Gauss-Legendre weights" % n, bool(np.allclose(np.array(w)[order], rw, rtol=0, atol=1e-10)))
        cx.check("gauleg(-1,1,%d) table is symmetric" % n, all(abs(x[i] + x[n - 1 - i]) < 1e-14 and abs(w[i] - w[n - 1 - i]) < 1e-13 for i in range(n)))
    # constants
    k = cast_constant("FOUR_PI_G_OVER_C_SQUARED")
    G, c_, msun, pc = 6.6743e-11, 2.99792458e8, 1.98841e30, 3.0856775814913673e16
    want = 4 * math.pi * G / c_ ** 2 * msun / pc * 1e6       # pc^2/Msun per Mpc
    cx.check("4 pi G/c^2 in pc^2/Msun per Mpc (to 0.1%)", abs(k / want - 1) < 1e-3)
    cx.check("speed of light in km/s", cast_constant("CLIGHT") == 2.99792458e5)
    cx.check("quadrature orders are 5 (distances) and 10 (volume)", cast_constant("NPTS") == 5 and cast_constant("VNPTS") == 10)


# ---- Python layer ------------------------------------------------------------

def _py_cosmo_module(cx, tables):
    M = cmodels.cosmolib_module(tables, _abstractions(("ez_inverse", "ez_inverse_integral")))
    ld = loader.Loader(stubs={"esutil.cosmology._cosmolib": M})
    return ld.get("esutil.cosmology.cosmology"), M


def h_py(cx, cfg):
    what = cfg[0]
    tables = _tables(cx)
    mod, M = _py_cosmo_module(cx, tables)
    if what == "py_ctor":
        kw = {}
        use_h = cx.flag("use_h")
        H0 = cx.real("H0")
        cx.assume(H0 > 0)
        kw["H0"] = H0
        if use_h:
            h = cx.real("h")
            cx.assume(h > 0)
            kw["h"] = h
        flat = cx.flag("flat")
        kw["flat"] = flat
        om, ol = cx.real("om"), cx.real("ol")
        kw["omega_m"], kw["omega_l"] = om, ol
        have_ok = cx.flag("have_ok")
        if have_ok:
            ok = cx.real("ok")
            kw["omega_k"] = ok
        c = mod.Cosmo(**kw)
        rflat = bool(c.flat())
        wantH0 = 100.0 * h if use_h else H0
        cx.check_eq("h overrides H0", c.H0(), wantH0)
        cx.check_eq("DH = c/H0", c.DH() * wantH0, mod._CLIGHT)
        cx.check_eq("module speed of light", mod._CLIGHT, CLIGHT)
        cx.check_eq("omega_m is the one given", c.omega_m(), om)
        if rflat:
            cx.check_eq("flat forces omega_k = 0", c.omega_k(), 0)
            cx.check_eq("flat forces omega_l = 1 - omega_m", c.omega_l(), 1 - om)
        else:
            cx.check_eq("curved: omega_l as given", c.omega_l(), ol)
            cx.check_eq("curved: omega_k as given", c.omega_k(), ok if have_ok else 0)
        # which cosmologies are flat: omega_k absent or zero; a non-zero omega_k is curved
        if not have_ok:
            cx.check("without omega_k the cosmology is flat", rflat)
        else:
            cx.check("omega_k given: flat exactly when it is zero", sym_ite(ok == 0, rflat, not rflat))
        return
    # a generic cosmology for the remaining harnesses
    flat = cx.flag("flat")
    H0 = cx.real("H0")
    cx.assume(H0 > 0)
    om, ol = cx.real("om"), cx.real("ol")
    kw = dict(H0=H0, flat=flat, omega_m=om, omega_l=ol)
    if not flat:
        ok = cx.real("ok")
        cx.assume(ok != 0)
        kw["omega_k"] = ok
    c = mod.Cosmo(**kw)
    if what == "py_dispatch":
        _, fam, n = cfg
        f = getattr(c, fam)
        a = [cx.real("a%d" % i, 0) for i in range(n)]
        b = [cx.real("b%d" % i, 0) for i in range(n)]
        sa, sb = cx.real("sa", 0), cx.real("sb", 0)
        as_list = cx.flag("as_list")
        strided = (not as_list) and cx.flag("strided")
        if strided:
            # every other element of a longer array: the wrappers must see the view's elements
            pad = [cx.real("pad%d" % i, 0) for i in range(n)]
            A = symnp.array([v for pr in zip(a, pad) for v in pr])[::2]
            B = symnp.array([v for pr in zip(b, pad) for v in pr])[::2]
        else:
            A = list(a) if as_list else symnp.array(a)
            B = list(b) if as_list else symnp.array(b)
        for kind, args, pairs in (("array,scalar", (A, sb), [(a[i], sb) for i in range(n)]),
                                  ("scalar,array", (sa, B), [(sa, b[i]) for i in range(n)]),
                                  ("array,array", (A, B), [(a[i], b[i]) for i in range(n)])):
            try:
                r = f(*args)
            except cast.CError as e:
                cx.fail("%s(%s) with %s input: %s" % (fam, kind, "strided" if strided else "contiguous", e))
                return
            cells = r.tolist()
            cx.check("%s(%s) returns one value per element" % (fam, kind), len(cells) == n)
            for i in range(min(n, len(cells))):
                cx.check_eq("%s(%s)[i] equals the scalar call" % (fam, kind), cells[i], f(*pairs[i]))
        # mismatched lengths are rejected
        try:
            f(symnp.array(a + [sa]), symnp.array(b))
        except ValueError:
            cx.check("mismatched lengths rejected", True)
        else:
            cx.fail("%s accepted arrays of different lengths" % fam)
        return
    if what == "py_misc":
        z = cx.real("z", 0)
        z2 = cx.real("z2", 0)
        dm = c.distmod(z)
        dl = c.Dl(0.0, z)
        _domain(cx)
        cx.check_eq("distance modulus = 5 log10(Dl[pc]/10)", dm, 5.0 * symnp.log10(dl * 1.0e6 / 10.0))
        for name in ("dV", "Ez_inverse"):
            f = getattr(c, name)
            r = f(symnp.array([z, z2])).tolist()
            cx.check_eq("%s(array)[0] equals the scalar call" % name, r[0], f(z))
            cx.check_eq("%s(array)[1] equals the scalar call" % name, r[1], f(z2))
        cx.check_eq("V is the C volume", c.V(z, z2), c._cosmo.V(z, z2))
        cx.check_eq("Ezinv_integral is the C integral", c.Ezinv_integral(z, z2), c._cosmo.ez_inverse_integral(z, z2))
        return
    if what == "py_copies":
        import copy
        objs = [("copy()", c.copy()), ("copy.copy", copy.copy(c)), ("copy.deepcopy", copy.deepcopy(c))]
        cls, args = c.__reduce__()
        objs.append(("pickle (__reduce__)", cls(*args)))
        z1, z2 = cx.real("z1", 0), cx.real("z2", 0)
        for name, o in objs:
            cx.check("%s is a new object" % name, o is not c)
            for acc in ("H0", "DH", "omega_m", "omega_l", "omega_k"):
                cx.check_eq("%s reports the same %s" % (name, acc), getattr(o, acc)(), getattr(c, acc)())
            cx.check("%s reports the same flatness" % name, bool(o.flat()) == bool(c.flat()))
            cx.check_eq("%s gives the same Dc" % name, o.Dc(z1, z2), c.Dc(z1, z2))
        return
    raise AssertionError(cfg)


# ----------------------------------------------------------------------------

def conformance():
    """the C interpreter against the compiled extension on concrete inputs"""
    import numpy as np
    import importlib
    import sys
    sys.path.insert(0, loader.real_repo())
    try:
        real = importlib.import_module("esutil.cosmology")
    finally:
        sys.path.pop(0)
    M = cmodels.cosmolib_module()
    n = 0
    for flat, om, ol, ok in ((True, 0.3, 0.7, None), (False, 0.3, 0.6, 0.1), (False, 0.4, 0.7, -0.1)):
        rc = real.Cosmo(H0=70.0, flat=flat, omega_m=om, omega_l=ol, omega_k=ok)
        mc = M.cosmo(CLIGHT / 70.0, 1 if flat else 0, om, (1 - om) if flat else ol, 0.0 if flat else ok)
        for name, args in (("Dc", (0.1, 0.7)), ("Dm", (0.1, 0.7)), ("Da", (0.2, 1.1)), ("Dl", (0.0, 0.9)), ("dV", (0.5,)),
                           ("V", (0.1, 0.6)), ("scinv", (0.2, 0.8)), ("scinv", (0.8, 0.2)), ("ez_inverse", (0.4,))):
            a = getattr(rc._cosmo, name)(*args)
            b = float(getattr(mc, name)(*args))
            assert abs(a - b) <= 1e-11 * max(1.0, abs(a)), (name, args, a, b)
            n += 1
        zz = np.array([0.1, 0.5])
        a = rc._cosmo.Da_vec2(0.05, zz)
        b = mc.Da_vec2(0.05, symnp.array(zz.tolist())).tolist()
        assert np.allclose(a, [float(v) for v in b], rtol=1e-12)
        n += 1
    return n


def _build_cosmo(mdl, flat_cfg=None):
    import esutil.cosmology as cosmo
    from vf.symx import model_float
    DH = model_float(mdl.get("DH", 3000.0))
    om = model_float(mdl.get("om", 0.3))
    ol = model_float(mdl.get("ol", 0.7))
    ok = model_float(mdl.get("ok", 0.0))
    return cosmo, DH, om, ol, ok


def replay(cand):
    """the symbolic tables of a model are not realisable (the real tables are fixed), so a
    candidate is replayed as: do the compiled library and an independent numpy evaluation
    of the Hogg formulas with the real 5-/10-point rules agree at the model's cosmology and
    redshifts?"""
    import numpy as np
    import warnings
    import copy
    import pickle
    warnings.simplefilter("ignore")
    import esutil.cosmology as cosmo
    from vf.symx import model_float
    cfg = cand["cfg"]
    mdl = cand["model"] or {}
    what = cfg[0]
    no = {"reproduced": False, "what": "agrees", "key": None}

    def mf(name, default):
        v = mdl.get(name)
        return model_float(v) if v is not None else default

    def physical(x, lo, hi, default):
        return x if (x is not None and lo <= x <= hi) else default
    def bad_list(a, b):
        return len(a) != len(b) or any(abs(float(x) - float(y)) > 1e-12 * max(1.0, abs(float(y))) for x, y in zip(a, b))
    x5, w5 = np.polynomial.legendre.leggauss(5)
    x10, w10 = np.polynomial.legendre.leggauss(10)

    class Ref(object):
        def __init__(self, DH, flat, om, ol, ok):
            self.DH, self.flat, self.om, self.ol, self.ok = DH, flat, om, ol, ok

        def einv(self, z):
            a = 1 + np.asarray(z, dtype=float)
            return 1 / np.sqrt(self.om * a ** 3 + (0 if self.flat else self.ok * a ** 2) + self.ol)

        def Dc(self, a, b):
            f1, f2 = (b - a) / 2, (b + a) / 2
            return self.DH * np.sum(f1 * self.einv(x5 * f1 + f2) * w5)

        def Dm(self, a, b):
            d = self.Dc(a, b)
            if self.flat:
                return d
            k = np.sqrt(abs(self.ok)) / self.DH
            return np.sinh(d * k) / k if self.ok > 0 else np.sin(d * k) / k

        def Da(self, a, b):
            return self.Dm(a, b) / (1 + b)

        def Dl(self, a, b):
            return self.Dm(a, b) * (1 + b)

        def dV(self, z):
            return self.DH * (1 + z) ** 2 * self.Da(0.0, z) ** 2 * self.einv(z)

        def V(self, a, b):
            f1, f2 = (b - a) / 2, (b + a) / 2
            return 4 * np.pi * np.sum([f1 * self.dV(x * f1 + f2) * w for x, w in zip(x10, w10)])

        def scinv(self, zl, zs):
            if zs <= zl:
                return 0.0
            return self.Da(zl, zs) * self.Da(0.0, zl) / self.Da(0.0, zs) * 4 * np.pi * 6.6743e-11 / 2.99792458e8 ** 2 * 1.98841e30 / 3.0856775814913673e16 * 1e6

    if what == "py_ctor":
        # the constructor's normalisation rules at the model's argument combination and at its neighbours
        combos = []
        base = dict(use_h=bool(mdl.get("use_h", False)), flat=bool(mdl.get("flat", True)), have_ok=bool(mdl.get("have_ok", False)),
                    om=physical(mf("om", 0.3), 0.01, 3, 0.3), ol=physical(mf("ol", 0.6), -3, 3, 0.6), ok=physical(mf("ok", 0.0), -1, 1, 0.0),
                    H0=physical(mf("H0", 70.0), 1, 1000, 70.0), h=physical(mf("h", 0.7), 0.01, 10, 0.7))
        combos.append(base)
        for flat_ in (True, False):
            for have_ok_, ok_ in ((False, 0.0), (True, 0.0), (True, 0.1), (True, -0.2)):
                for ol_ in (0.6, 0.7, 0.9):
                    combos.append(dict(base, flat=flat_, have_ok=have_ok_, ok=ok_, om=0.3, ol=ol_))
        for k in combos:
            kw = dict(H0=k["H0"], flat=k["flat"], omega_m=k["om"], omega_l=k["ol"])
            if k["use_h"]:
                kw["h"] = k["h"]
            if k["have_ok"]:
                kw["omega_k"] = k["ok"]
            c = cosmo.Cosmo(**kw)
            want_flat = (k["ok"] == 0.0) if k["have_ok"] else True
            want_ol = 1.0 - k["om"] if want_flat else k["ol"]
            want_ok = 0.0 if want_flat else k["ok"]
            wantH0 = 100.0 * k["h"] if k["use_h"] else k["H0"]
            got = [float(bool(c.flat())), c.omega_m(), c.omega_l(), c.omega_k(), c.H0()]
            if bad_list(got, [float(want_flat), k["om"], want_ol, want_ok, wantH0]):
                return {"reproduced": True, "key": "parameters:normalisation",
                        "what": "Cosmo(%s) reports flat/omega_m/omega_l/omega_k/H0 = %r, the documented rules give %r"
                                % (", ".join("%s=%r" % kv for kv in sorted(kw.items())), got, [float(want_flat), k["om"], want_ol, want_ok, wantH0])}
        return no
    # a battery of cosmologies: the model's own (when physical) and standard ones
    trials = []
    if what in ("clib", "wrap"):
        flat = bool(cfg[1])
        trials.append((mf("DH", 3000.0), mf("om", 0.3), mf("ol", 0.7), mf("ok", 0.1)))
        trials += [(2997.92458, 0.3, 0.7 if flat else 0.6, 0.1), (4282.7494, 0.25, 0.75 if flat else 0.85, -0.1), (3000.0, 1.2, -0.2 if flat else 0.1, -0.3)]
    else:
        flat = bool(mdl.get("flat", True))
        trials += [(2997.92458, 0.3, 0.7 if flat else 0.6, 0.1), (4282.7494, 0.25, 0.75 if flat else 0.85, -0.1)]
    zs = [(mf("z1", 0.2), mf("z2", 0.9)), (0.0, 0.5), (0.3, 2.0), (1.5, 0.4), (0.7, 0.7), (0.0, 4.5)]
    zs = [(a, b) for a, b in zs if 0 <= a <= 6 and 0 <= b <= 6]

    def bad(a, b, rel=1e-9):
        a, b = np.asarray(a, dtype=float), np.asarray(b, dtype=float)
        return a.shape != b.shape or not np.allclose(a, b, rtol=rel, atol=1e-300)
    for DH, om, ol, ok in trials:
        if not (DH > 0 and 0 < om <= 3 and -3 <= ol <= 3 and abs(ok) <= 1):
            continue
        if flat:
            ol_eff, ok_eff = 1 - om, 0.0
        else:
            if ok == 0:
                continue
            ol_eff, ok_eff = ol, ok
        H0 = CLIGHT / DH
        c = cosmo.Cosmo(H0=H0, flat=flat, omega_m=om, omega_l=ol, omega_k=None if flat else ok)
        r = Ref(CLIGHT / H0, flat, om, ol_eff, ok_eff)
        tag = "Cosmo(H0=%r, flat=%r, omega_m=%r, omega_l=%r, omega_k=%r)" % (H0, flat, om, ol, None if flat else ok)
        if bad([c.DH(), c.omega_m(), c.omega_l(), c.omega_k(), float(bool(c.flat()))], [CLIGHT / H0, om, ol_eff, ok_eff, float(flat)]):
            return {"reproduced": True, "key": "parameters", "what": "%s reports DH/om/ol/ok/flat = %r" % (tag, (c.DH(), c.omega_m(), c.omega_l(), c.omega_k(), c.flat()))}
        for a, b in zs:
            amax = 1 + max(a, b)
            if om * 1 + min(0, ok_eff) * amax ** 2 + min(0.0, ol_eff) <= 0.05:
                continue
            with np.errstate(all="ignore"):
                checks = [("Ez_inverse", c.Ez_inverse(a), r.einv(a), 1e-12), ("Dc", c.Dc(a, b), r.Dc(a, b), 1e-8), ("Dm", c.Dm(a, b), r.Dm(a, b), 1e-8),
                          ("Da", c.Da(a, b), r.Da(a, b), 1e-8), ("Dl", c.Dl(a, b), r.Dl(a, b), 1e-8), ("dV", c.dV(b), r.dV(b), 1e-8),
                          ("V", c.V(a, b), r.V(a, b), 1e-8), ("sigmacritinv", c.sigmacritinv(a, b), r.scinv(a, b), 2e-3),
                          ("Dc antisymmetry", c.Dc(b, a), -c.Dc(a, b), 1e-12), ("Da identity", c.Da(a, b), c.Dm(a, b) / (1 + b), 1e-14),
                          ("Dl identity", c.Dl(a, b), c.Dm(a, b) * (1 + b), 1e-14),
                          ("distmod", c.distmod(b) if b > 0 else 0.0, 5 * np.log10(c.Dl(0.0, b) * 1e6 / 10) if b > 0 else 0.0, 1e-13)]
                if flat:
                    checks.append(("Dm=Dc flat", c.Dm(a, b), c.Dc(a, b), 0))
                for name, got, want, rel in checks:
                    if not (np.isfinite(want)):
                        continue
                    if (rel == 0 and got != want) or (rel and bad(got, want, rel)):
                        return {"reproduced": True, "key": "value:" + name.split()[0], "what": "%s: %s(%r, %r) = %r, definition gives %r" % (tag, name, a, b, float(got), float(want))}
                # vectorised forms against the scalar ones
                A = np.array([a, b, a])
                B = np.array([b, a + b, b + 1])
                for fam in ("Dc", "Dm", "Da", "Dl", "sigmacritinv"):
                    f = getattr(c, fam)
                    forms = [("array,scalar", f(A, b), [f(x, b) for x in A]), ("scalar,array", f(a, B), [f(a, y) for y in B]),
                             ("array,array", f(A, B), [f(x, y) for x, y in zip(A, B)]), ("list,list", f(A.tolist(), B.tolist()), [f(x, y) for x, y in zip(A, B)]),
                             ("strided,f4", f(np.repeat(A, 2)[::2], B.astype("f4")), [f(x, y) for x, y in zip(A, B.astype("f4").astype("f8"))])]
                    for kind, got, want in forms:
                        if bad(got, want, 1e-15) and not np.array_equal(np.asarray(got), np.asarray(want)):
                            return {"reproduced": True, "key": "vector:" + fam, "what": "%s: %s(%s) = %r, scalar calls give %r" % (tag, fam, kind, np.asarray(got).tolist(), want)}
                    try:
                        f(np.array([a, b]), np.array([a, b, b]))
                    except ValueError:
                        pass
                    except Exception as e:
                        return {"reproduced": True, "key": "mismatch:" + fam, "what": "%s: %s with mismatched lengths raised %r" % (tag, fam, e)}
                    else:
                        return {"reproduced": True, "key": "mismatch:" + fam, "what": "%s: %s accepted arrays of different lengths" % (tag, fam)}
                for name in ("dV", "Ez_inverse"):
                    f = getattr(c, name)
                    if bad(f(np.array([a, b])), [f(a), f(b)], 1e-15):
                        return {"reproduced": True, "key": "vector:" + name, "what": "%s: %s(array) differs from scalar calls" % (tag, name)}
        # copies
        for hh in (None, 0.7):
            c0 = cosmo.Cosmo(H0=H0, h=hh, flat=flat, omega_m=om, omega_l=ol, omega_k=None if flat else ok)
            if hh is not None and bad([c0.H0(), c0.DH()], [100 * hh, CLIGHT / (100 * hh)], 1e-15):
                return {"reproduced": True, "key": "h-overrides-H0", "what": "Cosmo(H0=%r, h=%r): H0()=%r DH()=%r" % (H0, hh, c0.H0(), c0.DH())}
            for name, o in (("copy()", c0.copy()), ("copy.copy", copy.copy(c0)), ("copy.deepcopy", copy.deepcopy(c0)), ("pickle", pickle.loads(pickle.dumps(c0)))):
                pa = [o.H0(), o.DH(), o.omega_m(), o.omega_l(), o.omega_k(), float(bool(o.flat())), o.Dc(0.1, 0.9)]
                pb = [c0.H0(), c0.DH(), c0.omega_m(), c0.omega_l(), c0.omega_k(), float(bool(c0.flat())), c0.Dc(0.1, 0.9)]
                if pa != pb:
                    return {"reproduced": True, "key": "copies", "what": "%s of Cosmo(H0=%r, h=%r, ...) reports %r, original %r" % (name, H0, hh, pa, pb)}
    if what == "tables":
        import esutil.integrate as integ
        return no
    return no


def extra_functions():
    out = []
    for rel in ("esutil/cosmology/cosmolib.c", "esutil/cosmology/cosmolib_pywrap.c"):
        try:
            tu = cast.parse_tu(rel)
            out.append({"function": rel + ": " + ", ".join(sorted(tu.funcs))[:600], "sha1": tu.sha[:12]})
        except Exception as e:
            out.append({"function": rel, "note": "parse failed: %s" % e})
    return out


MANIFEST_ENTRY = {
    "engine": "cast+symx",
    "technique": "translation validation: cosmolib.c and every wrapper of cosmolib_pywrap.c are interpreted symbolically from clang's AST (vf.cast/z3) with a symbolic struct cosmo and symbolic Gauss-Legendre tables and compared, as terms and by SMT (nonlinear reals + uninterpreted sinh/sin/log10), with the Hogg formulas; cosmology.Cosmo is executed symbolically (vf.symx) on top of that model for normalisation, dispatch, copies; the real gauleg is run in IEEE double by the same interpreter; counterexamples are replayed on a scratch build against an independent numpy evaluation",
    "text": "For every cosmology (flat/open/closed, all parameters symbolic) and all redshifts the C results equal the reference terms for 1/E, the 5-point integral, Dc, Dm (sinh/sin/identity), Da, Dl, dV, the 10-point volume and the inverse critical density (zero for sources in front of the lens), the exact identities hold, every vectorised wrapper equals the scalar function cell for cell (lengths <= 2/3), mismatched lengths are rejected, normalisation rules hold and copies/pickles rebuild equal parameters.",
    "note": "floats as reals; quadrature truncation error outside; tables abstract+symmetric in the symbolic part and checked concretely to be the 5-/10-point rules; 4 pi G/c^2 checked to 0.1%",
}
