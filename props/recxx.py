"""shared harnesses over records.cpp interpreted from clang's AST (vf.castxx).
Used by C01 (header framing, whole-table write/read), C02 (cursor machines of the subset
readers) and C03 (always-append, in-place row count)."""
from vf import symx, symnp, castxx, cast
from vf.cast import Ptr, ListRegion, CError
from vf.symx import sym_and, sym_or, sym_not, is_sym

REL = "esutil/recfile/records.cpp"
TAIL = [ord(c) for c in "\nEND\n\n"]
READ, WRITE = 1, 2


def tu():
    return castxx.parse_cxx(REL, "Records")


def functions():
    t = tu()
    names = ("read_sfile_header", "write_header_and_update_offset", "update_row_count", "Write", "WriteAllAsBinary",
             "ensure_writable", "ensure_readable", "ensure_binary", "goto_offset", "do_seek", "skip_rows", "skip_binary_rows",
             "read_from_binary_column", "get_nrows_to_read", "get_ncols_to_read", "read_columns", "read_binary_columns",
             "read_binary_slice", "process_slice")
    return [{"function": "%s:Records::%s" % (REL, n), "sha1": t.sha[:12]} for n in names if n in t.functions]


class OutArr(object):
    """the numpy output array of a read: a flat byte region, rowsize bytes per row"""

    def __init__(self, nrows, rowsize):
        self.nrows, self.rowsize = nrows, rowsize
        self.region = ListRegion([None] * (nrows * rowsize), "out")


def _intr(extra=None):
    def getptr1(I, o, i):
        i = cast.as_num(i)
        if isinstance(o, OutArr):
            return Ptr(o.region, int(i) * o.rowsize)
        return cast.i_PyArray_GETPTR1(I, o, i)

    def size(I, o):
        if isinstance(o, OutArr):
            return o.nrows
        return cast.i_PyArray_SIZE(I, o)
    d = {"PyArray_GETPTR1": getptr1, "PyArray_SIZE": size, "PyArray_Size": size, "debugout": lambda I, *a: None}
    if extra:
        d.update(extra)
    return d


def interp(this, extra=None):
    base = {"mFptr": None, "mAction": READ | WRITE, "mFileOffset": 0, "mFileType": 0, "mNrows": 0, "mRowSize": 0, "mDebug": False,
            "mSizes": [], "mOffsets": [], "mNames": [], "mNfields": 0, "mData": None, "mReadAsWhitespace": False}
    base.update(this)
    I = castxx.CxxInterp([tu()], base, intrinsics=_intr(extra))
    # NumPy's type numbers (the filtered AST dump does not contain the header's enum): values of this platform
    for k, v in {"NPY_BOOL": 0, "NPY_BYTE": 1, "NPY_UBYTE": 2, "NPY_SHORT": 3, "NPY_USHORT": 4, "NPY_INT": 5, "NPY_UINT": 6, "NPY_LONG": 7, "NPY_ULONG": 8,
                 "NPY_LONGLONG": 9, "NPY_ULONGLONG": 10, "NPY_FLOAT": 11, "NPY_DOUBLE": 12, "NPY_OBJECT": 17, "NPY_STRING": 18, "NPY_UNICODE": 19, "NPY_VOID": 20,
                 "NPY_INT8": 1, "NPY_UINT8": 2, "NPY_INT16": 3, "NPY_UINT16": 4, "NPY_INT32": 5, "NPY_UINT32": 6, "NPY_INT64": 7, "NPY_UINT64": 8,
                 "NPY_FLOAT32": 11, "NPY_FLOAT64": 12}.items():
        I.enums.setdefault(k, v)
    return I


# ---- C01: header framing ---------------------------------------------------------

def h_read_header(cx, L, nrows_after=2):
    """any header body written by the Python layer followed by the writer's own END framing is
    returned whole, with the data offset equal to its length"""
    body = [cx.int("b%d" % i, 1, 127) for i in range(L)]
    full = body + TAIL
    # the framing line occurs once: the Python layer writes repr()-quoted text, so a bare
    # line "END" between two newlines cannot occur inside the body
    pat = [ord(c) for c in "\nEND\n"]
    for i in range(L):
        cx.assume(sym_not(sym_and(*[full[i + j] == pat[j] for j in range(5) if i + j < len(full)])) if i + 5 <= len(full) else True)
    # the first bytes of the first row are arbitrary (a row may well begin with a newline byte)
    rows = [cx.int("d0", 0, 255), cx.int("d1", 0, 255)] + [("D", i) for i in range(nrows_after * 3)]
    start = cx.choice("pos", len(full) + 1)
    f = castxx.CFile(full + rows, pos=start)
    I = interp({"mFptr": f})
    try:
        r = I.method("read_sfile_header")
    except CError as e:
        cx.fail("read_sfile_header raised on a well-formed header")
        return
    hdr, off = r
    cx.check("read_sfile_header: data offset = length of the header as written", off == L + len(TAIL))
    cx.check("read_sfile_header: returns exactly the bytes written", len(hdr) == L + len(TAIL) and all(
        (a is b) or (not is_sym(a) and not is_sym(b) and a == b) or (is_sym(a) and is_sym(b) and a.t.eq(b.t)) for a, b in zip(hdr, full)))
    cx.check("read_sfile_header: the file is not modified", f.cells == full + rows)


def h_write_header(cx, L):
    text = [cx.int("t%d" % i, 1, 127) for i in range(L)]
    f = castxx.CFile([], pos=0)
    I = interp({"mFptr": f, "mAction": WRITE}, {"get_object_as_string": lambda I_, o: castxx.CppString(list(o))})
    try:
        I.method("write_header_and_update_offset", text)
    except CError:
        cx.fail("write_header_and_update_offset raised / has undefined behaviour for some header text")
        return
    cx.check("write_header: the file holds exactly the header text", len(f.cells) == L and all(
        (is_sym(a) and a.t.eq(b.t)) or (not is_sym(a) and a == b) for a, b in zip(f.cells, text)))
    cx.check_eq("write_header: data offset = length of the text", I.this.f["mFileOffset"], L)


def h_update_row_count(cx, nold):
    n = cx.int("nrows", 0, 10 ** 15)
    size_line = [ord(c) for c in "SIZE = "] + [("old20", i) for i in range(20)] + [10]
    rest = [("H", i) for i in range(5)] + TAIL + [("D", i) for i in range(nold * 2)]
    f = castxx.CFile(size_line + rest, pos=cx.choice("pos", len(size_line + rest) + 1))
    I = interp({"mFptr": f, "mAction": READ | WRITE})
    I.method("update_row_count", n)
    want = [ord(c) for c in "SIZE = "] + castxx._num20(n) + [10]
    cx.check("update_row_count: file length unchanged (fixed-width SIZE line)", len(f.cells) == len(size_line) + len(rest))
    ok = len(f.cells) == len(size_line) + len(rest)
    if ok:
        got = f.cells[:28]
        same = all((isinstance(a, tuple) and isinstance(b, tuple) and a[0] == b[0] and a[2] == b[2] and (a[1] is b[1] or (is_sym(a[1]) and is_sym(b[1]) and a[1].t.eq(b[1].t)) or a[1] == b[1]))
                   or (not isinstance(a, tuple) and not isinstance(b, tuple) and a == b) for a, b in zip(got, want))
        cx.check("update_row_count: the first line is 'SIZE = %20d' of the new count", same)
        cx.check("update_row_count: nothing after the SIZE line is touched", f.cells[28:] == rest)
    cx.check("update_row_count: position returns to the end of the file", f.pos == len(f.cells))


def h_write_binary(cx, nold, k):
    rowsize = 3
    old = [("H", i) for i in range(4)] + TAIL + [("D", r, j) for r in range(nold) for j in range(rowsize)]
    f = castxx.CFile(list(old), pos=cx.choice("pos", len(old) + 1))
    data = ListRegion([("N", r, j) for r in range(k) for j in range(rowsize)], "array data")

    def copy_field_info(I_, descr):
        I_.this.f["mRowSize"] = rowsize
        I_.this.f["mNames"] = ["x"]
    I = interp({"mFptr": f, "mAction": READ | WRITE, "mFileType": 0},
               {"PyArray_Check": lambda I_, o: 1, "PyArray_Size": lambda I_, o: k, "PyArray_SIZE": lambda I_, o: k, "PyArray_DESCR": lambda I_, o: "descr",
                "PyArray_DATA": lambda I_, o: Ptr(data, 0), "copy_field_info": copy_field_info, "Py_INCREF": lambda I_, o: None})
    try:
        I.method("Write", "arrayobj")
    except CError:
        cx.fail("Records::Write raised on a plain binary write")
        return
    cx.check("Write: rows are appended at the end of the file wherever the position was",
             f.cells == old + data.cells)
    cx.check("Write: every fwrite starts at the end of the file", all(e[1] == e[3] for e in f.log if e[0] == "write"))


# ---- C02: cursor machines --------------------------------------------------------

def _table_file(nrows, sizes, hdrlen):
    rowsize = sum(sizes)
    hdr = [("H", i) for i in range(hdrlen)]
    data = [("D", r, j) for r in range(nrows) for j in range(rowsize)]
    return hdr, data, rowsize


def h_read_binary_slice(cx, nrows, sizes):
    hdr, data, rowsize = _table_file(nrows, sizes, 5)
    row1 = cx.int("row1", 0, nrows)
    row2 = cx.int("row2", 0, nrows)
    step = cx.int("step", 1, 3)
    cx.assume(row1 <= row2)
    f = castxx.CFile(hdr + data, pos=cx.choice("pos", 3))
    offs = [sum(sizes[:i]) for i in range(len(sizes))]
    I = interp({"mFptr": f, "mAction": READ, "mFileType": 0, "mFileOffset": len(hdr), "mNrows": nrows, "mRowSize": rowsize,
                "mSizes": list(sizes), "mOffsets": offs, "mNfields": len(sizes)})
    r1, r2, st = int(row1), int(row2), int(step)
    want_rows = list(range(r1, r2, st))
    out = OutArr(len(want_rows), rowsize)
    try:
        I.method("read_binary_slice", out, r1, r2, st)
    except CError:
        cx.fail("read_binary_slice raised for a slice inside the file")
        return
    for i, r in enumerate(want_rows):
        got = out.region.cells[i * rowsize:(i + 1) * rowsize]
        cx.check("read_binary_slice: output row i holds the bytes of file row start + i*step", got == [("D", r, j) for j in range(rowsize)])
    cx.check("read_binary_slice: never reads outside the table", all(e[0] != "read" or (e[1] >= len(hdr) and e[1] + e[2] <= len(hdr) + len(data)) for e in f.log))


def h_read_binary_columns(cx, nrows, sizes):
    hdr, data, rowsize = _table_file(nrows, sizes, 4)
    ncols = len(sizes)
    offs = [sum(sizes[:i]) for i in range(ncols)]
    # sorted distinct rows / columns chosen by the solver
    nr = cx.choice("nr", min(nrows, 3)) + 1
    rows = [cx.int("r%d" % i, 0, nrows - 1) for i in range(nr)]
    for a, b in zip(rows, rows[1:]):
        cx.assume(a < b)
    nc = cx.choice("nc", ncols) + 1
    cols = [cx.int("c%d" % i, 0, ncols - 1) for i in range(nc)]
    for a, b in zip(cols, cols[1:]):
        cx.assume(a < b)
    rws = [int(r) for r in rows]
    cls = [int(c) for c in cols]
    f = castxx.CFile(hdr + data, pos=cx.choice("pos", 2))
    I = interp({"mFptr": f, "mAction": READ, "mFileType": 0, "mFileOffset": len(hdr), "mNrows": nrows, "mRowSize": rowsize,
                "mSizes": list(sizes), "mOffsets": offs, "mNfields": ncols, "mNames": [castxx.CppString.of("f%d" % i) for i in range(ncols)]})
    out_rowsize = sum(sizes[c] for c in cls)
    out = OutArr(len(rws), out_rowsize)
    rows_arg = cast.NONE_PTR if len(rws) == nrows else symnp.array(rws, dtype="i8")
    try:
        I.method("read_columns", out, symnp.array(cls, dtype="i8"), rows_arg)
    except CError:
        cx.fail("read_columns raised for sorted unique rows/columns inside the file")
        return
    for i, r in enumerate(rws):
        want = []
        for c in cls:
            want += [("D", r, offs[c] + j) for j in range(sizes[c])]
        got = out.region.cells[i * out_rowsize:(i + 1) * out_rowsize]
        cx.check("read_binary_columns: output row i holds the selected fields of the i-th requested row, packed", got == want)
    reads = [e for e in f.log if e[0] == "read"]
    cx.check("read_binary_columns: the file position never moves backwards and stays inside the table",
             all(a[1] <= b[1] for a, b in zip(reads, reads[1:])) and all(e[1] >= len(hdr) and e[1] + e[2] <= len(hdr) + len(data) for e in reads))
