"""C02 -- row/column subset reads equal indexing the fully-read table (Python layers).

recfile.Util.Recfile / RecfileColumnSubset / RecfileSubset and sfile.SFile / sfile.read are
executed symbolically against the contract model of records.Records (vf.recmodel): the
reader delivers exactly the requested cells when handed sorted unique rows/columns and an
output array of the right length, and raises otherwise.  What is decided here is the
selection logic of the Python layers: list normalisation, slice arithmetic, column
ordering, scalar-vs-list handling, the access styles and their agreement.
"""
import itertools

from vf import symx, symnp, symrec, loader, recmodel
from vf.symx import sym_and, sym_or, sym_not, is_sym
import numpy as rnp

PROPERTY = "C02"
LEVEL = "model_checking"
NEEDS_BUILD = True
FUNCTIONS = [("esutil/recfile/Util.py", n) for n in
             ("Recfile.read", "Recfile.__getitem__", "Recfile._process_args_as_rows_or_columns", "Recfile._process_slice",
              "Recfile._slice2rows", "Recfile._fix_range", "Recfile._get_rows2read", "Recfile._get_colnums_to_read", "Recfile.get_colnums",
              "Recfile.get_colnum", "Recfile._read_columns", "Recfile._read_binary_slice", "Recfile._get_slice_nrows",
              "RecfileColumnSubset.__getitem__", "RecfileColumnSubset.read", "RecfileSubset.read", "split_fields")] + \
            [("esutil/sfile.py", n) for n in ("SFile.open", "SFile.read", "SFile._do_read", "SFile.__getitem__", "read", "reduce_array", "split_fields")]
ASSUMPTIONS = [
    "records.Records is replaced by its contract (vf.recmodel): exact delivery for sorted unique rows/columns inside the file and an output array of matching length, an error otherwise; that records.cpp implements the contract (the cursor arithmetic of read_binary_columns/read_text_columns/read_binary_slice) is not decided here",
    "cell values are solver variables; the number of rows is concrete (1..3), row indices and slice bounds are solver variables over [-n-2, n+2] (lists: [0, n+1]), concretised only after the code under test has run",
    "text files are represented by delim=','; tokenisation of text is C04's subject",
]
BOUNDS = {"quick": {"rows": "1..3", "row list": "<=2 entries", "slice": "start/stop in [-n-2,n+2] or None, step None/1/2/3", "columns": "3 fields, selections of <=2"},
          "thorough": {"rows": "1..4", "row list": "<=3 entries", "slice": "as quick", "columns": "3 fields, all selections"}}
EXPLORE_OPTS = {"max_paths": 60000}
REPLAYS_PER_LABEL = 10
TIER_OPTS = {"quick": {"time_budget": 300}, "thorough": {"time_budget": 2400}}

DESCR = [("x", "<i4"), ("y", "<f8"), ("v", "<f4", (2,))]
NAMES = [d[0] for d in DESCR]
FNAME = "/virtual/t.rec"


def configs(tier):
    q = tier == "quick"
    out = []
    ns = (1, 2, 3) if q else (1, 2, 3, 4)
    for delim in (None, ","):
        for n in ns:
            for obj in ("rec", "sf"):
                out.append(("rows_scalar", obj, delim, n))
                out.append(("rows_list", obj, delim, n, 1))
                if n >= 2:
                    out.append(("rows_list", obj, delim, n, 2))
                if not q and n >= 3:
                    out.append(("rows_list", obj, delim, n, 3))
                for style in ("whole", "colsub"):
                    out.append(("slice", obj, delim, n, style))
            out.append(("columns", "rec", delim, n))
            out.append(("columns", "sf", delim, n))
        out.append(("styles", delim, 2))
        out.append(("styles", delim, -2))
    # the C++ cursor machines of the subset readers, interpreted from records.cpp
    for sizes in (((2, 1, 3), (4, 4)) if q else ((2, 1, 3), (4, 4), (1, 2, 1, 2))):
        for nrows in ((3, 4) if q else (3, 4, 5)):
            out.append(("xx_slice", nrows, sizes))
            out.append(("xx_columns", nrows, sizes))
    return out


def _setup(cx, delim, n, descr=None):
    vfs = recmodel.VFS()
    mod = recmodel.make_module(vfs)
    ld = loader.Loader(stubs={"esutil.recfile.records": mod}, builtin_overrides={"open": recmodel.make_open(vfs)})
    ru = ld.get("esutil.recfile.Util")
    dt = rnp.dtype(descr or DESCR)
    tab = symrec.SRec.zeros((n,), dt)
    cells = {}
    for name in dt.names:
        b, sub = symrec.field_base(dt, name)
        full = (n,) + tuple(sub)
        src = rnp.empty(full, dtype=object)
        for ix in rnp.ndindex(*full):
            c = cx.int("%s_%s" % (name, "_".join(map(str, ix))))
            src[ix] = c
        tab[name] = symnp.SArr(src, b)
        cells[name] = src
    f = vfs.get(FNAME)
    f.exists = True
    f.dtype = dt
    f.delim = delim
    f.chunks = [tab]
    hdr = {"_DTYPE": dt.descr, "_VERSION": "1.0"}
    if delim is not None:
        hdr["_DELIM"] = delim
    import pprint
    f.header = "\n".join(["SIZE = %20d" % n, pprint.pformat(hdr), "END", "", ""])
    return ld, ru, vfs, tab, cells, dt


def _open(ld, ru, obj, delim, n, dt):
    if obj == "rec":
        return ru.Recfile(FNAME, mode="r", dtype=dt, delim=delim, nrows=n)
    sf = ld.get("esutil.sfile")
    return sf.SFile(FNAME)


def _row_cells(cells, name, r):
    a = cells[name][r]
    return a.ravel().tolist() if isinstance(a, rnp.ndarray) else [a]


def _check_table(cx, what, res, cells, rows, cols, plain=False):
    """res must be table[rows][cols] (cols in file order), or the plain column for plain=True"""
    if plain:
        cx.check("%s: a single column name yields a plain array" % what, isinstance(res, symnp.SArr) and not isinstance(res, symrec.SRec))
        if not isinstance(res, symnp.SArr):
            return
        cx.check("%s: one entry per selected row" % what, res.shape[0] == len(rows) if res.ndim else False)
        if res.ndim and res.shape[0] == len(rows):
            for i, r in enumerate(rows):
                got = res.la[i]
                got = got.ravel().tolist() if isinstance(got, rnp.ndarray) else [got]
                for g, c in zip(got, _row_cells(cells, cols[0], r)):
                    cx.check_eq("%s: cells equal indexing the full table" % what, g, c)
        return
    cx.check("%s: result is a table" % what, isinstance(res, symrec.SRec))
    if not isinstance(res, symrec.SRec):
        return
    cx.check("%s: columns are the selected ones, in file order" % what, list(res.dtype.names) == list(cols))
    cx.check("%s: one row per selected row" % what, res.ndim == 1 and res.size == len(rows))
    if list(res.dtype.names) != list(cols) or res.ndim != 1 or res.size != len(rows):
        return
    for name in cols:
        for i, r in enumerate(rows):
            got = res[name].la[i]
            got = got.ravel().tolist() if isinstance(got, rnp.ndarray) else [got]
            for g, c in zip(got, _row_cells(cells, name, r)):
                cx.check_eq("%s: cells equal indexing the full table" % what, g, c)


def extra_functions():
    from props import recxx
    return recxx.functions()


def harness(cx, cfg):
    what = cfg[0]
    if what == "xx_slice":
        from props import recxx
        return recxx.h_read_binary_slice(cx, cfg[1], cfg[2])
    if what == "xx_columns":
        from props import recxx
        return recxx.h_read_binary_columns(cx, cfg[1], cfg[2])
    if what == "styles":
        return h_styles(cx, cfg)
    obj, delim, n = cfg[1], cfg[2], cfg[3]
    ld, ru, vfs, tab, cells, dt = _setup(cx, delim, n)
    h = _open(ld, ru, obj, delim, n, dt)
    tag = "%s(%s)" % ("Recfile" if obj == "rec" else "SFile", "text" if delim else "binary")
    if what == "rows_scalar":
        r = cx.int("row", -n - 1, n)
        style = cx.choice("style", 2)
        try:
            res = h.read(rows=r) if style == 0 else h[r]
        except (ValueError, IndexError, RuntimeError) as e:
            rv = int(r)
            cx.check("%s: a scalar row inside [-n, n) is read" % tag, not (-n <= rv < n))
            return
        rv = int(r)
        cx.check("%s: a scalar row outside [-n, n) is rejected" % tag, -n <= rv < n)
        if -n <= rv < n:
            _check_table(cx, "%s scalar row" % tag, res, cells, [rv % n], NAMES)
        return
    if what == "rows_list":
        k = cfg[4]
        rs = [cx.int("r%d" % i, 0, n + 1) for i in range(k)]
        style = cx.choice("style", 3)
        container = cx.choice("container", 2)
        arg = list(rs) if container == 0 else symnp.array(rs, dtype="i8")
        try:
            if style == 0:
                res = h.read(rows=arg)
            elif style == 1:
                res = h[arg]
            else:
                res = h[NAMES][arg] if obj == "rec" else h.read(rows=arg, columns=NAMES)
        except (ValueError, IndexError, RuntimeError):
            vals = [int(v) for v in rs]
            cx.check("%s: a row list inside [0, n) is read" % tag, any(v < 0 or v >= n for v in vals))
            return
        vals = [int(v) for v in rs]
        cx.check("%s: an out-of-range row list is rejected" % tag, all(0 <= v < n for v in vals))
        if all(0 <= v < n for v in vals):
            _check_table(cx, "%s row list" % tag, res, cells, sorted(set(vals)), NAMES)
        return
    if what == "slice":
        style = cfg[4]
        has0, has1 = cx.flag("has_start"), cx.flag("has_stop")
        s0 = cx.int("start", -n - 2, n + 2) if has0 else None
        s1 = cx.int("stop", -n - 2, n + 2) if has1 else None
        st = [None, 1, 2, 3][cx.choice("step", 4)]
        sl = slice(s0, s1, st)
        cols = NAMES if style == "whole" else ["y", "x"]
        try:
            if style == "whole":
                res = h[sl]
            else:
                res = h[cols][sl]
        except (ValueError, IndexError, RuntimeError) as e:
            c0 = None if s0 is None else int(s0)
            c1 = None if s1 is None else int(s1)
            cx.fail("%s %s slice raised %s" % (tag, style, type(e).__name__), detail="[%r:%r:%r] %s" % (c0, c1, st, str(e)[:80]))
            return
        c0 = None if s0 is None else int(s0)
        c1 = None if s1 is None else int(s1)
        want = list(range(n)[slice(c0, c1, st)])
        _check_table(cx, "%s %s slice" % (tag, style), res, cells, want, NAMES if style == "whole" else ["x", "y"])
        return
    if what == "columns":
        sels = [(a,) for a in NAMES] + list(itertools.permutations(NAMES, 2)) + [tuple(NAMES[::-1])]
        sel = sels[cx.choice("selection", len(sels))]
        kw = ["columns", "fields"][cx.choice("keyword", 2)]
        scalar = len(sel) == 1 and cx.flag("scalar_name")
        container = cx.choice("container", 3) if not scalar else 0
        arg = sel[0] if scalar else [list(sel), tuple(sel), symnp.array(list(sel))][container]
        style = cx.choice("style", 3)
        if style == 0:
            res = h.read(**{kw: arg})
        elif style == 1:
            res = h[arg if not isinstance(arg, tuple) else list(arg)][:]
        else:
            sub = (h if obj == "rec" else h._robj).get_subset(**{kw: arg})
            res = sub.read()
        want_cols = [nm for nm in NAMES if nm in sel]
        _check_table(cx, "%s columns" % tag, res, cells, list(range(n)), want_cols, plain=scalar)
        if scalar and obj == "sf":
            r2 = h.read(**{kw: arg, "reduce": True})
            _check_table(cx, "%s scalar column with reduce" % tag, r2, cells, list(range(n)), want_cols, plain=True)
        return
    raise AssertionError(cfg)


def h_styles(cx, cfg):
    """the convenience options split / reduce and the module-level reader"""
    _, delim, n = cfg
    if n < 0:
        # a table with a single column: reduce=True gives the plain column however the column was (not) named
        n = -n
        ld, ru, vfs, tab, cells, dt = _setup(cx, delim, n, descr=[("x", "<i4")])
        sfm = ld.get("esutil.sfile")
        kw = [{}, {"columns": ["x"]}, {"columns": "x"}, {"rows": [0]}][cx.choice("how", 4)]
        res = sfm.read(FNAME, reduce=True, **kw)
        rows = [0] if "rows" in kw else list(range(n))
        _check_table(cx, "sfile.read(reduce=True) of a one-column table", res, cells, rows, ["x"], plain=True)
        return
    ld, ru, vfs, tab, cells, dt = _setup(cx, delim, n)
    sfm = ld.get("esutil.sfile")
    which = cx.choice("which", 5)
    if which == 0:
        res = sfm.read(FNAME, columns=["v", "x"], split=True)
        cx.check("split=True returns one plain array per selected column, in file order", isinstance(res, tuple) and len(res) == 2)
        if isinstance(res, tuple) and len(res) == 2:
            _check_table(cx, "sfile.read(split=True)[0]", res[0], cells, list(range(n)), ["x"], plain=True)
            _check_table(cx, "sfile.read(split=True)[1]", res[1], cells, list(range(n)), ["v"], plain=True)
    elif which == 1:
        res = sfm.read(FNAME, columns=["y"], reduce=True)
        _check_table(cx, "sfile.read(one column, reduce=True)", res, cells, list(range(n)), ["y"], plain=True)
    elif which == 2:
        res = sfm.read(FNAME, columns=["y", "x"], reduce=True)
        _check_table(cx, "sfile.read(two columns, reduce=True) keeps the table", res, cells, list(range(n)), ["x", "y"])
    elif which == 3:
        res = sfm.read(FNAME, rows=[1, 0], fields="x")
        _check_table(cx, "sfile.read(rows, fields=name)", res, cells, [0, 1], ["x"], plain=True)
    else:
        with ru.Recfile(FNAME, mode="r", dtype=dt, delim=delim, nrows=n) as rf:
            a = rf["x"][1:]
            b = rf.read(rows=[1], columns="x")
        _check_table(cx, "Recfile['x'][1:]", a, cells, [1], ["x"], plain=True)
        _check_table(cx, "Recfile.read(rows=[1], columns='x')", b, cells, [1], ["x"], plain=True)


# ----------------------------------------------------------------------------

def _real_table(n):
    import numpy as np
    t = np.zeros(n, dtype=DESCR)
    t["x"] = np.arange(n) * 3 + 1
    t["y"] = np.arange(n) * 0.5 - 1.25
    t["v"] = (np.arange(2 * n).reshape(n, 2) + 0.5)
    return t


def replay(cand):
    import numpy as np
    import os
    import tempfile
    import shutil
    import warnings
    warnings.simplefilter("ignore")
    import esutil.sfile as sfile
    import esutil.recfile as recfile
    cfg = cand["cfg"]
    mdl = cand["model"] or {}
    what = cfg[0]
    no = {"reproduced": False, "what": "agrees", "key": None}
    d = tempfile.mkdtemp(prefix="c02-")
    try:
        if what in ("xx_slice", "xx_columns"):
            n = 7
            t = np.zeros(n, dtype=[("a", "<i2"), ("b", "u1"), ("c", "<f4"), ("d", "S3")])
            t["a"] = np.arange(n) * 3
            t["b"] = np.arange(n) + 1
            t["c"] = np.arange(n) * 0.5
            t["d"] = [("r%d" % i).encode() for i in range(n)]
            fn = os.path.join(d, "x.rec")
            sfile.write(t, fn)
            with sfile.SFile(fn) as s_:
                if what == "xx_slice":
                    for a in range(0, n + 1):
                        for b in range(a, n + 1):
                            for st in (1, 2, 3):
                                try:
                                    got = s_[a:b:st]
                                except Exception as e:
                                    return {"reproduced": True, "key": "cxx:slice", "what": "binary slice [%d:%d:%d] of %d rows raised %s: %s" % (a, b, st, n, type(e).__name__, e)}
                                if got.tobytes() != t[a:b:st].tobytes():
                                    return {"reproduced": True, "key": "cxx:slice", "what": "binary slice [%d:%d:%d] of %d rows returns a=%r, expected %r" % (a, b, st, n, got["a"].tolist(), t[a:b:st]["a"].tolist())}
                else:
                    names = list(t.dtype.names)
                    for rows in ([0], [2, 5], [1, 2, 6], list(range(n)), [6]):
                        for cols in (["a"], ["b", "d"], ["c"], ["a", "c", "d"], names):
                            got = s_.read(rows=rows, columns=cols)
                            for c in cols:
                                if not np.array_equal(got[c], t[rows][c]):
                                    return {"reproduced": True, "key": "cxx:columns", "what": "read(rows=%r, columns=%r): column %r = %r, expected %r" % (rows, cols, c, got[c].tolist(), t[rows][c].tolist())}
            return no
        if what == "styles" and cfg[2] < 0:
            _, delim, n = cfg
            n = -n
            t1 = np.zeros(n + 1, dtype=[("x", "<i4")])
            t1["x"] = np.arange(n + 1) * 3 + 1
            fn1 = os.path.join(d, "one.rec")
            sfile.write(t1, fn1, delim=delim)
            for kw in ({}, {"columns": ["x"]}, {"columns": "x"}, {"rows": [0, 1]}):
                res = sfile.read(fn1, reduce=True, **kw)
                w = t1["x"][kw["rows"]] if "rows" in kw else t1["x"]
                if not (isinstance(res, np.ndarray) and res.dtype.names is None and np.array_equal(res, w)):
                    return {"reproduced": True, "key": "reduce:one-column", "what": "sfile.read(one-column %s file, reduce=True%s) -> %r, expected the plain column %r"
                            % ("text" if delim else "binary", "".join(", %s=%r" % kv for kv in kw.items()), res, w.tolist())}
            return no
        if what == "styles":
            _, delim, n = cfg
            obj = "sf"
        else:
            obj, delim, n = cfg[1], cfg[2], cfg[3]
        t = _real_table(n)
        fn = os.path.join(d, "t.rec")
        sfile.write(t, fn, delim=delim)
        full = sfile.read(fn)

        def opened():
            if obj == "rec":
                with sfile.SFile(fn) as s:
                    off, dt = s._data_start, s._dtype
                return recfile.Recfile(fn, mode="r", dtype=dt, delim=delim, nrows=n, offset=off)
            return sfile.SFile(fn)

        def same(res, rows, cols, plain=False):
            want = full[rows] if len(rows) else full[:0]
            if plain:
                w = want[cols[0]]
                return isinstance(res, np.ndarray) and res.dtype.names is None and res.shape == w.shape and np.array_equal(res, w)
            if not isinstance(res, np.ndarray) or res.dtype.names is None or list(res.dtype.names) != list(cols) or res.shape != (len(rows),):
                return False
            return all(np.array_equal(res[c], want[c]) for c in cols)
        tag = "%s(%s, %d rows)" % ("Recfile" if obj == "rec" else "SFile", "text" if delim else "binary", n)
        h = opened()
        try:
            if what == "rows_scalar":
                r = int(mdl.get("row", 0))
                style = int(mdl.get("style", 0))
                call = "%s.read(rows=%d)" % (tag, r) if style == 0 else "%s[%d]" % (tag, r)
                valid = -n <= r < n
                try:
                    res = h.read(rows=r) if style == 0 else h[r]
                except Exception as e:
                    return no if not valid else {"reproduced": True, "key": "scalar-row:raises", "what": "%s raised %s: %s" % (call, type(e).__name__, e)}
                if not valid:
                    return {"reproduced": True, "key": "scalar-row:accepted:%s" % ("high" if r >= n else "low"), "what": "%s accepted an out-of-range row and returned %r" % (call, res.tolist())}
                if not same(res, [r % n], NAMES):
                    return {"reproduced": True, "key": "scalar-row:value", "what": "%s -> %r" % (call, res.tolist())}
                return no
            if what == "rows_list":
                k = cfg[4]
                rs = [int(mdl.get("r%d" % i, 0)) for i in range(k)]
                style = int(mdl.get("style", 0))
                arg = list(rs) if int(mdl.get("container", 0)) == 0 else np.array(rs)
                valid = all(0 <= v < n for v in rs)
                call = "%s rows=%r (style %d)" % (tag, rs, style)
                try:
                    if style == 0:
                        res = h.read(rows=arg)
                    elif style == 1:
                        res = h[arg]
                    else:
                        res = h[NAMES][arg] if obj == "rec" else h.read(rows=arg, columns=NAMES)
                except Exception as e:
                    return no if not valid else {"reproduced": True, "key": "row-list:raises", "what": "%s raised %s: %s" % (call, type(e).__name__, e)}
                if not valid:
                    return {"reproduced": True, "key": "row-list:accepted:len%d" % k, "what": "%s: an out-of-range row list was accepted and returned %r" % (call, res.tolist())}
                if not same(res, sorted(set(rs)), NAMES):
                    return {"reproduced": True, "key": "row-list:value", "what": "%s -> %r" % (call, res.tolist())}
                return no
            if what == "slice":
                style = cfg[4]
                s0 = int(mdl["start"]) if mdl.get("has_start") else None
                s1 = int(mdl["stop"]) if mdl.get("has_stop") else None
                st = [None, 1, 2, 3][int(mdl.get("step", 0))]
                sl = slice(s0, s1, st)
                want = list(range(n)[sl])
                call = "%s%s[%r:%r:%r]" % (tag, "" if style == "whole" else "[['y','x']]", s0, s1, st)
                kind = ("empty" if not want else "neg" if ((s0 or 0) < 0 or (s1 or 0) < 0) else "beyond" if ((s0 or 0) > n or (s1 or 0) > n) else "plain")
                try:
                    res = h[sl] if style == "whole" else h[["y", "x"]][sl]
                except Exception as e:
                    return {"reproduced": True, "key": "slice:raises:%s:%s:%s" % ("text" if delim else "binary", style, kind),
                            "what": "%s raised %s: %s (Python slicing gives rows %r)" % (call, type(e).__name__, e, want)}
                if not same(res, want, NAMES if style == "whole" else ["x", "y"]):
                    return {"reproduced": True, "key": "slice:value:%s:%s:%s" % ("text" if delim else "binary", style, kind),
                            "what": "%s returned rows with x=%r, Python slicing gives rows %r" % (call, res["x"].tolist() if res.dtype.names else res.tolist(), want)}
                return no
            if what == "columns":
                sels = [(a,) for a in NAMES] + list(itertools.permutations(NAMES, 2)) + [tuple(NAMES[::-1])]
                sel = sels[int(mdl.get("selection", 0))]
                kw = ["columns", "fields"][int(mdl.get("keyword", 0))]
                scalar = len(sel) == 1 and bool(mdl.get("scalar_name", False))
                container = int(mdl.get("container", 0)) if not scalar else 0
                arg = sel[0] if scalar else [list(sel), tuple(sel), np.array(list(sel))][container]
                style = int(mdl.get("style", 0))
                call = "%s %s=%r (style %d)" % (tag, kw, arg if not isinstance(arg, np.ndarray) else arg.tolist(), style)
                try:
                    if style == 0:
                        res = h.read(**{kw: arg})
                    elif style == 1:
                        res = h[arg if not isinstance(arg, tuple) else list(arg)][:]
                    else:
                        res = (h if obj == "rec" else h._robj).get_subset(**{kw: arg}).read()
                except Exception as e:
                    return {"reproduced": True, "key": "columns:raises", "what": "%s raised %s: %s" % (call, type(e).__name__, e)}
                want_cols = [nm for nm in NAMES if nm in sel]
                if not same(res, list(range(n)), want_cols, plain=scalar):
                    return {"reproduced": True, "key": "columns:%s:%s" % ("scalar-" + kw if scalar else "list", "rec" if obj == "rec" else "sf"),
                            "what": "%s -> %s" % (call, "shape %r dtype %r" % (getattr(res, "shape", None), getattr(res, "dtype", None)))}
                if scalar and obj == "sf":
                    r2 = h.read(**{kw: arg, "reduce": True})
                    if not same(r2, list(range(n)), want_cols, plain=True):
                        return {"reproduced": True, "key": "columns:reduce-scalar", "what": "%s with reduce=True -> %r" % (call, r2)}
                return no
            if what == "styles":
                which = int(mdl.get("which", 0))
                if which == 0:
                    res = sfile.read(fn, columns=["v", "x"], split=True)
                    ok = isinstance(res, tuple) and len(res) == 2 and same(res[0], list(range(n)), ["x"], True) and same(res[1], list(range(n)), ["v"], True)
                    desc = "sfile.read(columns=['v','x'], split=True)"
                elif which == 1:
                    res = sfile.read(fn, columns=["y"], reduce=True)
                    ok = same(res, list(range(n)), ["y"], True)
                    desc = "sfile.read(columns=['y'], reduce=True)"
                elif which == 2:
                    res = sfile.read(fn, columns=["y", "x"], reduce=True)
                    ok = res is not None and same(res, list(range(n)), ["x", "y"])
                    desc = "sfile.read(columns=['y','x'], reduce=True)"
                elif which == 3:
                    res = sfile.read(fn, rows=[1, 0], fields="x")
                    ok = same(res, [0, 1], ["x"], True)
                    desc = "sfile.read(rows=[1,0], fields='x')"
                else:
                    with sfile.SFile(fn) as s:
                        off, dt = s._data_start, s._dtype
                    with recfile.Recfile(fn, mode="r", dtype=dt, delim=delim, nrows=n, offset=off) as rf:
                        a = rf["x"][1:]
                        b = rf.read(rows=[1], columns="x")
                    ok = same(a, [1], ["x"], True) and same(b, [1], ["x"], True)
                    res = (a, b)
                    desc = "Recfile['x'][1:] / Recfile.read(rows=[1], columns='x')"
                if not ok:
                    return {"reproduced": True, "key": "styles:%d" % which, "what": "%s (%s file) -> %r" % (desc, "text" if delim else "binary", res)}
                return no
        finally:
            try:
                h.close()
            except Exception:
                pass
    finally:
        shutil.rmtree(d, ignore_errors=True)
    raise AssertionError(what)


MANIFEST_ENTRY = {
    "engine": "symx+castxx",
    "technique": "bounded symbolic execution (symx/z3) of the Python layers of recfile.Util and sfile (row-list normalisation, slice arithmetic, column ordering, scalar handling, access styles, split/reduce) against a contract model of the C++ reader; scalar rows, row-list entries and slice bounds are solver variables concretised only after the code has run, cells are solver variables; the result is compared cell by cell with Python indexing of the full table; the C++ cursor machines of records.cpp (read_binary_slice, read_columns/read_binary_columns, skip_rows, goto_offset) are interpreted from clang's AST (vf.castxx) over an abstract FILE with symbolic slice bounds / sorted row and column selections: every output row holds the bytes of the requested file row and fields, reads stay inside the table and never move backwards; counterexamples are replayed on real files written and read by a scratch build",
    "text": "For tables of 1..3 rows (binary and text), every scalar row in [-n-1,n], every row list over [0,n+1] (with repeats, list or array), every slice with start/stop in [-n-2,n+2] or None and step None/1/2/3 (whole rows and column subsets), every column selection (scalar/list/tuple/array, columns= or fields=) and the access styles read / [] / chained / subset / sfile.read with split and reduce: the cells returned are exactly those of Python indexing of the full table, a single name yields a plain column, out-of-range row lists are rejected and empty selections are empty tables.",
    "note": "the Python layer is decided against the contract of the C++ reader and the binary cursor machines of records.cpp against that contract separately (text-file cursors are not interpreted); n<=3 (4 thorough); delim in {None, ','}",
}
