#!/bin/sh
# tools/mkworktree.sh <name>: scratch git worktree of /repo HEAD under /tmp/wt/<name> with built extensions
set -e
D=/tmp/wt/$1
git -C /repo worktree add --detach "$D" HEAD >/dev/null 2>&1
cd "$D" && /venv/bin/python setup.py build_ext --inplace -j 16 >/dev/null 2>&1
echo "$D"
