#!/usr/bin/env python3
"""tools/seed_confirm.py <PROP> <k> [--wt DIR] [--skip-tests]

Confirms mutant k written by a sub-agent in <wt>/mutants (default /tmp/wt/<PROP>):
  1. the worktree is clean, the demo passes on it
  2. with the diff applied (extensions rebuilt when C/C++ changed) the demo fails and
     the pinned test suite still passes
  3. the tree is restored
and stores it as /verif/seeded/<PROP>-m<k>/{patch.diff, demo.py, meta.json}.
Then (unless --no-check) applies the diff to /repo, runs ./check <PROP> --tier quick,
restores /repo and records the verdict in meta.json.
"""
import argparse
import json
import os
import shutil
import subprocess
import sys
import time

V = os.path.dirname(os.path.dirname(os.path.abspath(__file__)))
PY = "/venv/bin/python"


def sh(cmd, cwd, timeout=3600):
    p = subprocess.run(cmd, cwd=cwd, shell=isinstance(cmd, str), stdout=subprocess.PIPE,
                       stderr=subprocess.STDOUT, timeout=timeout)
    return p.returncode, p.stdout.decode(errors="replace")


def main():
    ap = argparse.ArgumentParser()
    ap.add_argument("prop")
    ap.add_argument("k")
    ap.add_argument("--wt", default=None)
    ap.add_argument("--skip-tests", action="store_true")
    ap.add_argument("--no-check", action="store_true")
    ap.add_argument("--check-props", default=None, help="comma list of properties whose checks to run (default: PROP)")
    ap.add_argument("--tier", default="quick")
    ap.add_argument("--via-worktree", action="store_true",
                    help="development mode: run the check with VERIF_REPO=<wt> (worktree moved to /repo's HEAD) instead of patching /repo")
    a = ap.parse_args()
    wt = a.wt or "/tmp/wt/%s" % a.prop
    md = os.path.join(wt, "mutants")
    diff = os.path.join(md, "m%s.diff" % a.k)
    demo = os.path.join(md, "m%s_demo.py" % a.k)
    meta_in = os.path.join(md, "m%s.json" % a.k)
    sid = "%s-m%s" % (a.prop, a.k)
    out = os.path.join(V, "seeded", sid)
    meta = {"id": sid, "property": a.prop}
    if os.path.exists(meta_in):
        try:
            meta.update(json.load(open(meta_in)))
        except Exception as e:
            meta["agent_meta_error"] = str(e)
    ran = []
    touches_c = any(x in open(diff).read() for x in (".c b/", ".cc b/", ".cpp b/", ".h b/", ".hpp b/"))

    if not os.path.exists(out) or not os.path.exists(os.path.join(out, "meta.json")) or \
            not json.load(open(os.path.join(out, "meta.json"))).get("confirmed"):
        rc, o = sh("git status --porcelain --untracked-files=no", wt)
        if o.strip():
            print("worktree not clean:\n" + o)
            return 2
        rc0, o0 = sh([PY, demo], wt, 1200)
        ran.append("clean tree: %s mutants/m%s_demo.py -> exit %d" % (PY, a.k, rc0))
        rc, o = sh(["git", "apply", diff], wt)
        if rc != 0:
            print("diff does not apply:\n" + o)
            return 2
        try:
            if touches_c:
                rc, o = sh([PY, "setup.py", "build_ext", "--inplace", "-j", "16"], wt)
                if rc != 0:
                    print("build failed with the change\n" + o[-2000:])
                    return 2
            rc1, o1 = sh([PY, demo], wt, 1200)
            ran.append("with patch: demo -> exit %d" % rc1)
            if a.skip_tests:
                rct, ot = 0, "skipped"
            else:
                rct, ot = sh([PY, "-m", "pytest", "-q", "-p", "no:cacheprovider", "--timeout=900", "esutil"], wt, 3600)
            tail = ot.strip().splitlines()[-1] if ot.strip() else ""
            ran.append("with patch: pytest esutil -> exit %d (%s)" % (rct, tail))
        finally:
            sh("git checkout -- .", wt)
            if touches_c:
                sh([PY, "setup.py", "build_ext", "--inplace", "-j", "16"], wt)
        ok = rc0 == 0 and rc1 != 0 and rct == 0
        meta["confirmed"] = ok
        meta["ran"] = ran
        meta["demo_output_with_patch"] = o1[-600:]
        os.makedirs(out, exist_ok=True)
        shutil.copy(diff, os.path.join(out, "patch.diff"))
        shutil.copy(demo, os.path.join(out, "demo.py"))
        meta["how_to_run_demo"] = ("in a scratch worktree W of /repo: git apply patch.diff (rebuild extensions if C changed), "
                                   "copy demo.py to W/mutants/ and run `cd W && /venv/bin/python mutants/demo.py`")
        json.dump(meta, open(os.path.join(out, "meta.json"), "w"), indent=1)
        print("confirmed=%s  %s" % (ok, "; ".join(ran)))
        if not ok:
            print(o1[-800:])
            return 1
    else:
        meta = json.load(open(os.path.join(out, "meta.json")))

    if a.no_check:
        return 0
    # ---- run the registered check(s) against /repo with the change applied ----
    target = "/repo"
    env_repo = None
    if a.via_worktree:
        target = wt
        env_repo = wt
        rc, head = sh("git rev-parse HEAD", "/repo")
        sh("git checkout -q --detach " + head.strip(), wt)
    rc, o = sh("git status --porcelain --untracked-files=no", target)
    if o.strip():
        print(target + " not clean, refusing:\n" + o)
        return 2
    rc, o = sh(["git", "apply", os.path.join(out, "patch.diff")], target)
    if rc != 0:
        print("patch does not apply to /repo (fixes moved the context?):\n" + o)
        meta.setdefault("checks", {})["apply"] = "does not apply to current /repo: " + o[-200:]
        json.dump(meta, open(os.path.join(out, "meta.json"), "w"), indent=1)
        return 1
    verdicts = meta.setdefault("checks", {})
    try:
        for pid in (a.check_props or a.prop).split(","):
            t0 = time.time()
            if env_repo:
                os.environ["VERIF_REPO"] = env_repo
            rc, o = sh(["./check", pid, "--tier", a.tier, "--no-evidence"], V, 7200)
            lines = [l for l in o.splitlines() if l.startswith(("VIOLATION", "  what:", "KNOWN", pid + " tier", "INCONCLUSIVE", "HARNESS"))]
            verdicts["%s/%s%s" % (pid, a.tier, "/worktree" if env_repo else "")] = {"exit": rc, "detected": rc == 1, "wall_s": round(time.time() - t0, 1),
                                                 "lines": lines[:8]}
            print("check %s %s -> exit %d (%s)" % (pid, a.tier, rc, "DETECTED" if rc == 1 else "missed" if rc == 0 else "ERROR"))
            for l in lines[:6]:
                print("   " + l[:400])
    finally:
        sh("git checkout -- .", target)
    json.dump(meta, open(os.path.join(out, "meta.json"), "w"), indent=1)
    return 0


if __name__ == "__main__":
    sys.exit(main())
