#!/usr/bin/env python3
"""prints the prompt for a mutant-writing sub-agent: property text + worktree path only"""
import json, sys
pid = sys.argv[1]
n = int(sys.argv[2]) if len(sys.argv) > 2 else 3
wt = sys.argv[3] if len(sys.argv) > 3 else "/tmp/wt/%s" % pid
start = int(sys.argv[4]) if len(sys.argv) > 4 else 1
rec = None
for l in open("/verif/properties.jsonl"):
    d = json.loads(l)
    if d["id"] == pid:
        rec = d
prop = json.dumps({k: rec[k] for k in ("id", "title", "statement", "quantifier", "anchors") if k in rec}, indent=1)
print(f"""You are working in a scratch git worktree of the Python/C library esheldon/esutil at {wt}
(compiled extensions are already built in place; if you change a .c/.cc/.cpp file rebuild with
`cd {wt} && /venv/bin/python setup.py build_ext --inplace -j 16`). Always use /venv/bin/python.
Work ONLY inside {wt}; never read or touch /repo or /verif.

Here is a semantic property the library is supposed to satisfy:

{prop}

TASK: produce {n} different, independent source changes ("mutants") to the library, each of which BREAKS this
property while (a) the library still builds/imports and (b) the existing test suite still passes:
    cd {wt} && /venv/bin/python -m pytest -q -p no:cacheprovider --timeout=900 esutil      (167 tests)
Each change must be realistic (a regression a maintainer could plausibly introduce in a refactor, clean-up or
optimisation; a few lines) and must need something specific in order to manifest - an unusual input, a boundary
value, a particular option combination, a multi-step sequence of calls, or two cooperating sites that each look
fine alone - NOT something ordinary use would expose at once. Spread the {n} mutants over different functions /
different clauses of the property. Do not touch the tests.

For mutant k (k = {start}..{start+n-1}) leave in {wt}/mutants/ :
  m<k>.diff      - output of `git diff` for the change (must apply with `git apply` to a clean checkout)
  m<k>_demo.py   - a small standalone program, run as `cd {wt} && /venv/bin/python mutants/m<k>_demo.py`, that exits
                   non-zero (failed assertion) WITH the change and exits 0 WITHOUT it; it must check the property
                   against an independent oracle (brute force / direct NumPy computation), not against stored output
  m<k>.json      - {{"property": "{pid}", "file": "<file changed>", "needs": "<what it needs in order to manifest>",
                    "summary": "<one or two sentences>"}}
After saving each diff run `git checkout -- .` (and rebuild if you changed C/C++) so the tree is clean again apart from
the untracked mutants/ directory. VERIFY both directions yourself for every mutant: with the patch applied the demo fails
and the full test suite passes; without it the demo passes. Finish with a short list of what you produced.""")
