#!/usr/bin/env python3
"""regenerates MANIFEST.json from props/*.py (MANIFEST_ENTRY dicts) + the fixed not-applicable list"""
import importlib, json, os, sys
V = os.path.dirname(os.path.dirname(os.path.abspath(__file__)))
sys.path.insert(0, V)
ALL = ["C%02d" % i for i in range(1, 21)]
NA = {
    "C04": "text round trip rests on libc printf/scanf decimal<->binary conversion (%.16g / %lf): no source to encode and no tractable SMT model of correctly rounded 64-bit conversion; structural parts are decided under C02/C15/C16",
    "C12": "completeness of HTM matching is a property of ~6 kLOC of templated C++ floating-point geometry (SpatialDomain/SpatialConvex intersection) that no available engine can encode; see DESIGN.md section 5",
    "C13": "same HTM library code (SpatialIndex descent, SpatialDomain::intersect) as C12: not encodable within reach; see DESIGN.md section 5",
}
PENDING = "check not built yet in this round (see DESIGN.md section 4 for the plan); not claimed until its harness exists"
checks, na = [], []
for pid in ALL:
    path = os.path.join(V, "props", pid + ".py")
    if pid in NA:
        na.append({"property_id": pid, "reason": NA[pid]}); continue
    if not os.path.exists(path):
        na.append({"property_id": pid, "reason": PENDING}); continue
    m = importlib.import_module("props." + pid)
    e = getattr(m, "MANIFEST_ENTRY", None)
    if e is None:
        na.append({"property_id": pid, "reason": PENDING}); continue
    checks.append({
        "property_id": pid,
        "quick_cmd": "./check %s --tier quick" % pid,
        "thorough_cmd": "./check %s --tier thorough" % pid,
        "evidence_file": "evidence/%s.json" % pid,
        "replay_cmd_template": "./check %s --replay {path}" % pid,
        "engine": e.get("engine", "symx"),
        "level_claimed": {"category": getattr(m, "LEVEL", "model_checking"), "text": e["text"], "design_ref": e.get("design_ref", "DESIGN.md section 4 (%s)" % pid)},
        "level_note": e["note"],
        "technique": e["technique"],
    })
man = {
    "version": 1,
    "setup_cmd": "./setup.sh",
    "hooks": {"guard": "ESUTIL_VERIF", "enable": "none needed: the engines instrument in-memory copies of the source (AST loader, stub headers), no hook code lives in /repo",
              "baseline_off_cmd": "cd /repo && /venv/bin/python -m pytest -ra -q -p no:cacheprovider --timeout=900 --continue-on-collection-errors",
              "source_commits": [], "add_only": True},
    "engines": [
        {"name": "symx+symnp", "path": "vf/symx.py vf/symnp.py vf/loader.py", "serves_properties": [c["property_id"] for c in checks if "symx" in c["engine"]],
         "kind_free_text": "own forking symbolic executor (z3) running the repository's unmodified Python source under a NumPy shim"},
        {"name": "cast", "path": "vf/cast.py vf/cmodels.py vf/cstubs", "serves_properties": [c["property_id"] for c in checks if "cast" in c["engine"]],
         "kind_free_text": "symbolic interpreter over clang's JSON AST of the repository's C/C++ sources (z3)"},
        {"name": "crosshair", "path": "vf/xhair.py", "serves_properties": [c["property_id"] for c in checks if "crosshair" in c["engine"]],
         "kind_free_text": "CrossHair 0.0.110 symbolic execution (z3) of scalar Python kernels"},
    ],
    "checks": checks,
    "not_applicable": na,
    "notes": "exit 0 = held within the stated bounds (INCONCLUSIVE lines are informational), 1 = VIOLATION (replayed on a scratch build), 3 = harness error. known_findings.txt is read-only at run time.",
}
json.dump(man, open(os.path.join(V, "MANIFEST.json"), "w"), indent=1)
try:
    import jsonschema
    jsonschema.validate(man, json.load(open("/root/.vp/MANIFEST.schema.json")))
    print("MANIFEST.json valid: %d checks, %d not applicable" % (len(checks), len(na)))
except ImportError:
    print("written (jsonschema not available)")
